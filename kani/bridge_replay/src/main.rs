//! Every scenario prints `<name> REAL <observed> | EXPECT <what the property demands>`.
use crux_core::bridge::BridgeWithSerializer;
use crux_core::capability::Operation;
use crux_core::{Command, Core, Request};
use serde::{Deserialize, Serialize};

#[derive(Clone, PartialEq, Eq, Debug, Serialize, Deserialize)]
pub struct Op(pub u8);
impl Operation for Op {
    type Output = u8;
}

/// an operation whose answer is a length-prefixed string
#[derive(Clone, PartialEq, Eq, Debug, Serialize, Deserialize)]
pub struct OpS(pub u8);
impl Operation for OpS {
    type Output = String;
}

#[crux_core::macros::effect]
pub enum Effect {
    Op(Op),
    OpS(OpS),
}

#[derive(Clone, PartialEq, Eq, Debug, Serialize, Deserialize)]
pub enum Event {
    Start(u8),
    Got(u8),
    Blob(Vec<u8>),
}

#[derive(Default)]
pub struct Model {
    log: Vec<u8>,
}

#[derive(Default)]
pub struct App;

/// something outside crux that a task can wait for (a background worker's callback, a channel, ...)
static SIGNAL_WAKER: std::sync::Mutex<Option<std::task::Waker>> = std::sync::Mutex::new(None);
static SIGNAL_FIRED: std::sync::atomic::AtomicBool = std::sync::atomic::AtomicBool::new(false);

struct Signal;
impl std::future::Future for Signal {
    type Output = ();
    fn poll(self: std::pin::Pin<&mut Self>, cx: &mut std::task::Context<'_>) -> std::task::Poll<()> {
        if SIGNAL_FIRED.load(std::sync::atomic::Ordering::SeqCst) {
            std::task::Poll::Ready(())
        } else {
            *SIGNAL_WAKER.lock().unwrap() = Some(cx.waker().clone());
            std::task::Poll::Pending
        }
    }
}
fn fire_signal() {
    SIGNAL_FIRED.store(true, std::sync::atomic::Ordering::SeqCst);
    if let Some(w) = SIGNAL_WAKER.lock().unwrap().take() {
        w.wake();
    }
}

fn program(p: u8) -> Command<Effect, Event> {
    match p {
        // one task waits for the shell, another for something outside crux and then asks the shell for more
        9 => Command::all([
            Command::request_from_shell(Op(10)).then_send(Event::Got),
            Command::new(|ctx| async move {
                Signal.await;
                let v = ctx.request_from_shell(Op(40)).await;
                ctx.send_event(Event::Got(v));
            }),
        ]),
        0 => Command::request_from_shell(Op(10)).then_send(Event::Got),
        1 => Command::new(|ctx| async move {
            let v = ctx.request_from_shell(Op(10)).await;
            ctx.notify_shell(Op(20));
            ctx.send_event(Event::Got(v));
            let w = ctx.request_from_shell(Op(30)).await;
            ctx.send_event(Event::Got(w));
        }),
        // two concurrent requests (ids must be distinct, answers routed by id) and a stream
        2 => Command::all([
            Command::request_from_shell(Op(11)).then_send(Event::Got),
            Command::request_from_shell(Op(12)).then_send(|v: u8| Event::Got(v.wrapping_add(100))),
        ]),
        8 => Command::request_from_shell(OpS(1)).then_send(|s: String| Event::Got(s.len() as u8)),
        _ => Command::new(|ctx| async move {
            ctx.notify_shell(Op(21));
            ctx.notify_shell(Op(22));
            let v = ctx.request_from_shell(Op(10)).await;
            ctx.send_event(Event::Got(v));
        }),
    }
}

impl crux_core::App for App {
    type Event = Event;
    type Model = Model;
    type ViewModel = Vec<u8>;
    type Capabilities = ();
    type Effect = Effect;
    fn update(&self, event: Event, model: &mut Model, _caps: &()) -> Command<Effect, Event> {
        match event {
            Event::Start(p) => program(p),
            Event::Got(v) => {
                model.log.push(v);
                Command::done()
            }
            Event::Blob(b) => {
                model.log.push((b.len() >> 20) as u8);
                Command::done()
            }
        }
    }
    fn view(&self, model: &Model) -> Vec<u8> {
        model.log.clone()
    }
}

fn is_notification(op: u8) -> bool {
    (20..30).contains(&op)
}

fn direct(p: u8) -> String {
    let mut cmd = program(p);
    let mut steps = Vec::new();
    let mut answer = 5u8;
    for _ in 0..4 {
        let mut reqs: Vec<Request<Op>> = cmd.effects().filter_map(|e| if let Effect::Op(r) = e { Some(r) } else { None }).collect();
        let mut ops: Vec<u8> = reqs.iter().map(|r| r.operation.0).collect();
        ops.sort_unstable();
        let mut evs: Vec<u8> = cmd.events().map(|e| if let Event::Got(v) = e { v } else { 255 }).collect();
        evs.sort_unstable();
        steps.push(format!("e{ops:?}v{evs:?}"));
        // answer in order of operation number (both hosts do)
        reqs.sort_by_key(|r| r.operation.0);
        let mut any = false;
        for mut r in reqs {
            if !is_notification(r.operation.0) && r.resolve(answer).is_ok() {
                any = true;
            }
            answer += 1;
        }
        if !any {
            break;
        }
    }
    steps.join(";")
}

struct Shell {
    bridge: BridgeWithSerializer<App>,
    seen: usize,
}

impl Shell {
    fn new() -> Self {
        Shell { bridge: BridgeWithSerializer::new(Core::new()), seen: 0 }
    }
    fn view(&self) -> Vec<u8> {
        let mut out = Vec::new();
        self.bridge.view(&mut serde_json::Serializer::new(&mut out)).expect("view");
        serde_json::from_slice(&out).expect("view json")
    }
    /// -> Ok(list of (id, op)) or Err(text)
    fn event(&self, json: &str) -> Result<Vec<(u32, u8)>, String> {
        let mut out = Vec::new();
        let mut de = serde_json::Deserializer::from_str(json);
        self.bridge.process_event(&mut de, &mut serde_json::Serializer::new(&mut out)).map_err(|e| format!("{e}"))?;
        Ok(parse(&out))
    }
    fn response(&self, id: u32, json: &str) -> Result<Vec<(u32, u8)>, String> {
        let mut out = Vec::new();
        let mut de = serde_json::Deserializer::from_str(json);
        self.bridge.handle_response(id, &mut de, &mut serde_json::Serializer::new(&mut out)).map_err(|e| format!("{e}"))?;
        Ok(parse(&out))
    }
    fn new_events(&mut self) -> Vec<u8> {
        let log = self.view();
        let mut v = log[self.seen..].to_vec();
        self.seen = log.len();
        v.sort_unstable();
        v
    }
}

fn parse(out: &[u8]) -> Vec<(u32, u8)> {
    let v: serde_json::Value = serde_json::from_slice(out).unwrap_or(serde_json::Value::Null);
    v.as_array()
        .map(|a| a.iter().map(|r| (r["id"].as_u64().unwrap_or(999) as u32, r["effect"]["Op"].as_u64().unwrap_or(999) as u8)).collect())
        .unwrap_or_default()
}

fn through_bridge(p: u8) -> String {
    let r = std::panic::catch_unwind(|| {
        let mut sh = Shell::new();
        let mut pending = sh.event(&format!("{{\"Start\":{p}}}")).expect("start");
        let mut steps = Vec::new();
        let mut answer = 5u8;
        for _ in 0..4 {
            let mut ops: Vec<u8> = pending.iter().map(|x| x.1).collect();
            ops.sort_unstable();
            let ids: std::collections::BTreeSet<u32> = pending.iter().map(|x| x.0).collect();
            let dup = if ids.len() != pending.len() { " DUPLICATE-IDS" } else { "" };
            steps.push(format!("e{ops:?}v{:?}{dup}", sh.new_events()));
            pending.sort_by_key(|x| x.1);
            let mut next = Vec::new();
            let mut any = false;
            for (id, op) in pending {
                if !is_notification(op) {
                    if let Ok(more) = sh.response(id, &format!("{answer}")) {
                        any = true;
                        next.extend(more);
                    }
                }
                answer += 1;
            }
            if !any {
                break;
            }
            pending = next;
        }
        steps.join(";")
    });
    r.unwrap_or_else(|_| "PANIC".to_string())
}

/// malformed input: an error value, and NOTHING else changes; the next well-formed message works as if nothing happened
fn malformed(kind: &str) -> String {
    let r = std::panic::catch_unwind(|| {
        let mut sh = Shell::new();
        let first = sh.event("{\"Start\":0}").expect("start");
        let (id, _) = first[0];
        let before = sh.view();
        let res = match kind {
            "event-garbage" => sh.event("{\"Nope\":1}").map(|_| ()),
            "event-truncated" => sh.event("{\"Start\":").map(|_| ()),
            "event-wrong-type" => sh.event("{\"Start\":\"zero\"}").map(|_| ()),
            "response-wrong-type" => sh.response(id, "\"five\"").map(|_| ()),
            "response-truncated" => sh.response(id, "").map(|_| ()),
            _ => sh.response(id, "70000").map(|_| ()),
        };
        let unchanged = sh.view() == before;
        // afterwards: a fresh event still works and is answered normally
        let again = sh.event("{\"Start\":0}").map(|v| v.len()).unwrap_or(99);
        let _ = sh.new_events();
        format!("{} unchanged={unchanged} next-event-effects={again}", if res.is_err() { "Err" } else { "Ok" })
    });
    r.unwrap_or_else(|_| "PANIC".to_string())
}

/// work becomes runnable between two bridge calls; a malformed response must not run it and throw its effects away
fn malformed_with_pending_work() -> String {
    let r = std::panic::catch_unwind(|| {
        SIGNAL_FIRED.store(false, std::sync::atomic::Ordering::SeqCst);
        let sh = Shell::new();
        let first = sh.event("{\"Start\":9}").expect("start");
        let (id, _) = first[0];
        fire_signal(); // outside any bridge call
        let bad = sh.response(id, "\"five\"");
        // (the one-shot request is spent by the malformed response; the next well-formed message is an event)
        let good = sh.event("{\"Got\":77}").unwrap_or_default();
        let mut ops: Vec<u8> = good.iter().map(|x| x.1).collect();
        ops.sort_unstable();
        format!("bad={} then-good-effects={ops:?} view={:?}", if bad.is_err() { "Err" } else { "Ok" }, sh.view())
    });
    r.unwrap_or_else(|_| "PANIC".to_string())
}

/// the bincode bridge: a 5 MiB event is accepted like any other; a response whose length prefix claims more than the
/// message carries is an error value, not a panic or a giant allocation
fn bincode_scenarios() -> Vec<(String, String, String)> {
    let mut out = Vec::new();
    let r = std::panic::catch_unwind(|| {
        let bridge = crux_core::bridge::Bridge::new(Core::<App>::new());
        let n = 5 * 1024 * 1024 + 1usize;
        let mut ev = vec![2u8, 0, 0, 0];
        ev.extend((n as u64).to_le_bytes());
        ev.extend(std::iter::repeat(7u8).take(n));
        let res = bridge.process_event(&ev);
        let view = bridge.view().unwrap_or_default();
        format!("{} view-tail={:?}", if res.is_ok() { "Ok" } else { "Err" }, &view[view.len().saturating_sub(1)..])
    });
    out.push(("bincode-big-event".to_string(), r.unwrap_or_else(|_| "PANIC".to_string()), "Ok view-tail=[5]".to_string()));
    let r = std::panic::catch_unwind(|| {
        let bridge = crux_core::bridge::Bridge::new(Core::<App>::new());
        let reqs = bridge.process_event(&[0u8, 0, 0, 0, 8]).expect("start");
        // one request: u64 count, then (u32 id, u32 variant, u8 op)
        let id = u32::from_le_bytes([reqs[8], reqs[9], reqs[10], reqs[11]]);
        let mut resp = u64::MAX.to_le_bytes().to_vec();
        resp.extend(b"ab");
        let res = bridge.handle_response(id, &resp);
        format!("{}", if res.is_ok() { "Ok" } else { "Err" })
    });
    out.push(("bincode-huge-length-prefix".to_string(), r.unwrap_or_else(|_| "PANIC".to_string()), "Err".to_string()));
    let r = std::panic::catch_unwind(|| {
        let bridge = crux_core::bridge::Bridge::new(Core::<App>::new());
        let reqs = bridge.process_event(&[0u8, 0, 0, 0, 8]).expect("start");
        let id = u32::from_le_bytes([reqs[8], reqs[9], reqs[10], reqs[11]]);
        let mut resp = 3u64.to_le_bytes().to_vec();
        resp.extend(b"abc");
        let res = bridge.handle_response(id, &resp);
        let view = bridge.view().unwrap_or_default();
        format!("{} view-tail={:?}", if res.is_ok() { "Ok" } else { "Err" }, &view[view.len().saturating_sub(1)..])
    });
    out.push(("bincode-string-response".to_string(), r.unwrap_or_else(|_| "PANIC".to_string()), "Ok view-tail=[3]".to_string()));
    out
}

/// typed path: a task takes two items of a stream and then drops it; the shell resolves three times
fn typed_stream_after_consumer_gone() -> String {
    use std::sync::atomic::{AtomicU8, Ordering};
    static GOT: AtomicU8 = AtomicU8::new(0);
    GOT.store(0, Ordering::SeqCst);
    let r = std::panic::catch_unwind(|| {
        let mut cmd: Command<Effect, Event> = Command::new(|ctx| async move {
            use futures_lite_next::next;
            let mut s = ctx.stream_from_shell(Op(1));
            let a = next(&mut s).await;
            let b = next(&mut s).await;
            drop(s);
            ctx.send_event(Event::Got(a.unwrap_or(200)));
            ctx.send_event(Event::Got(b.unwrap_or(201)));
        });
        let mut req = cmd.effects().filter_map(|e| if let Effect::Op(r) = e { Some(r) } else { None }).next().expect("stream request");
        let mut res = Vec::new();
        for v in [11u8, 12, 13] {
            res.push(if req.resolve(v).is_ok() { "Ok" } else { "Err" });
            let _ = cmd.is_done();
        }
        let evs: Vec<u8> = cmd.events().map(|e| if let Event::Got(v) = e { v } else { 255 }).collect();
        format!("{} delivered={evs:?}", res.join(","))
    });
    r.unwrap_or_else(|_| "PANIC".to_string())
}

/// aborting ONE child of `all` through that child's own handle leaves its sibling alone
fn typed_all_first_child_abort() -> String {
    let r = std::panic::catch_unwind(|| {
        let a: Command<Effect, Event> = Command::request_from_shell(Op(11)).then_send(Event::Got);
        let ha = a.abort_handle();
        let b: Command<Effect, Event> = Command::request_from_shell(Op(12)).then_send(Event::Got);
        let mut all = Command::all([a, b]);
        ha.abort();
        let mut reqs: Vec<Request<Op>> = all.effects().filter_map(|e| if let Effect::Op(r) = e { Some(r) } else { None }).collect();
        let ops: Vec<u8> = reqs.iter().map(|r| r.operation.0).collect();
        for r in reqs.iter_mut() {
            let _ = r.resolve(7);
        }
        let evs: Vec<u8> = all.events().map(|e| if let Event::Got(v) = e { v } else { 255 }).collect();
        format!("effects={ops:?} events={evs:?} done={} aborted={}", all.is_done(), all.was_aborted())
    });
    r.unwrap_or_else(|_| "PANIC".to_string())
}

/// request -> then_stream: the shell drops the FIRST request unresolved; nothing can ever wake the task again
fn typed_then_stream_first_dropped() -> String {
    let r = std::panic::catch_unwind(|| {
        let mut cmd: Command<Effect, Event> = Command::request_from_shell(Op(11)).then_stream(|_x| Command::stream_from_shell(Op(12))).then_send(Event::Got);
        let reqs: Vec<Request<Op>> = cmd.effects().filter_map(|e| if let Effect::Op(r) = e { Some(r) } else { None }).collect();
        let n = reqs.len();
        drop(reqs);
        format!("requests={n} done-after-drop={}", cmd.is_done())
    });
    r.unwrap_or_else(|_| "PANIC".to_string())
}

/// C04: small combinator expressions against what they are documented to mean (expectations written by hand).
/// Each step lists the effects (sorted) and the events (in order) that surfaced, `;` separates steps; after each
/// step every pending request is answered with 5, 6, 7, ... in order of operation number.
fn c04_run(mut cmd: Command<Effect, Event>) -> String {
    let r = std::panic::catch_unwind(std::panic::AssertUnwindSafe(|| {
        let mut steps = Vec::new();
        let mut answer = 5u8;
        for _ in 0..5 {
            let mut reqs: Vec<Request<Op>> = cmd.effects().filter_map(|e| if let Effect::Op(r) = e { Some(r) } else { None }).collect();
            let mut ops: Vec<u8> = reqs.iter().map(|r| r.operation.0).collect();
            ops.sort_unstable();
            let evs: Vec<u8> = cmd.events().map(|e| if let Event::Got(v) = e { v } else { 255 }).collect();
            steps.push(format!("e{ops:?}v{evs:?}"));
            reqs.sort_by_key(|r| r.operation.0);
            let mut any = false;
            for mut r in reqs {
                if !is_notification(r.operation.0) && r.resolve(answer).is_ok() {
                    any = true;
                }
                answer += 1;
            }
            if !any {
                break;
            }
        }
        format!("{} done={}", steps.join(";"), cmd.is_done())
    }));
    r.unwrap_or_else(|_| "PANIC".to_string())
}

/// stream -> then_request: the request for the second item is made only after the first one's was answered
fn c04_stream_then_request() -> String {
    let r = std::panic::catch_unwind(|| {
        let mut cmd: Command<Effect, Event> =
            Command::stream_from_shell(Op(40)).then_request(|v| Command::request_from_shell(Op(v))).then_send(|v: u8| Event::Got(v.wrapping_add(100)));
        let mut take = |cmd: &mut Command<Effect, Event>| -> Vec<Request<Op>> { cmd.effects().filter_map(|e| if let Effect::Op(r) = e { Some(r) } else { None }).collect() };
        let mut stream = take(&mut cmd);
        let first: Vec<u8> = stream.iter().map(|r| r.operation.0).collect();
        // two items arrive before anything else is answered
        let _ = stream[0].resolve(41);
        let _ = stream[0].resolve(42);
        let mut inflight = take(&mut cmd);
        let two: Vec<u8> = inflight.iter().map(|r| r.operation.0).collect();
        let _ = inflight[0].resolve(5);
        let mut next = take(&mut cmd);
        if !next.is_empty() {
            let _ = next[0].resolve(6);
        }
        let evs: Vec<u8> = cmd.events().map(|e| if let Event::Got(v) = e { v } else { 255 }).collect();
        format!("first={first:?} after-two-items={two:?} answered-in-order={evs:?}")
    });
    r.unwrap_or_else(|_| "PANIC".to_string())
}

fn ev(v: u8) -> Command<Effect, Event> {
    Command::event(Event::Got(v))
}
fn note(op: u8) -> Command<Effect, Event> {
    Command::notify_shell(Op(op)).into()
}
fn req(op: u8) -> Command<Effect, Event> {
    Command::request_from_shell(Op(op)).then_send(Event::Got)
}

fn c04_scenarios() -> Vec<(&'static str, String, &'static str)> {
    vec![
        ("typed-c04-done", c04_run(Command::done()), "e[]v[] done=true"),
        ("typed-c04-event", c04_run(ev(1)), "e[]v[1] done=true"),
        ("typed-c04-notify", c04_run(note(20)), "e[20]v[] done=true"),
        ("typed-c04-then-order", c04_run(ev(1).then(ev(2))), "e[]v[1, 2] done=true"),
        ("typed-c04-then-waits", c04_run(req(10).then(ev(9))), "e[10]v[];e[]v[5, 9] done=true"),
        ("typed-c04-then-then", c04_run(req(10).then(req(11)).then(note(21))), "e[10]v[];e[11]v[5];e[21]v[6] done=true"),
        ("typed-c04-and-concurrent", c04_run(req(10).and(req(11))), "e[10, 11]v[];e[]v[5, 6] done=true"),
        ("typed-c04-all-concurrent", c04_run(Command::all([req(10), note(20), req(11)])), "e[10, 11, 20]v[];e[]v[5, 6] done=true"),
        ("typed-c04-all-of-one", c04_run(Command::all([req(10)])), "e[10]v[];e[]v[5] done=true"),
        ("typed-c04-done-unit-then", c04_run(Command::done().then(req(10))), "e[10]v[];e[]v[5] done=true"),
        ("typed-c04-done-unit-and", c04_run(req(10).and(Command::done())), "e[10]v[];e[]v[5] done=true"),
        ("typed-c04-map-event", c04_run(req(10).then(ev(1)).map_event(|e| if let Event::Got(v) = e { Event::Got(v + 100) } else { e })), "e[10]v[];e[]v[105, 101] done=true"),
        ("typed-c04-map-event-identity", c04_run(req(10).and(note(20)).map_event(|e| e)), "e[10, 20]v[];e[]v[5] done=true"),
        ("typed-c04-map-effect", c04_run(req(10).and(ev(3)).map_effect(|e| match e { Effect::Op(mut r) => { r.operation = Op(r.operation.0 + 1); Effect::Op(r) } other => other })), "e[11]v[3];e[]v[5] done=true"),
        ("typed-c04-then-right-nested", c04_run(ev(1).then(ev(2).then(ev(3)))), "e[]v[1, 2, 3] done=true"),
        ("typed-c04-stream-then-request", c04_stream_then_request(), "first=[40] after-two-items=[41] answered-in-order=[105, 106]"),
        ("typed-c04-nested", c04_run(Command::all([req(10).then(req(12)), ev(1).then(req(11))]).then(note(22))), "e[10, 11]v[1];e[12]v[5, 6];e[22]v[7] done=true"),
    ]
}

/// a tiny `next` for streams (avoids a dependency on futures' StreamExt in this driver)
mod futures_lite_next {
    use std::future::Future;
    use std::pin::Pin;
    use std::task::{Context, Poll};
    pub struct Next<'a, S: ?Sized>(&'a mut S);
    pub fn next<S: futures_core_stream::Stream + Unpin + ?Sized>(s: &mut S) -> Next<'_, S> {
        Next(s)
    }
    impl<S: futures_core_stream::Stream + Unpin + ?Sized> Future for Next<'_, S> {
        type Output = Option<S::Item>;
        fn poll(mut self: Pin<&mut Self>, cx: &mut Context<'_>) -> Poll<Self::Output> {
            Pin::new(&mut *self.0).poll_next(cx)
        }
    }
    pub mod futures_core_stream {
        pub use futures_core::Stream;
    }
    pub use self::futures_core_stream as _s;
}
use futures_lite_next::futures_core_stream;

fn main() {
    std::panic::set_hook(Box::new(|_| {}));
    for (name, real, expect) in c04_scenarios() {
        println!("{name} REAL {real} | EXPECT {expect}");
    }
    println!("typed-all-first-child-abort REAL {} | EXPECT effects=[12] events=[7] done=true aborted=false", typed_all_first_child_abort());
    println!("typed-then-stream-first-dropped REAL {} | EXPECT requests=1 done-after-drop=true", typed_then_stream_first_dropped());
    println!("typed-stream-after-consumer-gone REAL {} | EXPECT Ok,Ok,Err delivered=[11, 12]", typed_stream_after_consumer_gone());
    for (name, real, expect) in bincode_scenarios() {
        println!("{name} REAL {real} | EXPECT {expect}");
    }
    println!("response-malformed-with-pending-work REAL {} | EXPECT bad=Err then-good-effects=[40] view=[77]", malformed_with_pending_work());
    for p in 0u8..4 {
        println!("bridge-P{p} REAL {} | EXPECT {}", through_bridge(p), direct(p));
    }
    for kind in ["event-garbage", "event-truncated", "event-wrong-type", "response-wrong-type", "response-truncated", "response-out-of-range"] {
        println!("{kind} REAL {} | EXPECT Err unchanged=true next-event-effects=1", malformed(kind));
    }
}
