//! Native replay of a Kani counterexample: `replay <harness> <hex,hex,...>` where each hex item is
//! one `any()` value (little-endian bytes).  Exit 0 = harness passed on these values (counterexample
//! does NOT reproduce), 101 = panic (reproduces), 3 = values violate the harness assumptions.
#[cfg(not(kani))]
fn main() {
    let args: Vec<String> = std::env::args().collect();
    if args.len() < 2 {
        for (name, _) in core_harness::HARNESSES {
            println!("{name}");
        }
        return;
    }
    let name = &args[1];
    let vals: Vec<Vec<u8>> = args
        .get(2)
        .map(|s| {
            s.split(',')
                .filter(|p| !p.is_empty())
                .map(|p| {
                    (0..p.len() / 2)
                        .map(|i| u8::from_str_radix(&p[2 * i..2 * i + 2], 16).expect("hex"))
                        .collect()
                })
                .collect()
        })
        .unwrap_or_default();
    let Some((_, f)) = core_harness::HARNESSES.iter().find(|(n, _)| n == name) else {
        eprintln!("unknown harness {name}");
        std::process::exit(4);
    };
    core_harness::nd::load(vals);
    let r = std::panic::catch_unwind(f);
    match r {
        Ok(()) => {
            println!("REPLAY-PASS {name}");
        }
        Err(p) => {
            if let Some(s) = p.downcast_ref::<&str>() {
                if *s == core_harness::nd::ASSUME_VIOLATED {
                    println!("REPLAY-INVALID {name}");
                    std::process::exit(3);
                }
            }
            println!("REPLAY-PANIC {name}");
            std::process::exit(101);
        }
    }
}
#[cfg(kani)]
fn main() {}
