//! Native replay of a Kani counterexample: `replay <harness> <hex,hex,...>` where each hex item is
//! one `any()` value (little-endian bytes).  Exit 0 = harness passed on these values (counterexample
//! does NOT reproduce), 101 = panic (reproduces), 3 = values violate the harness assumptions.
/// the value patterns of the crate's self-test: first value sweeps 0..=255 (the case selector of
/// dispatch harnesses), the others follow a few bit patterns
#[cfg(not(kani))]
fn pattern(seed: u32) -> Vec<Vec<u8>> {
    let v0 = (seed & 255) as u8;
    let pat = seed >> 8;
    (0..24)
        .map(|i| {
            let b = if i == 0 {
                v0
            } else {
                match pat {
                    0 => 0,
                    1 => 1,
                    2 => (i % 2) as u8,
                    3 => ((i + 1) % 2) as u8,
                    4 => 255,
                    5 => 2,
                    6 => (i as u8).wrapping_mul(37),
                    _ => 128,
                }
            };
            vec![b, 0, 0, 0, 0, 0, 0, 0]
        })
        .collect()
}

/// `replay --search <harness> <assertion text>`: look for recorded-style values on which the harness
/// panics natively with a message containing the text.  Used to obtain a replayable witness for an
/// assertion the solver reported as FAILED without paying for Kani's concrete playback.
#[cfg(not(kani))]
fn search(name: &str, needle: &str) -> i32 {
    use std::sync::Mutex;
    static LAST: Mutex<String> = Mutex::new(String::new());
    std::panic::set_hook(Box::new(|info| {
        let msg = info
            .payload()
            .downcast_ref::<&str>()
            .map(|s| s.to_string())
            .or_else(|| info.payload().downcast_ref::<String>().cloned())
            .unwrap_or_default();
        *LAST.lock().unwrap() = msg;
    }));
    let Some((_, f)) = core_harness::HARNESSES.iter().find(|(n, _)| *n == name) else {
        return 4;
    };
    for seed in 0u32..2048 {
        let vals = pattern(seed);
        core_harness::nd::load(vals.clone());
        if std::panic::catch_unwind(f).is_err() {
            let msg = LAST.lock().unwrap().clone();
            if msg != core_harness::nd::ASSUME_VIOLATED && msg.contains(needle) {
                let (used, _) = core_harness::nd::consumed();
                let hex: Vec<String> = vals.iter().take(used.max(1)).map(|v| format!("{:02x}", v[0])).collect();
                println!("FOUND {} | {}", hex.join(","), msg);
                return 0;
            }
        }
    }
    println!("NOTFOUND");
    1
}

#[cfg(not(kani))]
fn main() {
    let args: Vec<String> = std::env::args().collect();
    if args.len() >= 4 && args[1] == "--search" {
        std::process::exit(search(&args[2], &args[3]));
    }
    if args.len() < 2 {
        for (name, _) in core_harness::HARNESSES {
            println!("{name}");
        }
        return;
    }
    let name = &args[1];
    let vals: Vec<Vec<u8>> = args
        .get(2)
        .map(|s| {
            s.split(',')
                .filter(|p| !p.is_empty())
                .map(|p| {
                    (0..p.len() / 2)
                        .map(|i| u8::from_str_radix(&p[2 * i..2 * i + 2], 16).expect("hex"))
                        .collect()
                })
                .collect()
        })
        .unwrap_or_default();
    let Some((_, f)) = core_harness::HARNESSES.iter().find(|(n, _)| n == name) else {
        eprintln!("unknown harness {name}");
        std::process::exit(4);
    };
    core_harness::nd::load(vals);
    let r = std::panic::catch_unwind(f);
    match r {
        Ok(()) => {
            println!("REPLAY-PASS {name}");
        }
        Err(p) => {
            if let Some(s) = p.downcast_ref::<&str>() {
                if *s == core_harness::nd::ASSUME_VIOLATED {
                    println!("REPLAY-INVALID {name}");
                    std::process::exit(3);
                }
            }
            println!("REPLAY-PANIC {name}");
            std::process::exit(101);
        }
    }
}
#[cfg(kani)]
fn main() {}
