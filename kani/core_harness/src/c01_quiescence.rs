//! C01 — a call runs to quiescence and hands over every output exactly once: the two executors' run
//! loops and the command's stream hand-over.
//!
//! Real code driven: `Command::{run_until_settled, spawn_new_tasks, run_task, effects, events, is_done}`,
//! `CommandContext::spawn` from inside a running task, `<Command as Stream>::poll_next`,
//! `QueuingExecutor::{run_all, run_task}`, `Spawner::spawn` from inside a running task, both wakers.
//! What a call made possible must have happened when it returns: tasks spawned by tasks (to depth 3),
//! tasks woken by tasks, self-woken tasks — all run in the same call; nothing runnable is left in the
//! spawn queue or the ready queue; every output is there exactly once; a second call with no new
//! input does nothing.
//! Not reachable (DESIGN §1): the `Core::process` loop that alternates the two executors and `update`.

use std::future::Future;
use std::pin::Pin;
use std::sync::atomic::Ordering;
use std::sync::Arc;
use std::task::{Context, Poll};

use crux_core::capability::verif_executor::{new_executor, Spawner};
use crux_core::command::verif_hooks as hooks;
use crux_core::command::CommandOutput;

use crate::script::{Cmd, Ctx, Probe, Script, Slot, Step};
use crate::{dispatch, nd, nd_cover};

const SPAWN: u8 = 1;
const EFFECT: u8 = 2;
const EVENT: u8 = 4;
const PARK: u8 = 8;
const READY: u8 = 16;
const WAKE_SELF: u8 = 32;
const CHILD_WAKES_SLOT: u8 = 64;

/// A command task that may spawn a child from inside its poll.
pub struct Sp {
    pub p0: u8,
    pub p1: u8,
    pub probe: Arc<Probe>,
    pub child_probe: Arc<Probe>,
    pub child_probe2: Arc<Probe>,
    pub slot: Arc<Slot>,
    pub ctx: Ctx,
    pub tag: u8,
}

impl Drop for Sp {
    fn drop(&mut self) {
        self.probe.dropped.store(true, Ordering::SeqCst);
    }
}

impl Future for Sp {
    type Output = ();
    fn poll(self: Pin<&mut Self>, cx: &mut Context<'_>) -> Poll<()> {
        let this = self.get_mut();
        let n = this.probe.polls.load(Ordering::SeqCst);
        this.probe.polls.store(n + 1, Ordering::SeqCst);
        let b = match n {
            0 => this.p0,
            1 => this.p1,
            _ => 0,
        };
        if b & EFFECT != 0 {
            hooks::send_effect(&this.ctx, this.tag.wrapping_add(n));
        }
        if b & EVENT != 0 {
            this.ctx.send_event(this.tag.wrapping_add(n));
        }
        if b & PARK != 0 {
            this.slot.put(cx.waker().clone());
        }
        if b & SPAWN != 0 {
            let p = if n == 0 { this.child_probe.clone() } else { this.child_probe2.clone() };
            let s = this.slot.clone();
            let child = Step { effect: true, wake_slot: b & CHILD_WAKES_SLOT != 0, ready: true, ..Step::pending() };
            let tag = this.tag.wrapping_add(100).wrapping_add(n);
            this.ctx.spawn(move |ctx| Script::new([child, Step::pending(), Step::pending()], &p, &s, ctx, tag));
        }
        if b & WAKE_SELF != 0 {
            cx.waker().wake_by_ref();
        }
        if b & READY != 0 {
            Poll::Ready(())
        } else {
            Poll::Pending
        }
    }
}

/// A chain: each task emits its depth and spawns the next one from inside its poll.
pub struct Chain {
    pub depth: u8,
    pub probe: Arc<Probe>,
    pub ctx: Ctx,
    pub tag: u8,
}

impl Future for Chain {
    type Output = ();
    fn poll(self: Pin<&mut Self>, _cx: &mut Context<'_>) -> Poll<()> {
        let this = self.get_mut();
        let n = this.probe.polls.load(Ordering::SeqCst);
        this.probe.polls.store(n + 1, Ordering::SeqCst);
        hooks::send_effect(&this.ctx, this.tag.wrapping_add(this.depth));
        if this.depth > 0 {
            let (depth, probe, tag) = (this.depth - 1, this.probe.clone(), this.tag);
            this.ctx.spawn(move |ctx| Chain { depth, probe, ctx, tag });
        }
        Poll::Ready(())
    }
}

fn quiescent(cmd: &Cmd) {
    assert!(hooks::spawn_len(cmd) == 0, "no spawned task is left waiting when the call returns");
    assert!(hooks::ready_len(cmd) == 0, "no runnable task is left behind when the call returns");
}

fn take_effects(cmd: &mut Cmd, expect: &[u8]) {
    let mut k = 0usize;
    for e in cmd.effects() {
        assert!(k < expect.len() && e == expect[k], "every effect handed over exactly once, in emission order");
        k += 1;
    }
    assert!(k == expect.len(), "no effect dropped or deferred to a later call");
}

/// C: 0 root spawns a child that wakes the parked root, which spawns a second child and finishes —
///      everything within ONE settle
///    1 root spawns a child and parks; an outside wake later makes it spawn another and finish
///    2 a chain of three tasks, each spawned from inside the poll of the previous one
///    3 a task that wakes itself and needs two polls
///    4 a task whose LAST poll spawns a child and then leaves it unwakeable (pending, no waker kept,
///      not woken: the executor evicts it) — the child still belongs to this call
///    5 a task that spawns a child, wakes itself and finishes in the same poll (its queued id then
///      finds no task) — the child still belongs to this call
fn settle_case<const C: u8>() {
    let (pr, pc, pc2) = (Arc::new(Probe::default()), Arc::new(Probe::default()), Arc::new(Probe::default()));
    let slot = Slot::new();
    let tag = nd::any_u8();
    nd::assume(tag < 50);
    let (p0, p1) = match C {
        0 => (SPAWN | EFFECT | PARK | CHILD_WAKES_SLOT, SPAWN | EFFECT | READY),
        1 => (SPAWN | PARK, SPAWN | READY),
        4 => (SPAWN, 0),
        5 => (SPAWN | WAKE_SELF | READY, 0),
        _ => (EFFECT | WAKE_SELF, EFFECT | EVENT | READY),
    };
    let mut cmd: Cmd = {
        let (pr, pc, pc2, slot) = (pr.clone(), pc.clone(), pc2.clone(), slot.clone());
        if C == 2 {
            crux_core::Command::new(move |ctx| Chain { depth: 2, probe: pr, ctx, tag })
        } else {
            crux_core::Command::new(move |ctx| Sp { p0, p1, probe: pr, child_probe: pc, child_probe2: pc2, slot, ctx, tag })
        }
    };
    hooks::run_until_settled(&mut cmd); // ONE call
    quiescent(&cmd);
    match C {
        0 => {
            assert!(pr.polls() == 2 && pc.polls() == 1 && pc2.polls() == 1, "root twice, both children once, all in one call");
            assert!(pr.dropped() && hooks::live_tasks(&cmd) == 0, "all finished");
            take_effects(&mut cmd, &[tag, tag.wrapping_add(100), tag.wrapping_add(1), tag.wrapping_add(101)]);
        }
        1 => {
            assert!(pr.polls() == 1 && pc.polls() == 1, "child spawned from inside a poll ran in the same call");
            assert!(hooks::live_tasks(&cmd) == 1, "root parked");
            take_effects(&mut cmd, &[tag.wrapping_add(100)]);
            assert!(!cmd.is_done(), "root can still be woken");
            slot.take().expect("root parked").wake();
            hooks::run_until_settled(&mut cmd);
            quiescent(&cmd);
            assert!(pr.polls() == 2 && pc2.polls() == 1, "the task spawned by the last task of the pass ran in the same call");
            take_effects(&mut cmd, &[tag.wrapping_add(101)]);
        }
        4 | 5 => {
            assert!(pr.polls() == 1 && pr.dropped(), "root ran once and is gone (evicted / finished)");
            assert!(pc.polls() == 1, "the child spawned in the last poll of an evicted or finished task ran in the same call");
            assert!(hooks::live_tasks(&cmd) == 0, "nothing lingers");
            take_effects(&mut cmd, &[tag.wrapping_add(100)]);
        }
        2 => {
            assert!(pr.polls() == 3, "three generations in one call");
            assert!(hooks::live_tasks(&cmd) == 0, "all finished");
            take_effects(&mut cmd, &[tag.wrapping_add(2), tag.wrapping_add(1), tag]);
        }
        _ => {
            assert!(pr.polls() == 2 && pr.dropped(), "self-woken task ran to the end in one call");
            take_effects(&mut cmd, &[tag, tag.wrapping_add(1)]);
            let mut n = 0u8;
            for e in cmd.events() {
                assert!(e == tag.wrapping_add(1), "event unchanged");
                n += 1;
            }
            assert!(n == 1, "event exactly once");
        }
    }
    // a further call with no new input does nothing
    let before = (pr.polls(), pc.polls(), pc2.polls());
    hooks::run_until_settled(&mut cmd);
    assert!((pr.polls(), pc.polls(), pc2.polls()) == before, "nothing runs without new input");
    assert!(hooks::effects_len(&cmd) == 0 && hooks::events_len(&cmd) == 0, "no output appears later");
    assert!(cmd.is_done(), "done");
    nd_cover!(C == 0, "child wakes parent which spawns again, one call");
    nd_cover!(C == 1, "task spawned by the last task of a pass");
    nd_cover!(C == 2, "three generations");
    nd_cover!(C == 3, "self-woken task");
    nd_cover!(C == 4, "spawned by a task that is evicted in the same poll");
    nd_cover!(C == 5, "spawned by a task that wakes itself and finishes");
    std::mem::forget((cmd, pr, pc, pc2, slot));
}

#[cfg_attr(kani, kani::proof, kani::unwind(7))]
#[cfg_attr(kani, kani::stub(core::mem::MaybeUninit::write, crate::common::maybe_uninit_write))]
pub fn c01_settle_quiescent_a() {
    let c = nd::any_u8();
    dispatch!(c, settle_case, 0 2);
}

#[cfg_attr(kani, kani::proof, kani::unwind(7))]
#[cfg_attr(kani, kani::stub(core::mem::MaybeUninit::write, crate::common::maybe_uninit_write))]
pub fn c01_settle_quiescent_b() {
    let c = nd::any_u8();
    dispatch!(c, settle_case, 1 3);
}

#[cfg_attr(kani, kani::proof, kani::unwind(7))]
#[cfg_attr(kani, kani::stub(core::mem::MaybeUninit::write, crate::common::maybe_uninit_write))]
pub fn c01_settle_quiescent_c() {
    let c = nd::any_u8();
    dispatch!(c, settle_case, 4 5);
}

/// The hand-over through `poll_next` (how the core's `CommandSpawner` and parent commands take a
/// command's outputs): queued events first, then effects, one item per poll, each exactly once;
/// `Pending` exactly while a task can still be woken and nothing is queued; `None` exactly at the end.
/// V: 0 = two effects and an event over two polls of the task, 1 = the same with a spawned child.
fn stream_handover_case<const V: u8>() {
    use futures::Stream;
    use std::task::Waker;
    let (pr, pc) = (Arc::new(Probe::default()), Arc::new(Probe::default()));
    let slot = Slot::new();
    let tag = nd::any_u8();
    nd::assume(tag < 50);
    let mut cmd: Cmd = {
        let (pr, pc, slot) = (pr.clone(), pc.clone(), slot.clone());
        let p0 = EVENT | EFFECT | PARK | if V == 1 { SPAWN } else { 0 };
        let pc2 = pc.clone();
        crux_core::Command::new(move |ctx| Sp { p0, p1: EFFECT | READY, probe: pr, child_probe: pc, child_probe2: pc2, slot, ctx, tag })
    };
    let mut cx = Context::from_waker(Waker::noop());
    // first call: event, then the effect(s), then Pending
    match Pin::new(&mut cmd).poll_next(&mut cx) {
        Poll::Ready(Some(CommandOutput::Event(e))) => assert!(e == tag, "events are handed over first"),
        _ => panic!("queued event not yielded"),
    }
    match Pin::new(&mut cmd).poll_next(&mut cx) {
        Poll::Ready(Some(CommandOutput::Effect(e))) => assert!(e == tag, "then the effect"),
        _ => panic!("queued effect not yielded"),
    }
    if V == 1 {
        match Pin::new(&mut cmd).poll_next(&mut cx) {
            Poll::Ready(Some(CommandOutput::Effect(e))) => assert!(e == tag.wrapping_add(100), "the spawned child's effect belongs to the same call"),
            _ => panic!("child's effect not yielded in the call that made it possible"),
        }
    }
    assert!(matches!(Pin::new(&mut cmd).poll_next(&mut cx), Poll::Pending), "nothing queued, task parked: pending");
    assert!(pr.polls() == 1 && pc.polls() == u8::from(V == 1), "no extra polls while handing over");
    quiescent(&cmd);
    slot.take().expect("parked").wake();
    match Pin::new(&mut cmd).poll_next(&mut cx) {
        Poll::Ready(Some(CommandOutput::Effect(e))) => assert!(e == tag.wrapping_add(1), "follow-up effect"),
        _ => panic!("follow-up effect not yielded in the call that resolved the request"),
    }
    assert!(matches!(Pin::new(&mut cmd).poll_next(&mut cx), Poll::Ready(None)), "ends exactly when nothing more can happen");
    assert!(pr.polls() == 2 && pr.dropped(), "task finished and released");
    nd_cover!(V == 0, "hand-over of one task's outputs");
    nd_cover!(V == 1, "hand-over including a spawned child's output");
    std::mem::forget((cmd, pr, pc, slot));
}

#[cfg_attr(kani, kani::proof, kani::unwind(7))]
#[cfg_attr(kani, kani::stub(core::mem::MaybeUninit::write, crate::common::maybe_uninit_write))]
pub fn c01_stream_handover() {
    let v = nd::any_u8();
    dispatch!(v, stream_handover_case, 0 1);
}

/// A task of the legacy capability executor that may spawn another task from inside its poll and
/// wake whoever parked a waker in the shared slot.
pub struct ExSp {
    pub p0: u8,
    pub p1: u8,
    pub probe: Arc<Probe>,
    pub child_probe: Arc<Probe>,
    pub grandchild_probe: Arc<Probe>,
    pub slot: Arc<Slot>,
    pub spawner: Spawner,
    /// what a spawned child does in its only poll
    pub child_p0: u8,
}

impl Drop for ExSp {
    fn drop(&mut self) {
        self.probe.dropped.store(true, Ordering::SeqCst);
    }
}

impl Future for ExSp {
    type Output = ();
    fn poll(self: Pin<&mut Self>, cx: &mut Context<'_>) -> Poll<()> {
        let this = self.get_mut();
        let n = this.probe.polls.load(Ordering::SeqCst);
        this.probe.polls.store(n + 1, Ordering::SeqCst);
        let b = match n {
            0 => this.p0,
            1 => this.p1,
            _ => READY,
        };
        if b & CHILD_WAKES_SLOT != 0 {
            if let Some(w) = this.slot.take() {
                w.wake();
            }
        }
        if b & PARK != 0 {
            this.slot.put(cx.waker().clone());
        }
        if b & SPAWN != 0 {
            this.spawner.spawn(ExSp {
                p0: this.child_p0,
                p1: READY,
                probe: this.child_probe.clone(),
                child_probe: this.grandchild_probe.clone(),
                grandchild_probe: this.grandchild_probe.clone(),
                slot: this.slot.clone(),
                spawner: this.spawner.clone(),
                child_p0: READY,
            });
        }
        if b & WAKE_SELF != 0 {
            cx.waker().wake_by_ref();
        }
        if b & READY != 0 {
            Poll::Ready(())
        } else {
            Poll::Pending
        }
    }
}

/// X: 0 T1 spawns T2 and parks; T2 wakes T1, spawns T3 and finishes; T1 and T3 finish — one run_all
///    1 T1 wakes itself and spawns T2 in its second poll; T2 finishes — one run_all
///    2 T1 spawns T2 and parks; T2 finishes without waking: T1 stays parked, nothing runnable left;
///      an outside wake later finishes it
///    3 T1 spawns T2, wakes itself and finishes in the same poll (its queued id then finds no task)
///    4 T1 parks; a LATER call (after an outside wake-up, the way `Core::resolve` arrives) resumes it from
///      the ready queue and only then it spawns T2 and finishes: the round began with an empty spawn queue
///    5 as 4, but T1 parks again after spawning T2
fn run_all_case<const X: u8>() {
    let (exec, spawner) = new_executor();
    let (p1, p2, p3) = (Arc::new(Probe::default()), Arc::new(Probe::default()), Arc::new(Probe::default()));
    let slot = Slot::new();
    let (p0, p1b, child_p0) = match X {
        0 => (SPAWN | PARK, READY, CHILD_WAKES_SLOT | SPAWN | READY),
        1 => (WAKE_SELF, SPAWN | READY, READY),
        3 => (SPAWN | WAKE_SELF | READY, READY, READY),
        4 => (PARK, SPAWN | READY, READY),
        5 => (PARK, SPAWN | PARK, READY),
        _ => (SPAWN | PARK, READY, READY),
    };
    spawner.spawn(ExSp { p0, p1: p1b, probe: p1.clone(), child_probe: p2.clone(), grandchild_probe: p3.clone(), slot: slot.clone(), spawner: spawner.clone(), child_p0 });
    exec.run_all(); // ONE call
    assert!(exec.spawn_len() == 0, "no spawned future is left waiting when run_all returns");
    assert!(exec.ready_len() == 0, "no runnable task is left behind when run_all returns");
    match X {
        0 => {
            assert!(p1.polls() == 2 && p2.polls() == 1 && p3.polls() == 1, "three generations and the wake-up, all in one call");
            assert!(p1.dropped() && p2.dropped() && exec.live_tasks() == 0, "all finished and released");
        }
        1 => {
            assert!(p1.polls() == 2 && p2.polls() == 1, "self-woken task and the task it spawned ran in the same call");
            assert!(p1.dropped() && p2.dropped() && exec.live_tasks() == 0, "all finished");
        }
        3 => {
            assert!(p1.polls() == 1 && p1.dropped(), "parent finished");
            assert!(p2.polls() == 1 && p2.dropped() && exec.live_tasks() == 0, "the task spawned by a task whose stale wake-up finds nothing ran in the same call");
        }
        4 | 5 => {
            assert!(p1.polls() == 1 && p2.polls() == 0 && exec.live_tasks() == 1, "parked, nothing spawned yet");
            slot.take().expect("parked").wake();
            exec.run_all(); // ONE call, entered with an empty spawn queue
            assert!(exec.spawn_len() == 0, "a task spawned by a task resumed from the ready queue is not left waiting when run_all returns");
            assert!(exec.ready_len() == 0, "no runnable task is left behind when run_all returns");
            assert!(p1.polls() == 2 && p2.polls() == 1 && p2.dropped(), "the resumed task and the task it spawned both ran in the same call");
            if X == 4 {
                assert!(p1.dropped() && exec.live_tasks() == 0, "all finished");
            } else {
                assert!(!p1.dropped() && exec.live_tasks() == 1, "parent parked again");
            }
        }
        _ => {
            assert!(p1.polls() == 1 && p2.polls() == 1 && !p1.dropped() && p2.dropped(), "child ran, parent parked");
            assert!(exec.live_tasks() == 1, "one live task");
            slot.take().expect("parked").wake();
            exec.run_all();
            assert!(p1.polls() == 2 && p1.dropped() && exec.live_tasks() == 0, "finished after the wake-up");
            assert!(exec.spawn_len() == 0 && exec.ready_len() == 0, "quiescent again");
        }
    }
    let before = (p1.polls(), p2.polls(), p3.polls());
    exec.run_all();
    assert!((p1.polls(), p2.polls(), p3.polls()) == before, "nothing runs without new input");
    nd_cover!(X == 0, "spawn chain with a wake-up back to the parent");
    nd_cover!(X == 1, "self-wake then spawn");
    nd_cover!(X == 2, "parent parked, child finished");
    nd_cover!(X == 3, "spawn, self-wake and finish in one poll");
    nd_cover!(X == 4, "resumed from the ready queue, then spawns and finishes");
    nd_cover!(X == 5, "resumed from the ready queue, then spawns and parks again");
    std::mem::forget((exec, spawner, p1, p2, p3, slot));
}

#[cfg_attr(kani, kani::proof, kani::unwind(7))]
#[cfg_attr(kani, kani::stub(core::mem::MaybeUninit::write, crate::common::maybe_uninit_write))]
pub fn c01_run_all_quiescent() {
    let x = nd::any_u8();
    dispatch!(x, run_all_case, 0 1 2 3);
}

#[cfg_attr(kani, kani::proof, kani::unwind(7))]
#[cfg_attr(kani, kani::stub(core::mem::MaybeUninit::write, crate::common::maybe_uninit_write))]
pub fn c01_run_all_resumed_spawns() {
    let x = nd::any_u8();
    dispatch!(x, run_all_case, 4 5);
}
