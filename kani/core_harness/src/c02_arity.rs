//! C02 — declared arity of a request (typed path): `Resolve::resolve` / `Request::resolve`.
//!
//! The continuation is a harness closure that records every value it is handed, so "received
//! exactly once, unchanged, in order" is an assertion over the recorder.

use std::sync::atomic::{AtomicU32, AtomicU8, Ordering};
use std::sync::Arc;

use crate::common::Op;
use crate::{nd, nd_cover};
use crux_core::{Request, ResolveError};

/// Records up to four delivered bytes, in order.
#[derive(Default)]
pub struct Recorder {
    pub count: AtomicU8,
    pub values: AtomicU32,
}

impl Recorder {
    pub fn push(&self, v: u8) {
        let n = self.count.load(Ordering::SeqCst);
        if n < 4 {
            let old = self.values.load(Ordering::SeqCst);
            self.values
                .store(old | (u32::from(v) << (8 * u32::from(n))), Ordering::SeqCst);
        }
        self.count.store(n + 1, Ordering::SeqCst);
    }
    pub fn count(&self) -> u8 {
        self.count.load(Ordering::SeqCst)
    }
    pub fn nth(&self, i: u8) -> u8 {
        (self.values.load(Ordering::SeqCst) >> (8 * u32::from(i))) as u8
    }
}

pub const NEVER: u8 = 0;
pub const ONCE: u8 = 1;
pub const MANY: u8 = 2;

/// Build a request of the given arity whose continuation records into `rec`; a `Many` request
/// reports "consumer gone" (Err) from its `close_at`-th delivery attempt on (0-based).
pub fn make_request(kind: u8, op: u8, rec: &Arc<Recorder>, close_at: u8) -> Request<Op> {
    make_request_for(kind, Op(op), rec, close_at)
}

pub fn make_request_for<O>(kind: u8, op: O, rec: &Arc<Recorder>, close_at: u8) -> Request<O>
where
    O: crux_core::capability::Operation<Output = u8>,
{
    match kind {
        NEVER => Request::verif_resolves_never(op),
        ONCE => {
            let rec = rec.clone();
            Request::verif_resolves_once(op, move |v| rec.push(v))
        }
        _ => {
            let rec = rec.clone();
            let attempts = AtomicU8::new(0);
            Request::verif_resolves_many_times(op, move |v| {
                let a = attempts.load(Ordering::SeqCst);
                attempts.store(a.saturating_add(1), Ordering::SeqCst);
                if a >= close_at {
                    Err(())
                } else {
                    rec.push(v);
                    Ok(())
                }
            })
        }
    }
}

/// Reference semantics of the arity state machine, as the property states it.
/// Returns (expected result is Ok, expected delivered-so-far count) after the i-th call (0-based).
pub fn expect(kind: u8, i: u8, close_at: u8) -> (bool, u8) {
    match kind {
        NEVER => (false, 0),
        ONCE => (i == 0, 1),
        _ => {
            if i < close_at {
                (true, i + 1)
            } else {
                (false, close_at)
            }
        }
    }
}

/// Drive `n` resolutions through the real `Request::resolve`; panics (assert) on any deviation from
/// the reference semantics.  Shared by the Kani harness and the native replay.
pub fn drive(kind: u8, close_at: u8, n: u8, vals: [u8; 4]) {
    let rec = Arc::new(Recorder::default());
    let mut req = make_request(kind, 7, &rec, close_at);
    assert_eq!(req.verif_kind(), kind);

    let mut i = 0u8;
    while i < n {
        let r = req.resolve(vals[i as usize]);
        let (want_ok, want_count) = expect(kind, i, close_at);
        match (&r, kind) {
            (Ok(()), _) => assert!(want_ok, "resolution accepted but arity forbids it"),
            (Err(ResolveError::Never), NEVER | ONCE) => {
                assert!(!want_ok, "resolution rejected but arity allows it")
            }
            (Err(ResolveError::FinishedMany), MANY) => {
                assert!(!want_ok, "stream resolution rejected before its consumer ended")
            }
            _ => panic!("wrong error kind for this arity"),
        }
        // delivered exactly the accepted values, unchanged and in order, nothing else
        assert_eq!(rec.count(), want_count, "delivery count");
        let mut j = 0u8;
        while j < want_count {
            assert_eq!(rec.nth(j), vals[j as usize], "delivered value/order");
            j += 1;
        }
        // operation untouched
        assert_eq!(req.operation, Op(7));
        i += 1;
    }
    if kind == ONCE && n > 0 {
        // a used one-shot request is now a notification-like dead end
        assert_eq!(req.verif_kind(), NEVER);
    }
}

/// Every sequence of <= 4 resolutions with arbitrary byte values on a request of arbitrary arity,
/// with an arbitrary point at which a stream's consumer goes away.
#[cfg_attr(kani, kani::proof, kani::unwind(6))]
pub fn c02_arity_typed() {
    let kind = nd::any_u8_le(MANY);
    let close_at = nd::any_u8_le(4);
    let n = nd::any_u8_le(4);
    let vals = [nd::any_u8(), nd::any_u8(), nd::any_u8(), nd::any_u8()];
    drive(kind, close_at, n, vals);
    nd_cover!(kind == NEVER && n == 4, "never: four rejected resolutions");
    nd_cover!(kind == ONCE && n == 4, "once: accepted then three rejected");
    nd_cover!(kind == MANY && n == 4 && close_at == 2, "many: two accepted, two rejected");
    nd_cover!(kind == MANY && n == 4 && close_at == 4, "many: four accepted");
}

#[cfg(test)]
mod tests {
    use super::*;

    // harness sanity on the native build: same driver, concrete runs
    #[test]
    fn native_smoke() {
        for kind in 0..=2u8 {
            for close_at in 0..=4u8 {
                for n in 0..=4u8 {
                    drive(kind, close_at, n, [1, 2, 3, 4]);
                }
            }
        }
    }
}
