//! C04 — command primitives and the smallest combinator laws, on the real constructors.
//!
//! `Command::done`, `Command::event`, `Command::notify_shell(..).into()` are built by the real code
//! (their tasks are crux's own `async` blocks / `futures::future::ready`), run by the real executor
//! and observed through `effects()` / `events()` / `is_done()`.  The payload is symbolic.
//!
//! The combinators (`then`, `and`, `all`, `map_*`) host a command through `CommandStreamExt::host`
//! (`map(Ok).forward(sink)`); the `c04_probe_*` harnesses below measure whether symbolic execution
//! gets through them for the smallest operands.  They are registered only if it does (DESIGN §2, C04).

use crux_core::command::verif_hooks as hooks;
use crux_core::Command;
use crux_core::Request;

use crate::common::Op;
use crate::script::Cmd;
use crate::{nd, nd_cover};

/// Effect type for the notification harness: one variant holding the real `Request<Op>`.
pub enum Eff1 {
    A(Request<Op>),
}
impl From<Request<Op>> for Eff1 {
    fn from(r: Request<Op>) -> Self {
        Eff1::A(r)
    }
}

/// `done` produces nothing and is done at once; `event(e)` produces exactly the event `e`, once, no
/// effect, and is done exactly when it was taken.
#[cfg_attr(kani, kani::proof, kani::unwind(5))]
#[cfg_attr(kani, kani::stub(core::mem::MaybeUninit::write, crate::common::maybe_uninit_write))]
pub fn c04_done_event() {
    let which = nd::any_bool();
    let tag = nd::any_u8();
    if which {
        let mut c: Cmd = Command::done();
        assert!(c.effects().next().is_none(), "done: no effect");
        assert!(c.events().next().is_none(), "done: no event");
        assert!(c.is_done(), "done is done");
        assert!(hooks::live_tasks(&c) == 0 && hooks::ready_len(&c) == 0, "done leaves nothing behind");
        nd_cover!(true, "Command::done");
        std::mem::forget(c);
    } else {
        let mut c: Cmd = Command::event(tag);
        assert!(c.effects().next().is_none(), "event: no effect");
        assert!(!c.is_done(), "event: not done while the event is waiting");
        {
            let mut ev = c.events();
            assert!(ev.next() == Some(tag), "event: exactly the given event");
            assert!(ev.next().is_none(), "event: only once");
        }
        assert!(c.events().next().is_none(), "event: not again on a later look");
        assert!(c.is_done(), "event: done once taken");
        assert!(hooks::live_tasks(&c) == 0 && hooks::ready_len(&c) == 0, "event leaves nothing behind");
        nd_cover!(true, "Command::event");
        std::mem::forget(c);
    }
}

/// `notify_shell(op)` produces exactly one effect: a request carrying `op` that accepts no response.
#[cfg_attr(kani, kani::proof, kani::unwind(5))]
#[cfg_attr(kani, kani::stub(core::mem::MaybeUninit::write, crate::common::maybe_uninit_write))]
pub fn c04_notify() {
    let tag = nd::any_u8();
    let mut c: Command<Eff1, u8> = Command::notify_shell(Op(tag)).into();
    assert!(c.events().next().is_none(), "notify: no event");
    assert!(!c.is_done(), "notify: not done while the effect is waiting");
    let mut n = 0u8;
    {
        let mut efs = c.effects();
        let mut i = 0u8;
        while i < 3 {
            match efs.next() {
                Some(Eff1::A(mut req)) => {
                    assert!(req.operation == Op(tag), "notify: the given operation, unchanged");
                    assert!(req.verif_kind() == 0, "notify: a request that expects no response");
                    assert!(req.resolve(tag).is_err(), "notify: resolving it is rejected");
                    n += 1;
                    std::mem::forget(req);
                }
                None => break,
            }
            i += 1;
        }
    }
    assert!(n == 1, "notify: exactly one effect");
    assert!(c.effects().next().is_none(), "notify: not again on a later look");
    assert!(c.is_done(), "notify: done once taken");
    nd_cover!(true, "Command::notify_shell");
    std::mem::forget(c);
}

/// probe: identity law for map_event on the smallest operand
#[cfg_attr(kani, kani::proof, kani::unwind(5))]
#[cfg_attr(kani, kani::stub(core::mem::MaybeUninit::write, crate::common::maybe_uninit_write))]
pub fn c04_probe_map_event() {
    let tag = nd::any_u8();
    let k = nd::any_u8();
    let mut c: Cmd = Command::event(tag).map_event(move |e: u8| e ^ k);
    assert!(c.effects().next().is_none(), "mapped event: no effect");
    {
        let mut ev = c.events();
        assert!(ev.next() == Some(tag ^ k), "mapped exactly once");
        assert!(ev.next().is_none(), "only once");
    }
    assert!(c.is_done(), "done once taken");
    nd_cover!(true, "map_event over Command::event");
    std::mem::forget(c);
}

/// probe: done is a left unit for then
#[cfg_attr(kani, kani::proof, kani::unwind(5))]
#[cfg_attr(kani, kani::stub(core::mem::MaybeUninit::write, crate::common::maybe_uninit_write))]
pub fn c04_probe_then_unit() {
    let tag = nd::any_u8();
    let mut c: Cmd = Command::done().then(Command::event(tag));
    assert!(c.effects().next().is_none(), "no effect");
    {
        let mut ev = c.events();
        assert!(ev.next() == Some(tag), "the event of the second part");
        assert!(ev.next().is_none(), "only once");
    }
    assert!(c.is_done(), "done once taken");
    nd_cover!(true, "done.then(event)");
    std::mem::forget(c);
}

/// probe: and runs both parts
#[cfg_attr(kani, kani::proof, kani::unwind(5))]
#[cfg_attr(kani, kani::stub(core::mem::MaybeUninit::write, crate::common::maybe_uninit_write))]
pub fn c04_probe_and() {
    let (a, b) = (nd::any_u8(), nd::any_u8());
    let mut c: Cmd = Command::event(a).and(Command::event(b));
    {
        let mut ev = c.events();
        let (x, y) = (ev.next(), ev.next());
        assert!((x == Some(a) && y == Some(b)) || (x == Some(b) && y == Some(a)), "both events, each once");
        assert!(ev.next().is_none(), "nothing else");
    }
    assert!(c.is_done(), "done once taken");
    nd_cover!(true, "event.and(event)");
    std::mem::forget(c);
}

/// probe: `event` alone, shortest observation
#[cfg_attr(kani, kani::proof, kani::unwind(5))]
#[cfg_attr(kani, kani::stub(core::mem::MaybeUninit::write, crate::common::maybe_uninit_write))]
pub fn c04_probe_event_only() {
    let tag = nd::any_u8();
    let mut c: Cmd = Command::event(tag);
    {
        let mut ev = c.events();
        assert!(ev.next() == Some(tag), "event: exactly the given event");
        assert!(ev.next().is_none(), "event: only once");
    }
    nd_cover!(true, "Command::event");
    std::mem::forget(c);
}
