//! C05 — a command behaves the same wherever it is hosted: the layer boundary.
//!
//! Real code on both sides of the boundary: the nested `Command` is polled through its real
//! `<Command as Stream>::poll_next` (registers the host's waker, settles, yields events then effects,
//! ends when done) by a task of a real outer `Command`; the task's waker is the outer command's real
//! `CommandWaker`, which the inner command's `AtomicWaker` holds on to (that clone is also what keeps
//! the outer executor from discarding the hosting task).  The hosting task itself (`HostTask`) is a
//! plain struct doing what `CommandStreamExt::host` does — forward every item of the stream into the
//! parent's channels until the stream is pending or ends; the real `host` is `map(Ok).forward(sink)`,
//! whose `Forward`/`Fuse`/`Map` state machines symbolic execution does not get through (DESIGN §1).
//!
//! The same scripted task is also run in a command of its own (the direct host).  After every shell
//! action (a wake-up = a resolved request or stream item, a dropped request) and ONE settle of each,
//! both must show the same effects and events, in the same order, and the same `is_done`.

use std::future::Future;
use std::pin::Pin;
use std::sync::atomic::Ordering;
use std::sync::Arc;
use std::task::{Context, Poll};

use crux_core::command::verif_hooks as hooks;
use crux_core::command::CommandOutput;
use futures::Stream;

use crate::script::{command_with, Cmd, Ctx, Probe, Slot, Step};
use crate::{dispatch, nd, nd_cover};

pub struct HostTask {
    pub inner: Cmd,
    pub ctx: Ctx,
    pub probe: Arc<Probe>,
}

impl Drop for HostTask {
    fn drop(&mut self) {
        self.probe.dropped.store(true, Ordering::SeqCst);
    }
}

impl Future for HostTask {
    type Output = ();
    fn poll(self: Pin<&mut Self>, cx: &mut Context<'_>) -> Poll<()> {
        let this = self.get_mut();
        let n = this.probe.polls.load(Ordering::SeqCst);
        this.probe.polls.store(n.saturating_add(1), Ordering::SeqCst);
        let mut i = 0u8;
        // at most 4 items are ever queued at once in these scenarios
        while i < 5 {
            match Pin::new(&mut this.inner).poll_next(cx) {
                Poll::Ready(Some(CommandOutput::Effect(e))) => hooks::send_effect(&this.ctx, e),
                Poll::Ready(Some(CommandOutput::Event(e))) => this.ctx.send_event(e),
                Poll::Ready(None) => return Poll::Ready(()),
                Poll::Pending => return Poll::Pending,
            }
            i += 1;
        }
        panic!("more items than the scenario can produce");
    }
}

fn nest(inner: Cmd, probe: &Arc<Probe>) -> Cmd {
    let probe = probe.clone();
    crux_core::Command::new(move |ctx| HostTask { inner, ctx, probe })
}

/// drain both commands and require identical outputs (effects in order, then events in order)
fn same_outputs(direct: &mut Cmd, nested: &mut Cmd, expect_effects: u8, expect_events: u8) {
    let mut d = direct.effects();
    let mut n = nested.effects();
    let mut k = 0u8;
    while k < 3 {
        match (d.next(), n.next()) {
            (Some(a), Some(b)) => assert!(a == b, "same effect at the same point under both hosts"),
            (None, None) => break,
            _ => panic!("an effect is visible under one host and not (yet) under the other"),
        }
        k += 1;
    }
    assert!(k == expect_effects, "effects per step as scripted");
    drop((d, n));
    let mut d = direct.events();
    let mut n = nested.events();
    let mut k = 0u8;
    while k < 3 {
        match (d.next(), n.next()) {
            (Some(a), Some(b)) => assert!(a == b, "same event at the same point under both hosts"),
            (None, None) => break,
            _ => panic!("an event is visible under one host and not (yet) under the other"),
        }
        k += 1;
    }
    assert!(k == expect_events, "events per step as scripted");
}

/// S = what happens to the request the task emitted in its first poll:
///   0 resolved: the task emits an event and a follow-up effect and finishes
///   1 dropped: the task is woken, finds nothing and can never be woken again
///   2 a stream: first item -> event, parks again; second item -> event + effect, finishes
///   3 resolved, and the task wakes itself once more before finishing (two polls in one settle)
/// DEPTH = number of hosting layers around the command (1 or 2).
/// the shell's wake-up of a parked task: W = 0 by value (`wake`), W = 1 by reference, then the
/// handle is released (`wake_by_ref` + drop) — the two are equivalent by `Waker`'s contract
fn shell_wake<const W: u8>(slot: &Slot, what: &str) {
    let w = slot.take().expect(what);
    if W == 0 {
        w.wake();
    } else {
        w.wake_by_ref();
        drop(w);
    }
}

fn hosting_case<const S: u8, const DEPTH: u8, const W: u8>() {
    let (pd, pn) = (Arc::new(Probe::default()), Arc::new(Probe::default()));
    let (ph1, ph2) = (Arc::new(Probe::default()), Arc::new(Probe::default()));
    let (sd, sn) = (Slot::new(), Slot::new());
    let tag = nd::any_u8();
    let first = Step { effect: true, keep_slot: true, ..Step::pending() };
    let finish = Step { event: true, effect: true, ready: true, ..Step::pending() };
    let dead = Step::pending();
    let item = Step { event: true, keep_slot: true, ..Step::pending() };
    let rewake = Step { event: true, wake_by_ref: true, ..Step::pending() };
    let steps = match S {
        0 => [first, finish, Step::pending()],
        1 => [first, dead, Step::pending()],
        2 => [first, item, finish],
        _ => [first, rewake, finish],
    };
    let mut direct: Cmd = command_with(steps, &pd, &sd, tag);
    let mut nested: Cmd = nest(command_with(steps, &pn, &sn, tag), &ph1);
    if DEPTH == 2 {
        nested = nest(nested, &ph2);
    }

    // the host's first look: the request effect is there, under both
    hooks::run_until_settled(&mut direct);
    hooks::run_until_settled(&mut nested);
    assert!(pn.polls() == 1 && pd.polls() == 1, "task started under both hosts");
    same_outputs(&mut direct, &mut nested, 1, 0);
    assert!(!direct.is_done() && !nested.is_done(), "request outstanding");
    assert!(hooks::live_tasks(&nested) == 1 && !ph1.dropped(), "the hosting task is kept while the nested command can still be woken");

    // the shell acts on the request: resolve / drop / first stream item
    shell_wake::<W>(&sd, "direct parked");
    shell_wake::<W>(&sn, "nested parked");
    hooks::run_until_settled(&mut direct);
    hooks::run_until_settled(&mut nested); // ONE call of the outermost host
    match S {
        0 => {
            same_outputs(&mut direct, &mut nested, 1, 1);
            assert!(pn.polls() == 2 && pn.dropped(), "noticed in the same call, task finished and released");
        }
        1 => {
            same_outputs(&mut direct, &mut nested, 0, 0);
            assert!(pn.dropped(), "the task that can never be woken again is discarded under the nested host too");
        }
        2 => {
            same_outputs(&mut direct, &mut nested, 0, 1);
            assert!(!direct.is_done() && !nested.is_done(), "subscription alive under both hosts");
            assert!(!ph1.dropped() && hooks::live_tasks(&nested) == 1, "hosting task not torn down between items");
            shell_wake::<W>(&sd, "direct parked again");
            shell_wake::<W>(&sn, "nested parked again");
            hooks::run_until_settled(&mut direct);
            hooks::run_until_settled(&mut nested);
            same_outputs(&mut direct, &mut nested, 1, 1);
            assert!(pn.polls() == 3 && pn.dropped(), "second item noticed in the same call");
        }
        _ => {
            same_outputs(&mut direct, &mut nested, 1, 2);
            assert!(pn.polls() == 3 && pn.dropped(), "self-woken task ran to the end within the same call");
        }
    }
    assert!(direct.is_done() && nested.is_done(), "done under both hosts at the same point");
    assert!(ph1.dropped() && (DEPTH == 1 || ph2.dropped()), "nothing of the finished command remains in its hosts");
    assert!(hooks::live_tasks(&nested) == 0 && hooks::ready_len(&nested) == 0, "outermost host quiescent");
    nd_cover!(S == 0, "nested request resolved");
    nd_cover!(S == 1, "nested request dropped");
    nd_cover!(S == 2, "nested stream, two items");
    nd_cover!(S == 3, "nested task wakes itself");
    nd_cover!(DEPTH == 2, "two hosting layers");
    nd_cover!(W == 1, "shell wakes by reference");
    std::mem::forget((direct, nested, pd, pn, ph1, ph2, sd, sn));
}

fn hosting_depth1<const S: u8>() {
    hosting_case::<S, 1, 0>();
}
fn hosting_depth2<const S: u8>() {
    hosting_case::<S, 2, 0>();
}
fn hosting_depth1_byref<const S: u8>() {
    hosting_case::<S, 1, 1>();
}
fn hosting_depth2_byref<const S: u8>() {
    hosting_case::<S, 2, 1>();
}

#[cfg_attr(kani, kani::proof, kani::unwind(7))]
#[cfg_attr(kani, kani::stub(core::mem::MaybeUninit::write, crate::common::maybe_uninit_write))]
pub fn c05_hosting_a() {
    let s = nd::any_u8();
    dispatch!(s, hosting_depth1, 0 1);
}

#[cfg_attr(kani, kani::proof, kani::unwind(7))]
#[cfg_attr(kani, kani::stub(core::mem::MaybeUninit::write, crate::common::maybe_uninit_write))]
pub fn c05_hosting_b() {
    let s = nd::any_u8();
    dispatch!(s, hosting_depth1, 2 3);
}

#[cfg_attr(kani, kani::proof, kani::unwind(7))]
#[cfg_attr(kani, kani::stub(core::mem::MaybeUninit::write, crate::common::maybe_uninit_write))]
pub fn c05_hosting_deep_a() {
    let s = nd::any_u8();
    dispatch!(s, hosting_depth2, 0 1);
}

#[cfg_attr(kani, kani::proof, kani::unwind(7))]
#[cfg_attr(kani, kani::stub(core::mem::MaybeUninit::write, crate::common::maybe_uninit_write))]
pub fn c05_hosting_deep_b() {
    let s = nd::any_u8();
    dispatch!(s, hosting_depth2, 2 3);
}

/// the shell's wake-up arrives through `wake_by_ref` (then the handle is released) instead of `wake`
#[cfg_attr(kani, kani::proof, kani::unwind(7))]
#[cfg_attr(kani, kani::stub(core::mem::MaybeUninit::write, crate::common::maybe_uninit_write))]
pub fn c05_hosting_byref() {
    let s = nd::any_u8();
    dispatch!(s, hosting_depth1_byref, 0 2);
}

#[cfg_attr(kani, kani::proof, kani::unwind(7))]
#[cfg_attr(kani, kani::stub(core::mem::MaybeUninit::write, crate::common::maybe_uninit_write))]
pub fn c05_hosting_deep_byref() {
    let s = nd::any_u8();
    dispatch!(s, hosting_depth2_byref, 0 2);
}
