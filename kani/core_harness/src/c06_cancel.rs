//! C06 — cancellation is final and contained (abort of a task through its join handle, abort of a
//! command through its abort handle), at every position of a small schedule.
//!
//! Real code driven: `AbortHandle::abort`, `JoinHandle::abort`, `Command::{run_until_settled, run_task,
//! is_done, effects, events, abort_handle, was_aborted}`, `CommandContext::spawn`.
//! Not covered here (out of reach, see DESIGN.md): late resolution of a request of cancelled work —
//! that needs the real `ShellRequest` future.

use std::cell::UnsafeCell;
use std::sync::Arc;

use crux_core::command::verif_hooks::{self as hooks, JoinHandle};

use crate::script::{Cmd, Probe, Script, Slot, Step};
use crate::{dispatch, nd, nd_cover};

fn forget<T>(t: T) {
    std::mem::forget(t);
}

/// Where the harness receives the child's join handle from the command's constructor closure.
pub struct HandleCell(UnsafeCell<*mut JoinHandle>);
unsafe impl Send for HandleCell {}
unsafe impl Sync for HandleCell {}
impl HandleCell {
    pub fn new() -> Arc<HandleCell> {
        Arc::new(HandleCell(UnsafeCell::new(std::ptr::null_mut())))
    }
    pub fn put(&self, h: JoinHandle) {
        unsafe { *self.0.get() = Box::into_raw(Box::new(h)) }
    }
    pub fn get(&self) -> &JoinHandle {
        unsafe { &**self.0.get() }
    }
}

/// Root task A and a spawned child C.  Both park their waker in poll 0 (own slots) and, when polled
/// again, emit one effect and one event with their own tag and finish.
/// P = where `JoinHandle::abort` of the child is injected:
///   0 before the first settle (child never polled), 1 after the first settle (child parked),
///   2 after the child was woken but before the settle that would run it, 3 after the child completed,
///   4 = position 1 and the abort is issued twice, 5 = never (control).
fn task_abort_case<const P: u8>() {
    let (pa, pc) = (Arc::new(Probe::default()), Arc::new(Probe::default()));
    let (sa, sc) = (Slot::new(), Slot::new());
    let cell = HandleCell::new();
    let tag_a = nd::any_u8();
    let tag_c = nd::any_u8();
    let park = Step { keep_slot: true, ..Step::pending() };
    let finish = Step { effect: true, event: true, ready: true, ..Step::pending() };

    let mut cmd: Cmd = {
        let (pa, pc, sa, sc, cell) = (pa.clone(), pc.clone(), sa.clone(), sc.clone(), cell.clone());
        crux_core::Command::new(move |ctx| {
            let h = ctx.spawn(move |ctx| Script::new([park, finish, Step::pending()], &pc, &sc, ctx, tag_c));
            cell.put(h);
            Script::new([park, finish, Step::pending()], &pa, &sa, ctx, tag_a)
        })
    };
    let handle = cell.get();

    if P == 0 {
        handle.abort();
    }
    hooks::run_until_settled(&mut cmd);
    assert!(pa.polls() == 1, "sibling polled normally");
    if P == 0 {
        assert!(pc.polls() == 0, "a task aborted before its first poll is never polled");
        assert!(pc.dropped(), "aborted task's future is dropped");
        assert!(hooks::live_tasks(&cmd) == 1, "only the sibling remains");
    } else {
        assert!(pc.polls() == 1, "child polled once");
        assert!(hooks::live_tasks(&cmd) == 2, "both parked");
    }
    if P == 1 || P == 4 {
        handle.abort();
        if P == 4 {
            handle.abort();
        }
    }
    // the child's wake source fires (late wake for an aborted task)
    if P != 0 {
        sc.take().expect("child parked").wake();
    }
    if P == 2 {
        handle.abort();
    }
    hooks::run_until_settled(&mut cmd);
    let child_ran = P == 3 || P == 5;
    assert!(pc.polls() == if P == 0 { 0 } else if child_ran { 2 } else { 1 }, "an aborted task is not polled again");
    assert!(pc.dropped(), "finished or aborted child is dropped once its wake-up is processed");
    assert!(hooks::live_tasks(&cmd) == 1, "sibling unaffected by the child's abort");
    assert!(!pa.dropped(), "sibling still alive");
    if P == 3 {
        handle.abort(); // abort after completion: no effect
    }
    // outputs so far: only what the child produced if it ran
    let n_eff = hooks::effects_len(&cmd);
    let n_ev = hooks::events_len(&cmd);
    assert!(n_eff == usize::from(child_ran) && n_ev == usize::from(child_ran), "cancelled work produces no output");

    // the sibling's own wake source fires: it runs and finishes normally
    sa.take().expect("sibling parked").wake();
    hooks::run_until_settled(&mut cmd);
    assert!(pa.polls() == 2, "sibling ran again");
    assert!(pa.dropped(), "sibling finished");
    assert!(hooks::live_tasks(&cmd) == 0, "nothing left");

    let mut seen_a = 0;
    let mut seen_c = 0;
    for e in cmd.effects() {
        if e == tag_a && seen_a == 0 {
            seen_a += 1;
        } else {
            assert!(child_ran && e == tag_c && seen_c == 0, "unexpected effect");
            seen_c += 1;
        }
    }
    assert!(seen_a == 1, "sibling's effect delivered exactly once");
    assert!(seen_c == usize::from(child_ran) || (tag_a == tag_c), "child's effect iff it ran");
    let n_events = cmd.events().count();
    assert!(n_events == 1 + usize::from(child_ran), "events: sibling's, plus child's iff it ran");
    assert!(cmd.is_done(), "done once everything finished or was cancelled and outputs were taken");
    assert!(!cmd.was_aborted(), "task abort does not abort the command");

    nd_cover!(P == 0, "abort before first poll");
    nd_cover!(P == 1, "abort while parked");
    nd_cover!(P == 2, "abort between wake and run");
    nd_cover!(P == 3, "abort after completion");
    nd_cover!(P == 4, "abort twice");
    nd_cover!(P == 5, "no abort (control)");
    forget((cmd, pa, pc, sa, sc, cell));
}

#[cfg_attr(kani, kani::proof, kani::unwind(6))]
#[cfg_attr(kani, kani::stub(core::mem::MaybeUninit::write, crate::common::maybe_uninit_write))]
pub fn c06_task_abort_a() {
    let p = nd::any_u8();
    dispatch!(p, task_abort_case, 0 1 2);
}

#[cfg_attr(kani, kani::proof, kani::unwind(6))]
#[cfg_attr(kani, kani::stub(core::mem::MaybeUninit::write, crate::common::maybe_uninit_write))]
pub fn c06_task_abort_b() {
    let p = nd::any_u8();
    dispatch!(p, task_abort_case, 3 4 5);
}

/// Abort of a whole command with two tasks (root + spawned), both of which emit one effect and one
/// event in poll 0 and park; when woken they would emit again and finish.
/// P = where `AbortHandle::abort` is injected:
///   0 before the first settle, 1 after the first settle (outputs queued, tasks parked),
///   2 after the outputs were taken, 3 after one task was woken (id in the ready queue),
///   4 = position 1, twice, 5 after normal completion, 6 = position 1 + a task spawned after the abort.
fn command_abort_case<const P: u8>() {
    let (pa, pb) = (Arc::new(Probe::default()), Arc::new(Probe::default()));
    let (sa, sb) = (Slot::new(), Slot::new());
    let tag = nd::any_u8();
    let s0 = Step { effect: true, event: true, keep_slot: true, ..Step::pending() };
    let s1 = Step { effect: true, event: true, ready: true, ..Step::pending() };

    let mut cmd: Cmd = {
        let (pa, pb, sa, sb) = (pa.clone(), pb.clone(), sa.clone(), sb.clone());
        crux_core::Command::new(move |ctx| {
            ctx.spawn(move |ctx| Script::new([s0, s1, Step::pending()], &pb, &sb, ctx, tag));
            Script::new([s0, s1, Step::pending()], &pa, &sa, ctx, tag)
        })
    };
    let abort = cmd.abort_handle();

    if P == 0 {
        abort.abort();
        assert!(cmd.was_aborted(), "abort is visible at once");
        assert!(cmd.is_done(), "aborted before anything ran: done at once");
        assert!(pa.polls() == 0 && pb.polls() == 0, "nothing polled after the abort");
        assert!(pa.dropped(), "root task dropped");
        assert!(cmd.effects().count() == 0 && cmd.events().count() == 0, "no output");
        assert!(cmd.is_done(), "still done");
        assert!(pa.polls() == 0 && pb.polls() == 0, "nothing polled on later observations either");
        nd_cover!(true, "abort before first settle");
        forget((cmd, pa, pb, sa, sb));
        return;
    }

    hooks::run_until_settled(&mut cmd);
    assert!(pa.polls() == 1 && pb.polls() == 1, "both polled once");
    assert!(hooks::live_tasks(&cmd) == 2, "both parked");
    assert!(hooks::effects_len(&cmd) == 2 && hooks::events_len(&cmd) == 2, "outputs queued");

    let mut taken = 0usize;
    if P == 2 || P == 3 || P == 5 {
        taken += cmd.effects().count();
        taken += cmd.events().count();
        assert!(taken == 4, "outputs taken");
    }
    if P == 3 {
        sa.take().expect("parked").wake();
        assert!(hooks::ready_len(&cmd) == 1, "woken task queued");
    }
    if P == 5 {
        sa.take().expect("parked").wake();
        sb.take().expect("parked").wake();
        hooks::run_until_settled(&mut cmd);
        assert!(pa.polls() == 2 && pb.polls() == 2, "both finished normally");
        taken += cmd.effects().count();
        taken += cmd.events().count();
        assert!(taken == 8, "all outputs of the normal run");
        assert!(cmd.is_done(), "done normally");
    }

    abort.abort();
    if P == 4 {
        abort.abort();
    }
    if P == 6 {
        let (pz, sz) = (Arc::new(Probe::default()), Slot::new());
        let (pz2, sz2) = (pz.clone(), sz.clone());
        cmd.spawn(move |ctx| Script::new([s0, s1, Step::pending()], &pz2, &sz2, ctx, tag));
        let _ = cmd.is_done();
        assert!(pz.polls() == 0, "a task spawned on an aborted command never runs");
        forget((pz, sz));
    }
    assert!(cmd.was_aborted(), "abort is visible");

    let polls_before = (pa.polls(), pb.polls());
    let pending_outputs = hooks::effects_len(&cmd) + hooks::events_len(&cmd);
    let done = cmd.is_done();
    assert!(done == (pending_outputs == 0), "aborted command: done <=> already-emitted outputs were taken");
    assert!(hooks::live_tasks(&cmd) == 0, "all tasks cleared");
    assert!(pa.dropped() && pb.dropped(), "task futures dropped");
    assert!((pa.polls(), pb.polls()) == polls_before, "no poll after the abort");

    // already-emitted outputs can still be taken, exactly once, unchanged
    let mut late = 0usize;
    for e in cmd.effects() {
        assert!(e == tag, "payload");
        late += 1;
    }
    for e in cmd.events() {
        assert!(e == tag, "payload");
        late += 1;
    }
    assert!(late == pending_outputs, "queued outputs taken exactly once");
    assert!(cmd.is_done(), "done after outputs were taken");

    // late wake-ups of parked wakers: no poll, no output, no panic
    if let Some(w) = sa.take() {
        w.wake();
    }
    if let Some(w) = sb.take() {
        w.wake();
    }
    assert!(cmd.is_done(), "still done after late wake-ups");
    assert!((pa.polls(), pb.polls()) == polls_before, "no poll after late wake-ups");
    assert!(cmd.effects().count() == 0 && cmd.events().count() == 0, "cancelled work produces nothing");

    nd_cover!(P == 1, "abort with outputs queued");
    nd_cover!(P == 2, "abort after outputs taken");
    nd_cover!(P == 3, "abort with a woken task queued");
    nd_cover!(P == 4, "abort twice");
    nd_cover!(P == 5, "abort after completion");
    nd_cover!(P == 6, "spawn after abort");
    forget((cmd, pa, pb, sa, sb));
}

#[cfg_attr(kani, kani::proof, kani::unwind(6))]
#[cfg_attr(kani, kani::stub(core::mem::MaybeUninit::write, crate::common::maybe_uninit_write))]
pub fn c06_command_abort_a() {
    let p = nd::any_u8();
    dispatch!(p, command_abort_case, 0 1 2 3);
}

#[cfg_attr(kani, kani::proof, kani::unwind(6))]
#[cfg_attr(kani, kani::stub(core::mem::MaybeUninit::write, crate::common::maybe_uninit_write))]
pub fn c06_command_abort_b() {
    let p = nd::any_u8();
    dispatch!(p, command_abort_case, 4 5 6);
}

/// An aborted command driven as a `Stream` (how a parent command or the Core hosts it) must end:
/// `poll_next` yields the outputs emitted before the abort and then `None` — never `Pending` with
/// nothing left that could wake it (the host would keep it, and everything it captured, forever).
/// P: 0 = aborted before the first poll while a spawned task still waits in the spawn queue,
///    1 = aborted after the first polls, with tasks parked and all outputs already taken,
///    2 = aborted after the first poll, with outputs still queued.
fn aborted_stream_case<const P: u8>() {
    use futures::Stream;
    use std::pin::Pin;
    use std::task::{Context, Poll, Waker};

    let (pa, pb) = (Arc::new(Probe::default()), Arc::new(Probe::default()));
    let (sa, sb) = (Slot::new(), Slot::new());
    let tag = nd::any_u8();
    let s0 = Step { effect: true, event: true, keep_slot: true, ..Step::pending() };
    let s1 = Step { effect: true, ready: true, ..Step::pending() };
    let mut cmd: Cmd = {
        let (pa, pb, sa, sb) = (pa.clone(), pb.clone(), sa.clone(), sb.clone());
        crux_core::Command::new(move |ctx| {
            ctx.spawn(move |ctx| Script::new([s0, s1, Step::pending()], &pb, &sb, ctx, tag));
            Script::new([s0, s1, Step::pending()], &pa, &sa, ctx, tag)
        })
    };
    let abort = cmd.abort_handle();
    let mut cx = Context::from_waker(Waker::noop());

    let mut taken = 0u8;
    if P == 0 {
        abort.abort();
    } else {
        // first poll: both tasks run, four outputs are queued; take one (P == 2) or all (P == 1)
        let n = if P == 1 { 4 } else { 1 };
        while taken < n {
            match Pin::new(&mut cmd).poll_next(&mut cx) {
                Poll::Ready(Some(_)) => taken += 1,
                _ => panic!("queued output not yielded"),
            }
        }
        if P == 1 {
            assert!(matches!(Pin::new(&mut cmd).poll_next(&mut cx), Poll::Pending), "parked tasks: pending");
        }
        abort.abort();
    }
    // after the abort: remaining already-emitted outputs, then the end
    let mut rest = 0u8;
    let mut ended = false;
    let mut i = 0u8;
    while i < 5 && !ended {
        match Pin::new(&mut cmd).poll_next(&mut cx) {
            Poll::Ready(Some(_)) => rest += 1,
            Poll::Ready(None) => ended = true,
            Poll::Pending => panic!("an aborted command with nothing left to wake it must end, not stay pending"),
        }
        i += 1;
    }
    assert!(ended, "stream ended");
    assert!(taken + rest == if P == 0 { 0 } else { 4 }, "exactly the outputs emitted before the abort");
    assert!(pa.polls() == u8::from(P != 0) && pb.polls() == u8::from(P != 0), "no poll after the abort");
    // ended stays ended
    assert!(matches!(Pin::new(&mut cmd).poll_next(&mut cx), Poll::Ready(None)), "still ended");
    assert!(pa.polls() == u8::from(P != 0) && pb.polls() == u8::from(P != 0), "no poll on later polls of the stream either");
    nd_cover!(P == 0, "aborted before first poll, spawn queue not empty");
    nd_cover!(P == 1, "aborted while parked");
    nd_cover!(P == 2, "aborted with outputs queued");
    forget((cmd, pa, pb, sa, sb));
}

#[cfg_attr(kani, kani::proof, kani::unwind(7))]
#[cfg_attr(kani, kani::stub(core::mem::MaybeUninit::write, crate::common::maybe_uninit_write))]
pub fn c06_aborted_stream_ends() {
    let p = nd::any_u8();
    dispatch!(p, aborted_stream_case, 0 1 2);
}

/// A task of the command fires the command's own abort handle in the middle of a settle round (a
/// watchdog).  Work queued *behind* it in the same round is cancelled work: it must not be polled and
/// must not produce outputs.  V: 0 = the victim is the command's root task, 1 = the victim is a
/// spawned sibling, 2 = both.
pub struct AbortFirer {
    pub handle: crux_core::command::verif_hooks::AbortHandle,
    pub probe: Arc<Probe>,
    pub slot: Arc<Slot>,
}

impl std::future::Future for AbortFirer {
    type Output = ();
    fn poll(self: std::pin::Pin<&mut Self>, cx: &mut std::task::Context<'_>) -> std::task::Poll<()> {
        let this = self.get_mut();
        let n = this.probe.polls.load(std::sync::atomic::Ordering::SeqCst);
        this.probe.polls.store(n + 1, std::sync::atomic::Ordering::SeqCst);
        if n == 0 {
            this.slot.put(cx.waker().clone());
            std::task::Poll::Pending
        } else {
            this.handle.abort();
            std::task::Poll::Ready(())
        }
    }
}

fn abort_from_task_case<const V: u8>() {
    let (pr, ps, pf) = (Arc::new(Probe::default()), Arc::new(Probe::default()), Arc::new(Probe::default()));
    let (sr, ss, sf) = (Slot::new(), Slot::new(), Slot::new());
    let tag = nd::any_u8();
    let park = Step { keep_slot: true, ..Step::pending() };
    let work = Step { effect: true, event: true, ready: true, ..Step::pending() };
    let mut cmd: Cmd = {
        let (pr, sr) = (pr.clone(), sr.clone());
        crux_core::Command::new(move |ctx| Script::new([park, work, Step::pending()], &pr, &sr, ctx, tag))
    };
    {
        let (pf, sf, handle) = (pf.clone(), sf.clone(), cmd.abort_handle());
        cmd.spawn(move |_ctx| AbortFirer { handle, probe: pf, slot: sf });
    }
    if V >= 1 {
        let (ps, ss) = (ps.clone(), ss.clone());
        cmd.spawn(move |ctx| Script::new([park, work, Step::pending()], &ps, &ss, ctx, tag));
    }
    hooks::run_until_settled(&mut cmd);
    assert!(pr.polls() == 1 && pf.polls() == 1, "all parked");
    assert!(!cmd.was_aborted(), "not aborted yet");

    // the watchdog's signal and the work's wake-ups arrive back to back, the watchdog first
    sf.take().expect("firer parked").wake();
    if V != 1 {
        sr.take().expect("root parked").wake();
    }
    if V >= 1 {
        ss.take().expect("sibling parked").wake();
    }
    hooks::run_until_settled(&mut cmd);
    assert!(pf.polls() == 2, "watchdog ran");
    assert!(cmd.was_aborted(), "aborted from inside the round");
    if V != 1 {
        assert!(pr.polls() == 1, "root task queued behind the abort is not polled");
    }
    if V >= 1 {
        assert!(ps.polls() == 1, "spawned task queued behind the abort is not polled");
    }
    assert!(cmd.effects().count() == 0, "cancelled work produced no effect");
    assert!(cmd.events().count() == 0, "cancelled work produced no event");
    assert!(cmd.is_done(), "aborted command is done");
    assert!(pr.polls() == 1 && (V == 0 || ps.polls() == 1), "no poll on later observations either");
    nd_cover!(V == 0, "root task behind an in-round abort");
    nd_cover!(V == 1, "spawned task behind an in-round abort");
    nd_cover!(V == 2, "both behind an in-round abort");
    forget((cmd, pr, ps, pf, sr, ss, sf));
}

#[cfg_attr(kani, kani::proof, kani::unwind(6))]
#[cfg_attr(kani, kani::stub(core::mem::MaybeUninit::write, crate::common::maybe_uninit_write))]
pub fn c06_abort_from_task_root() {
    let v = nd::any_u8();
    dispatch!(v, abort_from_task_case, 0);
}

#[cfg_attr(kani, kani::proof, kani::unwind(6))]
#[cfg_attr(kani, kani::stub(core::mem::MaybeUninit::write, crate::common::maybe_uninit_write))]
pub fn c06_abort_from_task_spawned() {
    let v = nd::any_u8();
    dispatch!(v, abort_from_task_case, 1 2);
}

/// Aborting one child of `Command::all` through the child's own handle must not touch its siblings
/// (one level of nesting: each child is hosted in a task of the combined command).
/// N: 0 = abort the first child, 1 = abort the second child, 2 = no abort (control).
fn all_child_abort_case<const N: u8>() {
    let (p1, p2) = (Arc::new(Probe::default()), Arc::new(Probe::default()));
    let (s1, s2) = (Slot::new(), Slot::new());
    let tag = nd::any_u8();
    let park = Step { keep_slot: true, ..Step::pending() };
    let work = Step { effect: true, ready: true, ..Step::pending() };
    let c1: Cmd = crate::script::command_with([park, work, Step::pending()], &p1, &s1, tag);
    let c2: Cmd = crate::script::command_with([park, work, Step::pending()], &p2, &s2, tag);
    let (h1, h2) = (c1.abort_handle(), c2.abort_handle());
    let mut all: Cmd = crux_core::Command::all([c1, c2]);
    assert!(!all.is_done(), "children parked");
    assert!(p1.polls() == 1 && p2.polls() == 1, "both children started");
    match N {
        0 => h1.abort(),
        1 => h2.abort(),
        _ => {}
    }
    // both children's wake sources fire
    if let Some(w) = s1.take() {
        w.wake();
    }
    if let Some(w) = s2.take() {
        w.wake();
    }
    let n_eff = all.effects().count();
    assert!(p1.polls() == if N == 0 { 1 } else { 2 }, "first child runs again iff it was not aborted");
    assert!(p2.polls() == if N == 1 { 1 } else { 2 }, "second child runs again iff it was not aborted");
    assert!(n_eff == if N == 2 { 2 } else { 1 }, "exactly the surviving children's effects");
    assert!(!all.was_aborted(), "aborting a child does not abort the combined command");
    assert!(all.is_done(), "combined command done");
    nd_cover!(N == 0, "first child aborted");
    nd_cover!(N == 1, "second child aborted");
    forget((all, p1, p2, s1, s2));
}

#[cfg_attr(kani, kani::proof, kani::unwind(7))]
#[cfg_attr(kani, kani::stub(core::mem::MaybeUninit::write, crate::common::maybe_uninit_write))]
pub fn c06_all_child_abort() {
    let n = nd::any_u8();
    dispatch!(n, all_child_abort_case, 0 1 2);
}
