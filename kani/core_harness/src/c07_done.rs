//! C07 — a task is discarded only when it finished, was cancelled, or can never be woken again;
//! a command is done iff no task remains and no output is pending.
//!
//! Real code driven: `Command::{new, run_task, run_until_settled, spawn_new_tasks, is_done, spawn}`,
//! `CommandWaker::{wake, wake_by_ref}`, `JoinHandle::poll` (crux_core/src/command/{executor,mod,context}.rs).

use std::sync::Arc;

use crux_core::command::verif_hooks::{self as hooks, PollOutcome};

use crate::script::{command_with, Cmd, Probe, Script, Slot, Step, MAX_STEPS};
use crate::{dispatch, nd, nd_cover};

fn forget<T>(t: T) {
    // the harness ends here; skipping drop glue keeps the SAT instance small and removes nothing
    // from the property (drop behaviour is the subject of the c13_* harnesses)
    std::mem::forget(t);
}

/// One poll of one task, every behaviour: the eviction rule (executor.rs run_task).
///   Ready                                    => Completed
///   Pending and (woken or a clone survives)  => Suspended   (a live task is never discarded)
///   Pending, not woken, no clone             => Cancelled   (it can never be woken again)
/// and every wake re-queues the task exactly once.
#[cfg_attr(kani, kani::proof, kani::unwind(4))]
#[cfg_attr(kani, kani::stub(core::mem::MaybeUninit::write, crate::common::maybe_uninit_write))]
pub fn c07_evict_iff() {
    // which clones of the waker survive the poll is case-split (it drives reference counts);
    // everything else the task does in the poll is symbolic inside each case
    let shape = nd::any_u8_le(3);
    dispatch!(shape, evict_case, 0 1 2 3);
}

fn evict_case<const SHAPE: u8>() {
    let probe = Arc::new(Probe::default());
    let slot = Slot::new();
    let s0 = Step {
        wake_by_ref: nd::any_bool(),
        clone_wake: nd::any_bool(),
        keep_self: SHAPE & 1 != 0,
        keep_slot: SHAPE & 2 != 0,
        effect: nd::any_bool(),
        event: nd::any_bool(),
        ready: nd::any_bool(),
        ..Step::pending()
    };
    let tag = nd::any_u8();
    let mut cmd: Cmd = command_with([s0, Step::pending(), Step::pending()], &probe, &slot, tag);

    assert!(hooks::live_tasks(&cmd) == 1);
    assert!(hooks::ready_pop(&mut cmd) == Some(0));
    let out = hooks::run_task(&mut cmd, 0);

    assert!(probe.polls() == 1, "task polled exactly once by run_task");
    let expect = if s0.ready {
        PollOutcome::Completed
    } else if s0.self_woken() || s0.registered() {
        PollOutcome::Suspended
    } else {
        PollOutcome::Cancelled
    };
    assert!(out == expect, "eviction rule");
    let wakes = usize::from(s0.wake_by_ref) + usize::from(s0.clone_wake);
    // woken <=> queued to run again (how many times a doubly-woken task is queued is not part of
    // the property: de-duplicating wake-ups would be a legitimate change)
    let queued = hooks::ready_len(&cmd);
    assert!((queued > 0) == (wakes > 0) && queued <= wakes, "a task is queued to run again iff it was woken");
    assert!(hooks::effects_len(&cmd) == usize::from(s0.effect), "effect emitted once");
    assert!(hooks::events_len(&cmd) == usize::from(s0.event), "event emitted once");
    // run_task itself never removes the task
    assert!(hooks::has_task(&cmd, 0));

    nd_cover!(out == PollOutcome::Cancelled, "evicted: pending, not woken, no clone");
    nd_cover!(out == PollOutcome::Suspended && !s0.registered(), "kept because it woke itself and dropped the waker");
    nd_cover!(out == PollOutcome::Suspended && !s0.self_woken() && s0.keep_slot, "kept because another owner holds the waker");
    nd_cover!(out == PollOutcome::Completed && s0.keep_self, "completed while holding a clone");
    forget((cmd, probe, slot));
}

/// Settling a one-task command, then `is_done`: done iff the task is gone and outputs were taken.
/// A task that parked its waker elsewhere (slot) is still there after settling; waking it from
/// outside makes the next settle poll it again (no lost wake-up).
///
/// Case split: BITS = behaviour of poll 0 (bits 0..4: wake_by_ref, clone_wake, keep_self, keep_slot,
/// ready) and of poll 1 (bits 5..7: keep_self, keep_slot, ready); which outputs each poll emits and
/// the payload stay symbolic inside each case.
fn settle_case<const BITS: u16>() {
    let probe = Arc::new(Probe::default());
    let slot = Slot::new();
    let s0 = Step { effect: nd::any_bool(), event: nd::any_bool(), ..Step::from_bits(BITS & 31) };
    let s1 = Step {
        keep_self: BITS & 32 != 0,
        keep_slot: BITS & 64 != 0,
        ready: BITS & 128 != 0,
        effect: nd::any_bool(),
        event: nd::any_bool(),
        ..Step::pending()
    };
    let tag = nd::any_u8();
    let mut cmd: Cmd = command_with([s0, s1, Step::pending()], &probe, &slot, tag);

    hooks::run_until_settled(&mut cmd);

    // how many polls must have happened in this settle
    let polled_twice = !s0.ready && s0.self_woken();
    let polls = if polled_twice { 2 } else { 1 };
    assert!(probe.polls() == polls, "polls in first settle");
    let last = if polled_twice { s1 } else { s0 };
    let alive = !last.ready && last.registered();
    assert!(hooks::live_tasks(&cmd) == usize::from(alive), "live tasks after settle");
    assert!(hooks::ready_len(&cmd) == 0, "settled: nothing runnable left");
    assert!(probe.dropped() == !alive, "a discarded task's future is dropped, a live one is not");

    let n_out = usize::from(s0.effect) + usize::from(s0.event)
        + if polled_twice { usize::from(s1.effect) + usize::from(s1.event) } else { 0 };
    let outputs = hooks::effects_len(&cmd) + hooks::events_len(&cmd);
    assert!(outputs == n_out, "every output emitted exactly once");
    let done = cmd.is_done();
    assert!(done == (!alive && outputs == 0), "is_done <=> no task and no pending output");

    // take the outputs: payload unchanged, each exactly once; now done iff no live task
    let mut taken = 0;
    for e in cmd.effects() {
        assert!(e == tag, "effect payload");
        taken += 1;
    }
    for e in cmd.events() {
        assert!(e == tag, "event payload");
        taken += 1;
    }
    assert!(taken == outputs, "outputs taken exactly once");
    assert!(cmd.is_done() == !alive, "after outputs are taken: done <=> no task");

    if alive && last.keep_slot {
        // an outside owner wakes the parked waker: the task must run again
        let before = probe.polls();
        slot.take().expect("parked waker").wake();
        assert!(hooks::ready_len(&cmd) == 1, "outside wake queues the task");
        hooks::run_until_settled(&mut cmd);
        assert!(probe.polls() == before + 1, "woken task is polled again");
        nd_cover!(true, "task woken from outside ran again");
    }
    nd_cover!(done, "done at once");
    nd_cover!(!done && !alive, "not done only because outputs are pending");
    nd_cover!(alive && outputs == 0, "not done only because a task is still wakeable");
    nd_cover!(polled_twice && alive, "self-woken then parked");
    forget((cmd, probe, slot));
}

macro_rules! settle_harness {
    ($name:ident, $($n:literal)*) => {
        #[cfg_attr(kani, kani::proof, kani::unwind(5))]
        #[cfg_attr(kani, kani::stub(core::mem::MaybeUninit::write, crate::common::maybe_uninit_write))]
        pub fn $name() {
            let bits = nd::any_u16();
            dispatch!(bits, settle_case, $($n)*);
        }
    };
}
settle_harness!(c07_settle_q1, 0 8 16 4);
settle_harness!(c07_settle_q2, 33 66 129 2);
settle_harness!(c07_settle_t1, 1 3 5 6);
settle_harness!(c07_settle_t2, 7 9 10 11);
settle_harness!(c07_settle_t3, 12 13 14 15);
settle_harness!(c07_settle_t4, 17 18 19 20);
settle_harness!(c07_settle_t5, 21 22 23 24);
settle_harness!(c07_settle_t6, 25 26 27 28);
settle_harness!(c07_settle_t7, 29 30 31 65);
settle_harness!(c07_settle_t8, 97 161 193 225);
settle_harness!(c07_settle_t9, 34 98 130 162);
settle_harness!(c07_settle_t10, 194 226 37 41);

/// Two tasks: A parks its waker in a slot owned by B (task-to-task dependency).  B, in a later
/// poll, either wakes it, drops it, or leaves it.  A must never be discarded while B can still
/// wake it, must run again when woken, and the command is not done while A is wakeable.
#[cfg_attr(kani, kani::proof, kani::unwind(5))]
#[cfg_attr(kani, kani::stub(core::mem::MaybeUninit::write, crate::common::maybe_uninit_write))]
pub fn c07_kept_alive_by_other_task() {
    // B's behaviour: bit0 = wakes A, bit1 = drops A's waker, bit2 = B finishes
    let b = nd::any_u8();
    dispatch!(b, kept_alive_case, 0 1 2 4 5 6);
}

fn kept_alive_case<const B: u8>() {
    let pa = Arc::new(Probe::default());
    let pb = Arc::new(Probe::default());
    let slot = Slot::new();
    let b_slot = Slot::new(); // where B parks its own waker so the harness can wake B

    // A: poll 0 parks its waker in `slot` and stays pending; poll 1 (if it ever runs) finishes.
    let a0 = Step { keep_slot: true, ..Step::pending() };
    let a1 = Step { ready: true, ..Step::pending() };
    // B: poll 0 parks its own waker in b_slot; poll 1 acts on A's parked waker.
    let b_wakes = B & 1 != 0;
    let b_drops = B & 2 != 0;
    let b_finishes = B & 4 != 0;
    let b1 = Step { wake_slot: b_wakes, drop_slot: b_drops, ready: b_finishes, keep_self: !b_finishes, ..Step::pending() };

    let mut cmd: Cmd = command_with([a0, a1, Step::pending()], &pa, &slot, 1);
    {
        let (pb, slot, b_slot) = (pb.clone(), slot.clone(), b_slot.clone());
        cmd.spawn(move |ctx| {
            // B's poll 0 parks in b_slot (its "own" slot); afterwards it operates on `slot`
            TwoPhase { first: Some(b_slot), inner: Script::new([Step::pending(), b1, Step::pending()], &pb, &slot, ctx, 2) }
        });
    }

    hooks::run_until_settled(&mut cmd);
    assert!(pa.polls() == 1, "A polled once");
    assert!(pb.polls() == 1, "B polled once");
    assert!(hooks::live_tasks(&cmd) == 2, "both tasks wakeable: none discarded");
    assert!(!cmd.is_done(), "not done while tasks are wakeable");

    // outside world wakes B
    b_slot.take().expect("B parked").wake();
    hooks::run_until_settled(&mut cmd);
    assert!(pb.polls() == 2, "B ran again");

    if b_wakes {
        assert!(pa.polls() == 2, "A was woken by B and ran again in the same settle");
        assert!(pa.dropped(), "A finished");
    } else {
        assert!(pa.polls() == 1, "A not polled without a wake");
        if !b_drops {
            // A's waker is still parked with its other owner: A can be woken, so it must be there
            assert!(!pa.dropped(), "A was not discarded behind its back");
            assert!(hooks::has_task(&cmd, 0), "A still in the command");
        }
        // (if B dropped A's waker without waking it, nothing can wake A any more: whether the
        // executor notices and discards A, or keeps it, is not constrained here)
    }
    let live_now = hooks::live_tasks(&cmd);
    let live_b = usize::from(!b_finishes);
    if b_wakes {
        assert!(live_now == live_b, "live tasks after second settle");
    } else if !b_drops {
        assert!(live_now == live_b + 1, "live tasks after second settle");
    } else {
        assert!(live_now == live_b || live_now == live_b + 1, "live tasks after second settle");
    }
    assert!(cmd.is_done() == (live_now == 0), "done <=> nothing left");

    nd_cover!(b_wakes && b_finishes, "B woke A and finished: command done");
    nd_cover!(!b_wakes && !b_drops && b_finishes, "B finished, A still parked");
    nd_cover!(b_drops, "B dropped A's waker without waking");
    forget((cmd, pa, pb, slot, b_slot));
}

/// Hand-written joiner (a plain struct: an `async` block would keep the handle inside a coroutine
/// state enum, which Kani lowers to a union and CBMC cannot see through): awaits the real
/// `JoinHandle`, then sets a flag.  With `extra`, the first poll also parks the waker in a slot so
/// that the harness can re-poll the joiner while the joined task is still running.
pub struct Joiner {
    pub handle: crux_core::command::verif_hooks::JoinHandle,
    pub flag: Arc<Probe>,
    pub extra: Option<Arc<Slot>>,
}

impl std::future::Future for Joiner {
    type Output = ();
    fn poll(self: std::pin::Pin<&mut Self>, cx: &mut std::task::Context<'_>) -> std::task::Poll<()> {
        let this = self.get_mut();
        if let Some(s) = this.extra.take() {
            s.put(cx.waker().clone());
        }
        match std::pin::Pin::new(&mut this.handle).poll(cx) {
            std::task::Poll::Ready(()) => {
                this.flag.polls.store(1, std::sync::atomic::Ordering::SeqCst);
                std::task::Poll::Ready(())
            }
            std::task::Poll::Pending => std::task::Poll::Pending,
        }
    }
}

/// Wrapper: first poll parks the waker in `first` and returns Pending, later polls delegate.
pub struct TwoPhase {
    pub first: Option<Arc<Slot>>,
    pub inner: Script,
}

impl std::future::Future for TwoPhase {
    type Output = ();
    fn poll(self: std::pin::Pin<&mut Self>, cx: &mut std::task::Context<'_>) -> std::task::Poll<()> {
        let this = self.get_mut();
        if let Some(s) = this.first.take() {
            s.put(cx.waker().clone());
            // count the poll in the inner probe and consume its (pending) step 0
            return std::pin::Pin::new(&mut this.inner).poll(cx);
        }
        std::pin::Pin::new(&mut this.inner).poll(cx)
    }
}

/// Join handles: a task awaiting the JoinHandle of another task is woken when that task finishes
/// (or is evicted), in the same settle, and then completes; awaiting a handle of a task that is
/// already gone is Ready at once.
#[cfg_attr(kani, kani::proof, kani::unwind(6))]
#[cfg_attr(kani, kani::stub(core::mem::MaybeUninit::write, crate::common::maybe_uninit_write))]
pub fn c07_join_handle_wakes() {
    // bit0: child ends Ready (else goes dead and is evicted); bit1: the joiner is polled a second
    // time (woken by another source) while the child is still running
    // bit2: the child is aborted through its handle before it was ever adopted, then joined
    let c = nd::any_u8();
    dispatch!(c, join_case, 0 1 2 3 4);
}

fn join_case<const C: u8>() {
    let pc = Arc::new(Probe::default());
    let slot = Slot::new();
    // child: pending with its waker parked, then finishes (Ready) or goes dead (Pending, no waker => evicted)
    let child_ends_ready = C & 1 != 0;
    let c0 = Step { keep_slot: true, ..Step::pending() };
    let c1 = Step { ready: child_ends_ready, ..Step::pending() };

    let done_flag = Arc::new(Probe::default());
    let j_slot = Slot::new();
    let mut cmd: Cmd = {
        let (pc, slot, done_flag, j_slot) = (pc.clone(), slot.clone(), done_flag.clone(), j_slot.clone());
        crux_core::Command::new(move |ctx| {
            let handle = ctx.spawn(move |ctx| Script::new([c0, c1, Step::pending()], &pc, &slot, ctx, 3));
            if C & 4 != 0 {
                handle.abort();
            }
            Joiner { handle, flag: done_flag, extra: if C & 2 != 0 { Some(j_slot) } else { None } }
        })
    };

    hooks::run_until_settled(&mut cmd);
    if C & 4 != 0 {
        // spawn, abort, join in one poll: the joiner must be released although the child never ran
        assert!(pc.polls() == 0, "a task aborted before adoption is never polled");
        assert!(done_flag.polls() == 1, "joiner of a task aborted before adoption is resumed");
        assert!(hooks::live_tasks(&cmd) == 0, "nothing lingers");
        assert!(cmd.is_done(), "command done");
        nd_cover!(true, "joined a task that was aborted before adoption");
        forget((cmd, pc, slot, done_flag, j_slot));
        return;
    }
    assert!(pc.polls() == 1, "child polled once");
    assert!(hooks::live_tasks(&cmd) == 2, "parent waits on the join handle, child is parked");
    assert!(done_flag.polls() == 0, "joiner not resumed early");
    assert!(!cmd.is_done(), "not done while the child is parked");

    if C & 2 != 0 {
        // another wake source fires for the joiner: it is polled again while the child still runs
        j_slot.take().expect("joiner parked").wake();
        hooks::run_until_settled(&mut cmd);
        assert!(hooks::live_tasks(&cmd) == 2, "joiner re-polled while its task is alive must not be discarded");
        assert!(done_flag.polls() == 0, "joiner not resumed early");
        nd_cover!(true, "joiner re-polled before the child finished");
    }

    slot.take().expect("child parked").wake();
    hooks::run_until_settled(&mut cmd);
    assert!(pc.polls() == 2, "child polled again");
    // child either completed (Ready) or was evicted (Pending, no waker): both end the task and
    // must release the joiner
    assert!(pc.dropped(), "child discarded after finishing or going dead");
    assert!(done_flag.polls() == 1, "joiner resumed in the same settle");
    assert!(hooks::live_tasks(&cmd) == 0, "no task left");
    assert!(cmd.is_done(), "command done");

    nd_cover!(child_ends_ready, "child finished normally");
    nd_cover!(!child_ends_ready, "child evicted as unwakeable");
    forget((cmd, pc, slot, done_flag, j_slot));
}

/// Two parked tasks are both woken before the next settle (two wake-ups queued in the same round).
/// Each then finishes, parks again, or goes dead (Pending without registering): a dead task must be
/// discarded although another task's wake-up is still queued behind it, and a parked one kept.
/// W = a + 3*b with a, b in {0 finishes, 1 goes dead, 2 parks again}.
fn two_woken_case<const W: u8>() {
    let (pa, pb) = (Arc::new(Probe::default()), Arc::new(Probe::default()));
    let (sa, sb) = (Slot::new(), Slot::new());
    let park = Step { keep_slot: true, ..Step::pending() };
    let second = |k: u8| match k {
        0 => Step { ready: true, ..Step::pending() },
        1 => Step::pending(),
        _ => Step { keep_slot: true, ..Step::pending() },
    };
    let (ka, kb) = (W % 3, W / 3);
    let mut cmd: Cmd = command_with([park, second(ka), Step::pending()], &pa, &sa, 1);
    {
        let (pb, sb) = (pb.clone(), sb.clone());
        let sb1 = second(kb);
        cmd.spawn(move |ctx| Script::new([park, sb1, Step::pending()], &pb, &sb, ctx, 2));
    }
    hooks::run_until_settled(&mut cmd);
    assert!(hooks::live_tasks(&cmd) == 2, "both parked");
    sa.take().expect("A parked").wake();
    sb.take().expect("B parked").wake();
    assert!(hooks::ready_len(&cmd) == 2, "two wake-ups queued");
    hooks::run_until_settled(&mut cmd);
    assert!(pa.polls() == 2 && pb.polls() == 2, "both ran once more");
    assert!(pa.dropped() == (ka != 2), "A discarded iff it finished or can never be woken again");
    assert!(pb.dropped() == (kb != 2), "B discarded iff it finished or can never be woken again");
    let live = usize::from(ka == 2) + usize::from(kb == 2);
    assert!(hooks::live_tasks(&cmd) == live, "live tasks");
    assert!(cmd.is_done() == (live == 0), "done <=> nothing wakeable left");
    nd_cover!(ka == 1 && kb == 1, "both went dead in the same round");
    nd_cover!(ka == 1 && kb == 0, "first dead, second finished");
    nd_cover!(ka == 2 && kb == 1, "first parked again, second dead");
    forget((cmd, pa, pb, sa, sb));
}

#[cfg_attr(kani, kani::proof, kani::unwind(5))]
#[cfg_attr(kani, kani::stub(core::mem::MaybeUninit::write, crate::common::maybe_uninit_write))]
pub fn c07_two_woken_tasks() {
    let w = nd::any_u8();
    dispatch!(w, two_woken_case, 4 1 7 3 5);
}


/// A task that, within ONE poll, spawns a child, optionally aborts it through its handle, and then
/// awaits that same handle (`let h = ctx.spawn(..); if cond { h.abort(); } h.await;`).  The joiner's
/// waker is registered while the child still sits in the spawn queue.
pub struct LateJoiner {
    pub ctx: crate::script::Ctx,
    pub child_probe: Arc<Probe>,
    pub child_slot: Arc<Slot>,
    pub abort_child: bool,
    pub handle: *mut crux_core::command::verif_hooks::JoinHandle,
    pub flag: Arc<Probe>,
}
unsafe impl Send for LateJoiner {}

impl std::future::Future for LateJoiner {
    type Output = ();
    fn poll(self: std::pin::Pin<&mut Self>, cx: &mut std::task::Context<'_>) -> std::task::Poll<()> {
        let this = self.get_mut();
        if this.handle.is_null() {
            let (p, s) = (this.child_probe.clone(), this.child_slot.clone());
            // the child finishes on its first poll (if it is ever polled)
            let done = Step { ready: true, ..Step::pending() };
            let h = this.ctx.spawn(move |ctx| Script::new([done, Step::pending(), Step::pending()], &p, &s, ctx, 5));
            if this.abort_child {
                h.abort();
            }
            this.handle = Box::into_raw(Box::new(h));
        }
        let handle = unsafe { &mut *this.handle };
        match std::pin::Pin::new(handle).poll(cx) {
            std::task::Poll::Ready(()) => {
                this.flag.polls.store(1, std::sync::atomic::Ordering::SeqCst);
                std::task::Poll::Ready(())
            }
            std::task::Poll::Pending => std::task::Poll::Pending,
        }
    }
}

/// J: 0 = spawn + join in one poll, 1 = spawn + abort + join in one poll
fn late_join_case<const J: u8>() {
    let pc = Arc::new(Probe::default());
    let slot = Slot::new();
    let flag = Arc::new(Probe::default());
    let mut cmd: Cmd = {
        let (pc, slot, flag) = (pc.clone(), slot.clone(), flag.clone());
        crux_core::Command::new(move |ctx| LateJoiner {
            ctx,
            child_probe: pc,
            child_slot: slot,
            abort_child: J == 1,
            handle: std::ptr::null_mut(),
            flag,
        })
    };
    hooks::run_until_settled(&mut cmd);
    assert!(pc.polls() == u8::from(J == 0), "the child runs iff it was not aborted");
    assert!(flag.polls() == 1, "a joiner registered while the task was still in the spawn queue is resumed");
    assert!(hooks::live_tasks(&cmd) == 0, "nothing lingers");
    assert!(cmd.is_done(), "command done");
    nd_cover!(J == 0, "spawn and join in one poll");
    nd_cover!(J == 1, "spawn, abort and join in one poll");
    forget((cmd, pc, slot, flag));
}

#[cfg_attr(kani, kani::proof, kani::unwind(6))]
#[cfg_attr(kani, kani::stub(core::mem::MaybeUninit::write, crate::common::maybe_uninit_write))]
pub fn c07_spawn_abort_join() {
    let j = nd::any_u8();
    dispatch!(j, late_join_case, 0 1);
}

pub const _USES: usize = MAX_STEPS;

/// A task with two wake sources (a `select` over two requests in miniature): poll 0 registers the
/// poll's waker with A and with B.  After A fires, the task no longer waits on B (it dropped that
/// future) but B's owner — the shell, still holding the lost request — keeps the *stale* registration.
pub struct TwoSources {
    pub probe: Arc<Probe>,
    pub a: Arc<Slot>,
    pub b: Arc<Slot>,
    pub ctx: crate::script::Ctx,
    /// what poll 1 does: 0 nothing (nothing left to wait on), 1 waits on A again, 2 finishes with an effect
    pub then: u8,
    pub tag: u8,
}

impl Drop for TwoSources {
    fn drop(&mut self) {
        self.probe.dropped.store(true, std::sync::atomic::Ordering::SeqCst);
    }
}

impl std::future::Future for TwoSources {
    type Output = ();
    fn poll(self: std::pin::Pin<&mut Self>, cx: &mut std::task::Context<'_>) -> std::task::Poll<()> {
        use std::sync::atomic::Ordering;
        let this = self.get_mut();
        let n = this.probe.polls.load(Ordering::SeqCst);
        this.probe.polls.store(n + 1, Ordering::SeqCst);
        match (n, this.then) {
            (0, _) => {
                this.a.put(cx.waker().clone());
                this.b.put(cx.waker().clone());
                std::task::Poll::Pending
            }
            (1, 1) => {
                this.a.put(cx.waker().clone());
                std::task::Poll::Pending
            }
            (1, 0) => std::task::Poll::Pending,
            _ => {
                hooks::send_effect(&this.ctx, this.tag);
                std::task::Poll::Ready(())
            }
        }
    }
}

/// THEN: what the task does once A has fired (see `TwoSources::then`); 3 = as 0, and the owner of the
/// stale registration lets go of it without firing it (case-split: it steers a reference count).
#[allow(non_snake_case)]
fn stale_registration_case<const THEN0: u8>() {
    let THEN: u8 = if THEN0 == 3 { 0 } else { THEN0 };
    let p = Arc::new(Probe::default());
    let (a, b) = (Slot::new(), Slot::new());
    let tag = nd::any_u8();
    let mut cmd: Cmd = {
        let (p, a, b) = (p.clone(), a.clone(), b.clone());
        crux_core::Command::new(move |ctx| TwoSources { probe: p, a, b, ctx, then: if THEN0 == 3 { 0 } else { THEN0 }, tag })
    };
    hooks::run_until_settled(&mut cmd);
    assert!(p.polls() == 1 && hooks::live_tasks(&cmd) == 1 && !cmd.is_done(), "waiting on two sources");
    a.take().expect("registered with A").wake(); // A fires; B's registration is now stale
    hooks::run_until_settled(&mut cmd);
    assert!(p.polls() == 2, "ran again");
    match THEN {
        0 => {
            assert!(p.dropped() && hooks::live_tasks(&cmd) == 0, "a task that waits on nothing any more is discarded, whatever stale registrations of earlier polls survive elsewhere");
            assert!(cmd.is_done(), "and the command is done");
            // the owner of the stale registration fires it, or lets go of it, later: harmless
            if THEN0 == 0 {
                b.take().expect("stale registration").wake();
            } else {
                drop(b.take());
            }
            assert!(cmd.is_done() && p.polls() == 2 && hooks::ready_len(&cmd) == 0, "a stale wake-up changes nothing");
        }
        1 => {
            assert!(!p.dropped() && hooks::live_tasks(&cmd) == 1 && !cmd.is_done(), "still waiting on A: kept");
            a.take().expect("registered with A again").wake();
            hooks::run_until_settled(&mut cmd);
            assert!(p.polls() == 3 && p.dropped(), "finished after A fired again");
            assert!(cmd.effects().next() == Some(tag), "its output is there");
            assert!(cmd.is_done(), "done");
        }
        _ => {
            assert!(p.dropped() && hooks::live_tasks(&cmd) == 0, "finished");
            assert!(cmd.effects().next() == Some(tag), "its output is there");
            assert!(cmd.is_done(), "done although B still holds a stale registration");
        }
    }
    nd_cover!(THEN0 == 0, "nothing left to wait on, stale registration elsewhere fires later");
    nd_cover!(THEN0 == 3, "nothing left to wait on, stale registration elsewhere released later");
    nd_cover!(THEN == 1, "waits on the live source again, other registration stale");
    nd_cover!(THEN == 2, "finishes, stale registration elsewhere");
    forget((cmd, p, a, b));
}

#[cfg_attr(kani, kani::proof, kani::unwind(6))]
#[cfg_attr(kani, kani::stub(core::mem::MaybeUninit::write, crate::common::maybe_uninit_write))]
pub fn c07_stale_registration() {
    let t = nd::any_u8();
    dispatch!(t, stale_registration_case, 0 1 2 3);
}
