//! C08, native only: the counterexample schedule of `c08_evict_race_*` replayed with two *real*
//! threads against a *real* `Core`, real `request_from_shell` futures and the real channels.
//!
//! An app awaits two requests concurrently (`join`).  The shell answers them from two threads, as a
//! shell that performs two HTTP calls on a thread pool does.  The controller only *orders* the two
//! threads at the schedule points: thread 1 (answering request A, its task then waits for B only)
//! pauses between the two reads of the eviction decision until thread 2 has finished delivering B's
//! answer.  Any sequential order of the two calls ends with the app having received both values.

use std::cell::Cell;
use std::sync::atomic::{AtomicBool, Ordering};
use std::sync::Arc;
use std::time::{Duration, Instant};

use crux_core::verif_sched::{self as sched, Point};
use crux_core::{Command, Core};

use crate::c09_registry::Eff;
use crate::common::{Op, OpB};

#[derive(Default)]
pub struct App;

pub enum Event {
    Start,
    Got(u8, u8),
}

impl crux_core::App for App {
    type Event = Event;
    type Model = Option<(u8, u8)>;
    type ViewModel = Option<(u8, u8)>;
    type Capabilities = ();
    type Effect = Eff;

    fn update(&self, event: Event, model: &mut Self::Model, _caps: &()) -> Command<Eff, Event> {
        match event {
            Event::Start => Command::new(|ctx| async move {
                let (a, b) = futures::join!(ctx.request_from_shell(Op(1)), ctx.request_from_shell(OpB(2)));
                ctx.send_event(Event::Got(a, b));
            }),
            Event::Got(a, b) => {
                *model = Some((a, b));
                Command::done()
            }
        }
    }

    fn view(&self, model: &Self::Model) -> Self::ViewModel {
        *model
    }
}

thread_local! {
    static ROLE: Cell<u8> = const { Cell::new(0) };
}
static ARMED: AtomicBool = AtomicBool::new(false);
static T1_AT_MID: AtomicBool = AtomicBool::new(false);
static T2_DELIVERED: AtomicBool = AtomicBool::new(false);

fn wait_for(flag: &AtomicBool) -> bool {
    let t0 = Instant::now();
    while !flag.load(Ordering::SeqCst) {
        if t0.elapsed() > Duration::from_secs(10) {
            return false;
        }
        std::thread::yield_now();
    }
    true
}

fn controller(p: Point) {
    let role = ROLE.with(|r| r.get());
    if role == 1 && p == Point::CommandEvictionMid && ARMED.swap(false, Ordering::SeqCst) {
        T1_AT_MID.store(true, Ordering::SeqCst);
        wait_for(&T2_DELIVERED);
    }
    // thread 2 has left `Request::resolve` (value sent, waker woken and released) once its own
    // run of the executor has looked at a task
    if role == 2 && p == Point::ExecutorTaskDone {
        T2_DELIVERED.store(true, Ordering::SeqCst);
    }
}

#[test]
fn two_shell_threads_answering_joined_requests_lose_nothing() {
    let core: Arc<Core<App>> = Arc::new(Core::new());
    let mut effects = core.process_event(Event::Start);
    assert_eq!(effects.len(), 2, "both requests handed over");
    let Eff::B(mut req_b) = effects.pop().unwrap() else { panic!("second effect is B") };
    let Eff::A(mut req_a) = effects.pop().unwrap() else { panic!("first effect is A") };

    T1_AT_MID.store(false, Ordering::SeqCst);
    T2_DELIVERED.store(false, Ordering::SeqCst);
    ARMED.store(true, Ordering::SeqCst);
    sched::install(Some(controller));

    let t1 = {
        let core = core.clone();
        std::thread::spawn(move || {
            ROLE.with(|r| r.set(1));
            core.resolve(&mut req_a, 10).expect("A accepted");
        })
    };
    let t2 = {
        let core = core.clone();
        std::thread::spawn(move || {
            ROLE.with(|r| r.set(2));
            assert!(wait_for(&T1_AT_MID), "thread 1 reached the eviction decision");
            core.resolve(&mut req_b, 20).expect("B accepted");
        })
    };
    t1.join().unwrap();
    t2.join().unwrap();
    sched::install(None);
    // all calls have returned; one more (empty) run of the core, as any later call would do
    assert_eq!(core.view(), Some((10, 20)), "both answers reached the app: no wake-up lost, task not torn down");
}
