//! C08 — concurrent shells lose nothing: two-thread interleavings decided by *sequentialisation*.
//!
//! Kani has no threads.  The real runtime carries named schedule points (`crux_core::verif_sched`,
//! feature `crux_verif`: no-ops unless a controller is installed) at the places where no lock is held
//! and another thread can run: inside `Command::run_task` (after the poll, after the executor let go
//! of its waker handle, *between the two reads of the eviction decision*), in `run_until_settled`,
//! in `<Command as Stream>::poll_next`, inside `CommandWaker::wake_by_ref` (between queueing the id,
//! setting `woken` and waking the parent) and in `QueuingExecutor::{run_task, run_all}`.
//!
//! Thread A is the real code running from the harness's main flow.  Thread B is a short program of
//! real operations (`Waker::wake`, `wake_by_ref`, `drop`, `Spawner::spawn`, a whole
//! `run_until_settled`) that the installed controller runs *at a chosen schedule point of A*.  The
//! point and the operation are the schedule; they are case-split into const-generic instances (the
//! reference counts that steer the code stay constants inside each), the case selector and the
//! payload are symbolic, and one SAT problem decides every listed placement.
//!
//! Bound (stated in DESIGN.md): two threads, B's operations are atomic units placed at A's schedule
//! points (interleavings that split both threads at once are outside), sequentially consistent
//! atomics (CBMC's memory model for Kani), at most one B operation per run.

use std::future::Future;
use std::pin::Pin;
use std::sync::atomic::{AtomicU8, Ordering};
use std::sync::Arc;
use std::task::{Context, Poll, Wake, Waker};

use crux_core::capability::verif_executor::new_executor;
use crux_core::command::verif_hooks as hooks;
use crux_core::verif_sched::{self as sched, Point};

use crate::script::{command_with, Cmd, Probe, Slot, Step};
use crate::{dispatch, nd, nd_cover};

/// What the second thread does, once, when thread A reaches the armed schedule point.
struct Ctl {
    armed: bool,
    at: Point,
    /// skip this many visits of the point before acting
    skip: u8,
    action: u8,
    slot: *const Slot,
    cmd: *mut Cmd,
    spawner: *const crux_core::capability::verif_executor::Spawner,
    late: *const LateTask,
    fired: bool,
}

pub struct LateTask {
    probe: Arc<Probe>,
    slot: Arc<Slot>,
}

static mut CTL: Ctl = Ctl {
    armed: false,
    at: Point::CommandTaskPolled,
    skip: 0,
    action: 0,
    slot: std::ptr::null(),
    cmd: std::ptr::null_mut(),
    spawner: std::ptr::null(),
    late: std::ptr::null(),
    fired: false,
};

const ACT_WAKE: u8 = 0; // take the parked waker and wake it by value (what a channel does on send / close)
const ACT_WAKE_REF_DROP: u8 = 1; // take it, wake by reference, then drop it
const ACT_DROP: u8 = 2; // take it and drop it without waking
const ACT_WAKE_CLONE: u8 = 3; // wake through a clone, the parked one stays
const ACT_SETTLE: u8 = 4; // the executor thread runs a whole settle (B of the waker harness)
const ACT_SPAWN: u8 = 5; // a new task is spawned on the legacy executor

#[allow(static_mut_refs)]
fn act_now() {
    unsafe {
        CTL.fired = true;
        match CTL.action {
            ACT_WAKE => {
                if let Some(w) = (*CTL.slot).take() {
                    w.wake();
                }
            }
            ACT_WAKE_REF_DROP => {
                if let Some(w) = (*CTL.slot).take() {
                    w.wake_by_ref();
                    drop(w);
                }
            }
            ACT_DROP => {
                drop((*CTL.slot).take());
            }
            ACT_WAKE_CLONE => {
                if let Some(w) = (*CTL.slot).take() {
                    let c = w.clone();
                    (*CTL.slot).put(w);
                    c.wake();
                }
            }
            ACT_SETTLE => {
                hooks::run_until_settled(&mut *CTL.cmd);
            }
            ACT_SPAWN => {
                let late = &*CTL.late;
                (*CTL.spawner).spawn(Parker { bits: 2, probe: late.probe.clone(), slot: late.slot.clone() });
            }
            _ => {}
        }
    }
}

#[allow(static_mut_refs)]
fn controller(p: Point) {
    unsafe {
        if CTL.armed && !CTL.fired && p == CTL.at {
            if CTL.skip > 0 {
                CTL.skip -= 1;
                return;
            }
            act_now();
        }
    }
}

#[allow(static_mut_refs)]
fn arm(at: Point, skip: u8, action: u8, slot: &Arc<Slot>) {
    unsafe {
        CTL.armed = true;
        CTL.at = at;
        CTL.skip = skip;
        CTL.action = action;
        CTL.slot = Arc::as_ptr(slot);
        CTL.fired = false;
    }
    sched::install(Some(controller));
}

#[allow(static_mut_refs)]
fn disarm() -> bool {
    sched::install(None);
    unsafe {
        CTL.armed = false;
        let fired = CTL.fired;
        CTL.fired = false;
        fired
    }
}

fn command_point(at: u8) -> Point {
    match at {
        0 => Point::CommandTaskPolled,
        1 => Point::CommandWakerReleased,
        2 => Point::CommandEvictionMid,
        _ => Point::CommandTaskDone,
    }
}

/// Thread A settles a command whose one task parks its waker (a request/stream future registering
/// with its channel) and returns `Pending`; thread B — the shell resolving or dropping that request
/// on another thread — acts on the parked waker at schedule point AT of A's `run_task`
/// (0 after the poll, 1 after the executor released its waker handle, 2 between the two reads of
/// the eviction decision, 3 after the task was handled, 4 = only after A's call returned: the
/// sequential control).  Both calls end with a settle, as `Core::process_event` / `Core::resolve` do.
///
/// Equivalent-to-sequential outcome: a woken task runs again and delivers its output exactly once,
/// whatever the placement; nothing panics.
fn evict_race_case<const AT: u8, const ACT: u8>() {
    disarm();
    let p = Arc::new(Probe::default());
    let slot = Slot::new();
    let tag = nd::any_u8();
    let park = Step { keep_slot: true, ..Step::pending() };
    let finish = Step { effect: true, ready: true, ..Step::pending() };
    let mut cmd: Cmd = command_with([park, finish, Step::pending()], &p, &slot, tag);

    if AT < 4 {
        arm(command_point(AT), 0, ACT, &slot);
    }
    hooks::run_until_settled(&mut cmd); // thread A's call
    let during = disarm();
    assert!(during == (AT < 4), "the schedule point was reached exactly when armed");
    if !during {
        // B's operation after A's call returned
        arm(Point::CommandTaskPolled, 0, ACT, &slot);
        act_now();
        disarm();
    }
    hooks::run_until_settled(&mut cmd); // thread B's call ends with a settle as well

    if ACT == ACT_DROP {
        assert!(p.polls() == 1, "a task nobody woke is not polled again");
        assert!(hooks::effects_len(&cmd) == 0, "and produces nothing");
    } else {
        assert!(p.polls() == 2, "a task woken from another thread around the eviction check runs again (no lost wake-up)");
        assert!(p.dropped(), "and finishes");
        assert!(hooks::live_tasks(&cmd) == 0, "nothing lingers");
        let mut n = 0u8;
        for e in cmd.effects() {
            assert!(e == tag, "payload unchanged");
            n += 1;
        }
        assert!(n == 1, "its effect is delivered exactly once");
        assert!(cmd.is_done(), "done once the woken task finished and its output was taken");
    }
    assert!(hooks::ready_len(&cmd) == 0 && hooks::spawn_len(&cmd) == 0, "quiescent when both calls have returned");
    nd_cover!(AT == 2 && ACT == ACT_WAKE, "woken by value between the two reads of the eviction decision");
    nd_cover!(AT == 2 && ACT == ACT_WAKE_REF_DROP, "woken by reference and released between the two reads");
    nd_cover!(AT == 1, "second thread acts after the executor released its waker handle");
    nd_cover!(AT == 0, "second thread acts right after the poll");
    nd_cover!(AT == 3, "second thread acts after the task was handled");
    nd_cover!(AT == 4, "sequential control");
    nd_cover!(ACT == ACT_DROP, "request dropped without a wake-up");
    nd_cover!(ACT == ACT_WAKE_CLONE, "woken through a clone");
    std::mem::forget((cmd, p, slot));
}

macro_rules! evict_harness {
    ($name:ident, $( ($sel:literal, $at:literal, $act:literal) )*) => {
        #[cfg_attr(kani, kani::proof, kani::unwind(6))]
        #[cfg_attr(kani, kani::stub(core::mem::MaybeUninit::write, crate::common::maybe_uninit_write))]
        pub fn $name() {
            let v = nd::any_u8();
            match v {
                $($sel => evict_race_case::<$at, $act>(),)*
                _ => nd::assume(false),
            }
        }
    };
}

// quick: the eviction window itself and one placement at every other point
evict_harness!(c08_evict_race_q1, (0, 2, 0) (1, 2, 1) (2, 1, 0) (3, 4, 0));
evict_harness!(c08_evict_race_q2, (0, 0, 0) (1, 3, 0) (2, 2, 3) (3, 2, 2));
// thorough: the remaining placements
evict_harness!(c08_evict_race_t1, (0, 0, 1) (1, 0, 2) (2, 0, 3) (3, 1, 1) (4, 1, 2) (5, 1, 3));
evict_harness!(c08_evict_race_t2, (0, 3, 1) (1, 3, 2) (2, 3, 3) (3, 4, 1) (4, 4, 2) (5, 4, 3));

/// The dual nesting: thread A' *is* the wake-up (`Waker::wake` on the parked waker, from the shell's
/// thread), and at the schedule points inside `CommandWaker::wake_by_ref` (0: id queued, `woken` not
/// yet set; 1: `woken` set, parent not yet woken; 2: never) the executor thread runs a whole settle.
/// SECOND = what the task does when it runs again: 0 finish with an effect, 1 emit and park again.
fn waker_steps_case<const AT: u8, const SECOND: u8>() {
    disarm();
    let p = Arc::new(Probe::default());
    let slot = Slot::new();
    let tag = nd::any_u8();
    let park = Step { keep_slot: true, ..Step::pending() };
    let finish = Step { effect: true, ready: true, ..Step::pending() };
    let again = Step { effect: true, keep_slot: true, ..Step::pending() };
    let second = if SECOND == 0 { finish } else { again };
    let mut cmd: Cmd = command_with([park, second, finish], &p, &slot, tag);
    hooks::run_until_settled(&mut cmd);
    assert!(p.polls() == 1 && hooks::live_tasks(&cmd) == 1, "parked");
    let w = slot.take().expect("parked waker");

    if AT < 2 {
        arm(if AT == 0 { Point::WakerIdQueued } else { Point::WakerFlagSet }, 0, ACT_SETTLE, &slot);
        #[allow(static_mut_refs)]
        unsafe {
            CTL.cmd = &mut cmd as *mut Cmd;
        }
    }
    w.wake(); // thread A'
    let during = disarm();
    assert!(during == (AT < 2), "the schedule point inside wake_by_ref was reached exactly when armed");
    hooks::run_until_settled(&mut cmd);

    assert!(p.polls() == 2, "woken exactly once: polled exactly once more, whichever thread got there first");
    assert!(hooks::effects_len(&cmd) == 1, "one output");
    if SECOND == 0 {
        assert!(p.dropped() && hooks::live_tasks(&cmd) == 0, "finished and released");
    } else {
        assert!(!p.dropped() && hooks::live_tasks(&cmd) == 1, "parked again, not torn down");
        slot.take().expect("parked again").wake();
        hooks::run_until_settled(&mut cmd);
        assert!(p.polls() == 3 && p.dropped(), "and still wakeable");
        assert!(hooks::effects_len(&cmd) == 2, "second output");
    }
    assert!(hooks::ready_len(&cmd) == 0, "quiescent");
    nd_cover!(AT == 0, "executor settles between queueing the id and setting the flag");
    nd_cover!(AT == 1, "executor settles between setting the flag and waking the parent");
    nd_cover!(SECOND == 1, "task parks again");
    std::mem::forget((cmd, p, slot));
}

#[cfg_attr(kani, kani::proof, kani::unwind(6))]
#[cfg_attr(kani, kani::stub(core::mem::MaybeUninit::write, crate::common::maybe_uninit_write))]
pub fn c08_waker_steps() {
    let v = nd::any_u8();
    match v {
        0 => waker_steps_case::<0, 0>(),
        1 => waker_steps_case::<1, 0>(),
        2 => waker_steps_case::<0, 1>(),
        3 => waker_steps_case::<1, 1>(),
        4 => waker_steps_case::<2, 0>(),
        _ => nd::assume(false),
    }
}

/// The waker a host (a parent command's task, or the core's executor task) hands to `poll_next`.
pub struct HostWaker {
    pub wakes: AtomicU8,
}

impl Wake for HostWaker {
    fn wake(self: Arc<Self>) {
        self.wake_by_ref();
    }
    fn wake_by_ref(self: &Arc<Self>) {
        let n = self.wakes.load(Ordering::SeqCst);
        self.wakes.store(n.saturating_add(1), Ordering::SeqCst);
    }
}

/// A command hosted as a `Stream` (how `Core` and parent commands drive it).  The host thread is
/// inside `poll_next` while the shell's thread wakes the parked task, at: 0 right after the host's
/// waker was registered (tasks not yet run), 1 after the task was polled, 2 between the reads of the
/// eviction decision, 3 after the settle but before the outputs are inspected (the host is about to
/// be told `Pending`), 4 after `poll_next` returned.
/// No wake-up is lost between the layers: either the same `poll_next` already returns the woken
/// task's output, or the host's waker has been notified by the time it is told `Pending`.
fn stream_host_case<const AT: u8>() {
    use futures::Stream;
    disarm();
    let p = Arc::new(Probe::default());
    let slot = Slot::new();
    let tag = nd::any_u8();
    let park = Step { keep_slot: true, ..Step::pending() };
    let finish = Step { effect: true, ready: true, ..Step::pending() };
    let mut cmd: Cmd = command_with([park, finish, Step::pending()], &p, &slot, tag);
    let host = Arc::new(HostWaker { wakes: AtomicU8::new(0) });
    let host_waker: Waker = host.clone().into();
    let mut cx = Context::from_waker(&host_waker);

    let at = match AT {
        0 => Point::CommandStreamRegistered,
        1 => Point::CommandTaskPolled,
        2 => Point::CommandEvictionMid,
        _ => Point::CommandStreamSettled,
    };
    if AT == 0 {
        // the task has to be parked before the host's next poll_next registers: one un-raced poll first
        assert!(matches!(Pin::new(&mut cmd).poll_next(&mut cx), Poll::Pending), "parked");
    }
    if AT < 4 {
        arm(at, 0, ACT_WAKE, &slot);
    }
    let first = Pin::new(&mut cmd).poll_next(&mut cx);
    let during = disarm();
    assert!(during == (AT < 4), "schedule point reached exactly when armed");
    if !during {
        assert!(matches!(first, Poll::Pending), "parked task: pending");
        slot.take().expect("parked").wake();
    }
    let mut outputs = 0u8;
    match first {
        Poll::Ready(Some(crux_core::command::CommandOutput::Effect(e))) => {
            assert!(e == tag, "payload unchanged");
            outputs += 1;
        }
        Poll::Ready(Some(_)) => panic!("unexpected output"),
        Poll::Ready(None) => panic!("a command with a woken task must not end"),
        Poll::Pending => {
            assert!(host.wakes.load(Ordering::SeqCst) >= 1, "a wake-up that arrives while the host is told Pending reaches the host's waker");
            match Pin::new(&mut cmd).poll_next(&mut cx) {
                Poll::Ready(Some(crux_core::command::CommandOutput::Effect(e))) => {
                    assert!(e == tag, "payload unchanged");
                    outputs += 1;
                }
                _ => panic!("the woken task's output is available on the host's next poll"),
            }
        }
    }
    assert!(matches!(Pin::new(&mut cmd).poll_next(&mut cx), Poll::Ready(None)), "then the stream ends");
    assert!(outputs == 1 && p.polls() == 2 && p.dropped(), "exactly one output, task ran twice and was released");
    nd_cover!(AT == 3 && matches!(first, Poll::Pending), "woken after the settle, before Pending is returned");
    nd_cover!(AT == 0, "woken right after the host registered");
    nd_cover!(AT == 2, "woken inside the eviction window of a hosted command");
    nd_cover!(AT == 4, "woken after poll_next returned");
    std::mem::forget((cmd, p, slot, host, host_waker));
}

#[cfg_attr(kani, kani::proof, kani::unwind(6))]
#[cfg_attr(kani, kani::stub(core::mem::MaybeUninit::write, crate::common::maybe_uninit_write))]
pub fn c08_stream_host_wake() {
    let v = nd::any_u8();
    dispatch!(v, stream_host_case, 0 1 2 3 4);
}

/// A host that reacts to its notification AT ONCE: the thread that owns the hosted command (the core's
/// executor thread, or whichever thread is inside `Core::process`) is taken to run the moment the
/// host's waker fires — i.e. *inside* the notifying call of the shell's thread, before that call has
/// finished whatever it still has to do.  This is the interleaving "the notified thread is faster than
/// the notifier"; it needs no schedule point in crux, the host's waker is the harness's own code.
pub struct ReactiveHost {
    pub wakes: AtomicU8,
    pub react: AtomicU8,
    pub outputs: AtomicU8,
    pub ended: AtomicU8,
    pub tag: u8,
    pub cmd: std::cell::UnsafeCell<*mut Cmd>,
}
unsafe impl Send for ReactiveHost {}
unsafe impl Sync for ReactiveHost {}

impl ReactiveHost {
    /// what the hosting thread does when it runs: poll the stream until it is pending or ends
    fn drive(self: &Arc<Self>) {
        use futures::Stream;
        let cmd = unsafe { &mut **self.cmd.get() };
        let w: Waker = self.clone().into();
        let mut cx = Context::from_waker(&w);
        let mut i = 0u8;
        while i < 3 {
            match Pin::new(&mut *cmd).poll_next(&mut cx) {
                Poll::Ready(Some(crux_core::command::CommandOutput::Effect(e))) => {
                    assert!(e == self.tag, "payload unchanged");
                    let n = self.outputs.load(Ordering::SeqCst);
                    self.outputs.store(n + 1, Ordering::SeqCst);
                }
                Poll::Ready(Some(_)) => panic!("unexpected output"),
                Poll::Ready(None) => {
                    self.ended.store(1, Ordering::SeqCst);
                    break;
                }
                Poll::Pending => break,
            }
            i += 1;
        }
        std::mem::forget(w);
    }
}

impl Wake for ReactiveHost {
    fn wake(self: Arc<Self>) {
        self.wake_by_ref();
        std::mem::forget(self);
    }
    fn wake_by_ref(self: &Arc<Self>) {
        let n = self.wakes.load(Ordering::SeqCst);
        self.wakes.store(n.saturating_add(1), Ordering::SeqCst);
        if self.react.load(Ordering::SeqCst) == 1 {
            // the notified thread runs right now, and this notification is thereby consumed
            self.wakes.store(0, Ordering::SeqCst);
            self.drive();
        }
    }
}

/// The shell's thread wakes a parked task of a hosted command (HOW: 0 by value, 1 by reference then
/// release); the host thread reacts to its notification at once (see `ReactiveHost`).  When the
/// shell's call has returned, the host acts on any notification it has not yet acted on, and then
/// everything the wake-up made possible must have happened: the task ran again and its output was
/// handed to the host exactly once — a wake-up whose notification fires before the work is visible
/// to the notified thread is lost for good.  SECOND: 0 the task finishes, 1 it emits and parks again.
fn host_reacts_case<const HOW: u8, const SECOND: u8>() {
    disarm();
    let p = Arc::new(Probe::default());
    let slot = Slot::new();
    let tag = nd::any_u8();
    let park = Step { keep_slot: true, ..Step::pending() };
    let finish = Step { effect: true, ready: true, ..Step::pending() };
    let again = Step { effect: true, keep_slot: true, ..Step::pending() };
    let mut cmd: Cmd = command_with([park, if SECOND == 0 { finish } else { again }, finish], &p, &slot, tag);
    let host = Arc::new(ReactiveHost {
        wakes: AtomicU8::new(0),
        react: AtomicU8::new(0),
        outputs: AtomicU8::new(0),
        ended: AtomicU8::new(0),
        tag,
        cmd: std::cell::UnsafeCell::new(&mut cmd as *mut Cmd),
    });
    host.drive();
    assert!(p.polls() == 1 && host.outputs.load(Ordering::SeqCst) == 0 && host.ended.load(Ordering::SeqCst) == 0, "parked, host told Pending");

    let rounds = if SECOND == 0 { 1 } else { 2 };
    let mut r = 0u8;
    while r < rounds {
        host.react.store(1, Ordering::SeqCst);
        let w = slot.take().expect("parked waker");
        if HOW == 0 {
            w.wake(); // the shell's thread
        } else {
            w.wake_by_ref();
            drop(w);
        }
        host.react.store(0, Ordering::SeqCst);
        // both calls have returned; a notification not yet acted on is acted on now
        if host.wakes.load(Ordering::SeqCst) > 0 {
            host.wakes.store(0, Ordering::SeqCst);
            host.drive();
        }
        assert!(p.polls() == 2 + r, "the woken task ran again before the host went idle");
        assert!(host.outputs.load(Ordering::SeqCst) == 1 + r, "its output was handed to the host exactly once");
        r += 1;
    }
    assert!(p.dropped() && host.ended.load(Ordering::SeqCst) == 1, "finished: the stream ended for the host");
    assert!(hooks::ready_len(&cmd) == 0 && hooks::live_tasks(&cmd) == 0, "quiescent");
    nd_cover!(HOW == 0, "woken by value, host reacts inside the call");
    nd_cover!(HOW == 1, "woken by reference, host reacts inside the call");
    nd_cover!(SECOND == 1, "two rounds: the task parks again in between");
    std::mem::forget((cmd, p, slot, host));
}

#[cfg_attr(kani, kani::proof, kani::unwind(6))]
#[cfg_attr(kani, kani::stub(core::mem::MaybeUninit::write, crate::common::maybe_uninit_write))]
pub fn c08_host_reacts_at_once() {
    let v = nd::any_u8();
    match v {
        0 => host_reacts_case::<0, 0>(),
        1 => host_reacts_case::<1, 0>(),
        2 => host_reacts_case::<0, 1>(),
        _ => nd::assume(false),
    }
}

/// A task of the legacy capability executor: poll k: bit (2k) = wake self by reference,
/// bit (2k+1) = Ready; a pending poll parks its waker in the slot.
pub struct Parker {
    pub bits: u8,
    pub probe: Arc<Probe>,
    pub slot: Arc<Slot>,
}

impl Drop for Parker {
    fn drop(&mut self) {
        self.probe.dropped.store(true, Ordering::SeqCst);
    }
}

impl Future for Parker {
    type Output = ();
    fn poll(self: Pin<&mut Self>, cx: &mut Context<'_>) -> Poll<()> {
        let this = self.get_mut();
        let n = this.probe.polls.load(Ordering::SeqCst);
        this.probe.polls.store(n + 1, Ordering::SeqCst);
        let b = if n < 3 { this.bits >> (2 * n) } else { 2 };
        if b & 1 != 0 {
            cx.waker().wake_by_ref();
        }
        if b & 2 != 0 {
            Poll::Ready(())
        } else {
            this.slot.put(cx.waker().clone());
            Poll::Pending
        }
    }
}

/// Legacy capability executor.  Thread A is inside `run_all`/`run_task` with the task's future taken
/// out of its slot (lock released); thread B wakes the task through the waker it parked during this
/// very poll, or spawns a new task, at: 0 after the future was taken out (before the poll — only the
/// spawn is possible there), 1 after the poll returned and before the slot is updated, 2 after the
/// task was handled, 3 after `run_all` returned.
/// Nothing is lost: the woken task is polled again, the spawned task is adopted and run, and when
/// all calls have returned the executor is quiescent.
fn cap_exec_case<const AT: u8, const ACT: u8>() {
    disarm();
    let (exec, spawner) = new_executor();
    let (p1, p2) = (Arc::new(Probe::default()), Arc::new(Probe::default()));
    let (s1, s2) = (Slot::new(), Slot::new());
    // polls: park, park, finish
    spawner.spawn(Parker { bits: 0b10_00_00, probe: p1.clone(), slot: s1.clone() });
    exec.run_all();
    assert!(p1.polls() == 1 && exec.live_tasks() == 1 && exec.ready_len() == 0, "parked");
    let late = LateTask { probe: p2.clone(), slot: s2.clone() };

    s1.take().expect("parked").wake();
    let at = match AT {
        0 => Point::ExecutorTaskTaken,
        1 => Point::ExecutorTaskPolled,
        _ => Point::ExecutorTaskDone,
    };
    if AT < 3 {
        arm(at, 0, ACT, &s1);
        #[allow(static_mut_refs)]
        unsafe {
            CTL.spawner = &spawner;
            CTL.late = &late;
        }
    }
    exec.run_all(); // thread A: second poll parks a fresh waker, B acts on it
    let during = disarm();
    assert!(during == (AT < 3), "schedule point reached exactly when armed");
    if !during {
        arm(at, 0, ACT, &s1);
        #[allow(static_mut_refs)]
        unsafe {
            CTL.spawner = &spawner;
            CTL.late = &late;
        }
        act_now();
        disarm();
    }
    exec.run_all(); // thread B's call ends by running the executor too

    if ACT == ACT_WAKE {
        assert!(p1.polls() == 3, "the wake-up that arrived while the future was out of its slot is not lost");
        assert!(p1.dropped() && exec.live_tasks() == 0, "task finished and its slot freed");
    } else {
        assert!(p1.polls() == 2 && !p1.dropped(), "un-woken task stays parked");
        assert!(p2.polls() == 1 && p2.dropped(), "a task spawned from another thread mid-run is adopted, run and released");
        assert!(exec.live_tasks() == 1, "one slot per live task");
    }
    assert!(exec.ready_len() == 0 && exec.spawn_len() == 0, "quiescent when all calls have returned");
    nd_cover!(AT == 1 && ACT == ACT_WAKE, "woken while the future is out of its slot");
    nd_cover!(AT == 0 && ACT == ACT_SPAWN, "spawned while another task is being polled");
    nd_cover!(AT == 2, "second thread acts between two tasks");
    nd_cover!(AT == 3, "sequential control");
    std::mem::forget((exec, spawner, p1, p2, s1, s2, late));
}

#[cfg_attr(kani, kani::proof, kani::unwind(6))]
#[cfg_attr(kani, kani::stub(core::mem::MaybeUninit::write, crate::common::maybe_uninit_write))]
pub fn c08_capability_executor() {
    let v = nd::any_u8();
    match v {
        0 => cap_exec_case::<1, 0>(),
        1 => cap_exec_case::<2, 0>(),
        2 => cap_exec_case::<3, 0>(),
        3 => cap_exec_case::<0, 5>(),
        4 => cap_exec_case::<1, 5>(),
        5 => cap_exec_case::<2, 5>(),
        _ => nd::assume(false),
    }
}
