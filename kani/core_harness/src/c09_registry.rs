//! Bridge registry (crux_core/src/bridge/{registry,request_serde}.rs): the real `ResolveRegistry::{register,
//! resume}`, the real `Request::serialize` / `Resolve::deserializing` / `ResolveSerialized::resolve`.
//! Serves C09 (distinct ids, routing by id), C02 (arity on the serialized path), C12 (a bad response
//! touches at most the addressed entry), C13 (the registry forgets what can no longer be resolved).
//!
//! Effects are a harness enum implementing `crux_core::Effect` by hand exactly as the derive macro
//! does (`request.serialize(Ffi::Variant)`); responses arrive through serde's `U8Deserializer`
//! (a well-formed u8) or `BoolDeserializer` (a malformed response: wrong type for a u8 output).

use std::sync::Arc;

use crux_core::bridge::verif_hooks::{EffectId, ResolveRegistry};
use crux_core::bridge::{BridgeError, ResolveSerialized};
use serde::de::value::{BoolDeserializer, Error as ValueError, U8Deserializer};
use serde::de::IntoDeserializer;

use crate::c02_arity::{make_request, Recorder, MANY, NEVER, ONCE};
use crate::common::Op;
use crate::{dispatch, nd, nd_cover};

pub enum Eff {
    A(crux_core::Request<Op>),
    B(crux_core::Request<Op>),
}

#[derive(serde::Serialize)]
pub enum EffFfi {
    A(Op),
    B(Op),
}

impl crux_core::Effect for Eff {
    type Ffi = EffFfi;
    fn serialize(self) -> (Self::Ffi, ResolveSerialized) {
        match self {
            Eff::A(request) => request.serialize(EffFfi::A),
            Eff::B(request) => request.serialize(EffFfi::B),
        }
    }
}

pub fn resume_u8(reg: &ResolveRegistry, id: u32, v: u8) -> Result<(), BridgeError> {
    let de: U8Deserializer<ValueError> = v.into_deserializer();
    let mut erased = <dyn erased_serde::Deserializer>::erase(de);
    reg.resume(EffectId(id), &mut erased)
}

pub fn resume_malformed(reg: &ResolveRegistry, id: u32) -> Result<(), BridgeError> {
    let de: BoolDeserializer<ValueError> = true.into_deserializer();
    let mut erased = <dyn erased_serde::Deserializer>::erase(de);
    reg.resume(EffectId(id), &mut erased)
}

fn register(reg: &ResolveRegistry, kind: u8, op: u8, rec: &Arc<Recorder>, variant_b: bool) -> u32 {
    // stream consumers in these scenarios never go away (close_at = 255)
    let req = make_request(kind, op, rec, 255);
    let out = reg.register(if variant_b { Eff::B(req) } else { Eff::A(req) });
    match (&out.effect, variant_b) {
        (EffFfi::A(o), false) | (EffFfi::B(o), true) => assert!(o.0 == op, "ffi request carries the operation unchanged"),
        _ => panic!("effect variant changed while crossing the registry"),
    }
    out.id.0
}

/// what a well-formed response must do to an entry of the given kind
fn check_good(kind: u8, r: &Result<(), BridgeError>, rec: &Recorder, before: u8, v: u8) {
    match kind {
        NEVER => {
            assert!(matches!(r, Err(BridgeError::ProcessResponse(_))), "a notification accepts no response");
            assert!(rec.count() == before, "nothing delivered for a notification");
        }
        _ => {
            assert!(r.is_ok(), "an outstanding request accepts a well-formed response");
            assert!(rec.count() == before + 1, "delivered exactly once");
            assert!(rec.nth(before) == v, "delivered to the request issued under that id, unchanged");
        }
    }
}

/// SCEN = k0 + 3*k1 + 9*k2 + 27*order: three registrations of kinds k0,k1,k2 with the two first
/// answered in either order around the third registration.
fn routing_case<const SCEN: u8>() {
    let (k0, k1, k2, swap) = (SCEN % 3, (SCEN / 3) % 3, (SCEN / 9) % 3, SCEN / 27 == 1);
    let reg = ResolveRegistry::default();
    let recs = [Arc::new(Recorder::default()), Arc::new(Recorder::default()), Arc::new(Recorder::default())];
    let (v1, v2, v3, v4) = (nd::any_u8(), nd::any_u8(), nd::any_u8(), nd::any_u8());

    let id0 = register(&reg, k0, 10, &recs[0], false);
    let id1 = register(&reg, k1, 10, &recs[1], true); // look-alike operation
    assert!(id0 != id1, "outstanding requests carry distinct ids");
    assert!(reg.verif_kind(id0) == Some(k0) && reg.verif_kind(id1) == Some(k1), "stored under the ids handed out");

    let (first, kf, other, ko) = if swap { (1usize, k1, 0usize, k0) } else { (0usize, k0, 1usize, k1) };
    let (idf, ido) = if swap { (id1, id0) } else { (id0, id1) };

    let r = resume_u8(&reg, idf, v1);
    check_good(kf, &r, &recs[first], 0, v1);
    assert!(recs[other].count() == 0, "no other request received it");

    // a third request while `other` (and `first` if it is a stream) is still outstanding
    let id2 = register(&reg, k2, 10, &recs[2], false);
    assert!(id2 != ido, "a new id never collides with an outstanding request");
    if kf == MANY {
        assert!(id2 != idf, "a new id never collides with a live stream");
    }
    assert!(reg.verif_kind(id2) == Some(k2), "stored under the id handed out");

    let r = resume_u8(&reg, ido, v2);
    check_good(ko, &r, &recs[other], 0, v2);
    let r = resume_u8(&reg, id2, v3);
    check_good(k2, &r, &recs[2], 0, v3);

    // arity on the serialized path: a stream takes another value in order
    if kf == MANY {
        let before = recs[first].count();
        let r = resume_u8(&reg, idf, v4);
        check_good(MANY, &r, &recs[first], before, v4);
        assert!(recs[first].nth(0) == v1, "earlier stream items unchanged");
    }
    // totals: every recorder saw exactly its own deliveries
    let exp = |k: u8, extra: u8| if k == NEVER { 0 } else { 1 + extra };
    assert!(recs[first].count() == exp(kf, u8::from(kf == MANY)), "deliveries to the first request");
    assert!(recs[other].count() == exp(ko, 0), "deliveries to the second request");
    assert!(recs[2].count() == exp(k2, 0), "deliveries to the third request");
    // one-shot entries are gone once answered; streams stay
    if kf == ONCE {
        assert!(reg.verif_kind(idf) != Some(ONCE), "an answered one-shot request is no longer resolvable");
    }
    if ko == MANY {
        assert!(reg.verif_kind(ido) == Some(MANY), "a live stream stays registered");
    }
    nd_cover!(kf == ONCE && id2 == idf, "id of an answered one-shot request reused");
    nd_cover!(kf == MANY && ko == MANY, "two streams outstanding");
    nd_cover!(k0 == NEVER || k1 == NEVER || k2 == NEVER, "a notification among them");
    nd_cover!(swap, "answered out of order");
    std::mem::forget((reg, recs));
}

macro_rules! routing_harness {
    ($name:ident, $($n:literal)*) => {
        #[cfg_attr(kani, kani::proof, kani::unwind(6))]
        #[cfg_attr(kani, kani::stub(core::mem::MaybeUninit::write, crate::common::maybe_uninit_write))]
        pub fn $name() {
            let scen = nd::any_u8();
            dispatch!(scen, routing_case, $($n)*);
        }
    };
}
// quick: one-shot/stream mixes in both orders; thorough: all 54
routing_harness!(c09_routing_q1, 13 40 14 41 16 43);
routing_harness!(c09_routing_q2, 17 44 22 49 4 31);
routing_harness!(c09_routing_t1, 0 1 2 3 5 6 7 8 9);
routing_harness!(c09_routing_t2, 10 11 12 15 18 19 20 21 23);
routing_harness!(c09_routing_t3, 24 25 26 27 28 29 30 32 33);
routing_harness!(c09_routing_t4, 34 35 36 37 38 39 42 45 46);
routing_harness!(c09_routing_t5, 47 48 50 51 52 53);

/// C12: a malformed response addressed to one of two outstanding entries.
/// CASE = kt + 3*ks (kt = kind of the target in {Once, Many}, ks = kind of the sibling).
fn bad_response_case<const CASE: u8>() {
    let (kt, ks) = (1 + CASE % 2, (CASE / 2) % 3);
    let reg = ResolveRegistry::default();
    let (rt, rs) = (Arc::new(Recorder::default()), Arc::new(Recorder::default()));
    let (v1, v2) = (nd::any_u8(), nd::any_u8());
    // the sibling is registered first or second (symbolic position of the target id)
    let target_first = CASE / 6 == 0;
    let (idt, ids) = if target_first {
        let t = register(&reg, kt, 10, &rt, false);
        (t, register(&reg, ks, 10, &rs, false))
    } else {
        let s = register(&reg, ks, 10, &rs, false);
        (register(&reg, kt, 10, &rt, false), s)
    };
    let len_before = reg.verif_len();

    let r = resume_malformed(&reg, idt);
    assert!(matches!(r, Err(BridgeError::DeserializeOutput(_))), "a malformed response is an error value");
    assert!(rt.count() == 0, "the continuation did not run");
    assert!(rs.count() == 0, "the sibling did not receive anything");
    assert!(reg.verif_kind(ids) == Some(ks), "the sibling entry is untouched");
    if kt == MANY {
        // a stream survives a rejected item: the next well-formed item is delivered to it
        assert!(reg.verif_kind(idt) == Some(MANY), "a rejected stream item leaves the stream registered");
        assert!(reg.verif_len() == len_before, "nothing forgotten");
        let r = resume_u8(&reg, idt, v1);
        check_good(MANY, &r, &rt, 0, v1);
    } else {
        // a one-shot request is consumed by the response it was addressed to, at most
        assert!(reg.verif_len() + 1 >= len_before, "at most the addressed entry is affected");
    }
    // the sibling still works exactly as if nothing had happened
    let r = resume_u8(&reg, ids, v2);
    check_good(ks, &r, &rs, 0, v2);
    assert!(rt.count() == u8::from(kt == MANY), "the target saw only its own well-formed item");
    nd_cover!(kt == MANY && ks == ONCE, "bad stream item next to a one-shot request");
    nd_cover!(kt == ONCE && ks == MANY, "bad one-shot response next to a stream");
    nd_cover!(!target_first, "target registered second");
    std::mem::forget((reg, rt, rs));
}

#[cfg_attr(kani, kani::proof, kani::unwind(6))]
#[cfg_attr(kani, kani::stub(core::mem::MaybeUninit::write, crate::common::maybe_uninit_write))]
#[cfg_attr(kani, kani::stub(core::fmt::write, crate::common::fmt_write_nop))]
pub fn c12_bad_response_a() {
    let c = nd::any_u8();
    dispatch!(c, bad_response_case, 0 1 2 3 4 5);
}

#[cfg_attr(kani, kani::proof, kani::unwind(6))]
#[cfg_attr(kani, kani::stub(core::mem::MaybeUninit::write, crate::common::maybe_uninit_write))]
#[cfg_attr(kani, kani::stub(core::fmt::write, crate::common::fmt_write_nop))]
pub fn c12_bad_response_b() {
    let c = nd::any_u8();
    dispatch!(c, bad_response_case, 6 7 8 9 10 11);
}

/// C13: the registry forgets what can no longer be resolved (inductive step from a small state).
/// Invariant I: every parked entry is still resolvable.  One `register` or `resume` from a state
/// satisfying I must re-establish I.
/// CASE: 0 = register a one-shot, answer it; 1 = register a stream, deliver, consumer ends, deliver again;
///       2 = register a notification.
fn forgets_case<const CASE: u8>() {
    let reg = ResolveRegistry::default();
    let rec = Arc::new(Recorder::default());
    let (v1, v2) = (nd::any_u8(), nd::any_u8());
    // pre-state: one live stream parked (satisfies I)
    let keeper = Arc::new(Recorder::default());
    let idk = register(&reg, MANY, 1, &keeper, false);
    assert!(reg.verif_len() == 1);
    match CASE {
        0 => {
            let id = register(&reg, ONCE, 2, &rec, false);
            assert!(reg.verif_len() == 2);
            assert!(resume_u8(&reg, id, v1).is_ok());
            assert!(reg.verif_len() == 1, "an answered one-shot request is forgotten");
            assert!(reg.verif_kind(id).is_none(), "its slot is vacant");
            nd_cover!(true, "one-shot answered and forgotten");
        }
        1 => {
            // a stream whose consumer goes away after one item
            let req = make_request(MANY, 2, &rec, 1);
            let id = reg.register(Eff::A(req)).id.0;
            assert!(resume_u8(&reg, id, v1).is_ok());
            let r = resume_u8(&reg, id, v2);
            assert!(matches!(r, Err(BridgeError::ProcessResponse(_))), "a finished stream rejects further items");
            assert!(rec.count() == 1, "nothing delivered after the consumer ended");
            assert!(reg.verif_kind(id).is_none(), "a stream that can no longer be resolved is forgotten");
            nd_cover!(true, "finished stream");
        }
        _ => {
            let id = register(&reg, NEVER, 2, &rec, false);
            assert!(reg.verif_kind(id).is_none(), "a notification is never parked: it can never be resolved");
            nd_cover!(true, "notification registered");
        }
    }
    assert!(reg.verif_kind(idk) == Some(MANY), "the live stream is still there");
    std::mem::forget((reg, rec, keeper));
}

#[cfg_attr(kani, kani::proof, kani::unwind(6))]
#[cfg_attr(kani, kani::stub(core::mem::MaybeUninit::write, crate::common::maybe_uninit_write))]
pub fn c13_registry_forgets_answered() {
    forgets_case::<0>();
}

#[cfg_attr(kani, kani::proof, kani::unwind(6))]
#[cfg_attr(kani, kani::stub(core::mem::MaybeUninit::write, crate::common::maybe_uninit_write))]
pub fn c13_registry_forgets_finished_stream() {
    forgets_case::<1>();
}

#[cfg_attr(kani, kani::proof, kani::unwind(6))]
#[cfg_attr(kani, kani::stub(core::mem::MaybeUninit::write, crate::common::maybe_uninit_write))]
pub fn c13_registry_forgets_notification() {
    forgets_case::<2>();
}
