//! C13 — finished work is released (task side).  The command executor's side is asserted inside the
//! C07/C06 harnesses (`probe.dropped()` after every settle); here: the legacy capability executor
//! (`QueuingExecutor::{run_all, run_task}`, crux_core/src/capability/executor.rs) frees the slot of a
//! completed task, drops its future, and keeps exactly one slot per live task over repeated cycles.

use std::future::Future;
use std::pin::Pin;
use std::sync::atomic::Ordering;
use std::sync::Arc;
use std::task::{Context, Poll};

use crux_core::capability::verif_executor::new_executor;

use crate::script::{Probe, Slot};
use crate::{dispatch, nd, nd_cover};

/// poll k: bit (2k) = wake self by reference, bit (2k+1) = Ready; a pending poll parks its waker in the slot
pub struct Plain {
    bits: u8,
    probe: Arc<Probe>,
    slot: Arc<Slot>,
}

impl Drop for Plain {
    fn drop(&mut self) {
        self.probe.dropped.store(true, Ordering::SeqCst);
    }
}

impl Future for Plain {
    type Output = ();
    fn poll(self: Pin<&mut Self>, cx: &mut Context<'_>) -> Poll<()> {
        let this = self.get_mut();
        let n = this.probe.polls.load(Ordering::SeqCst);
        this.probe.polls.store(n + 1, Ordering::SeqCst);
        let b = if n < 3 { this.bits >> (2 * n) } else { 2 };
        if b & 1 != 0 {
            cx.waker().wake_by_ref();
        }
        if b & 2 != 0 {
            Poll::Ready(())
        } else {
            this.slot.put(cx.waker().clone());
            Poll::Pending
        }
    }
}

fn cap_exec_case<const BITS: u8>() {
    let (exec, spawner) = new_executor();
    let (p1, p2) = (Arc::new(Probe::default()), Arc::new(Probe::default()));
    let (s1, s2) = (Slot::new(), Slot::new());
    // task 1 follows BITS; task 2 is a bystander that stays parked throughout
    spawner.spawn(Plain { bits: BITS, probe: p1.clone(), slot: s1.clone() });
    spawner.spawn(Plain { bits: 0, probe: p2.clone(), slot: s2.clone() });
    assert!(exec.spawn_len() == 2, "both spawned");
    exec.run_all();
    assert!(exec.spawn_len() == 0 && exec.ready_len() == 0, "run_all leaves nothing runnable");

    // reference: replay BITS
    let mut polls = 0u8;
    let mut done = false;
    let mut woken = true; // first poll happens on adoption
    while woken && !done && polls < 3 {
        let b = BITS >> (2 * polls);
        polls += 1;
        woken = b & 1 != 0;
        done = b & 2 != 0;
    }
    assert!(p1.polls() == polls, "polled once per wake-up");
    assert!(p1.dropped() == done, "a completed task's future is dropped, a pending one is not");
    // (a stale wake-up of a finished task can reach the task that reused its slot: a spurious poll,
    // which futures must tolerate, so only liveness of the bystander is asserted)
    assert!(p2.polls() >= 1 && !p2.dropped(), "bystander alive");
    assert!(exec.live_tasks() == 1 + usize::from(!done), "one slot per live task");

    if !done {
        // the parked waker fires: one more poll
        s1.take().expect("parked").wake();
        assert!(exec.ready_len() == 1, "wake-up queued");
        exec.run_all();
        let b = if polls < 3 { BITS >> (2 * polls) } else { 2 };
        let done2 = b & 2 != 0;
        assert!(p1.polls() >= polls + 1, "woken task ran");
        if done2 && b & 1 == 0 {
            assert!(p1.dropped(), "finished after the wake-up: dropped");
            assert!(exec.live_tasks() == 1, "its slot is free again");
        }
        nd_cover!(done2, "finished on the second cycle");
    }
    // a new task reuses the freed capacity rather than growing with history
    let p3 = Arc::new(Probe::default());
    spawner.spawn(Plain { bits: 2, probe: p3.clone(), slot: s1.clone() });
    exec.run_all();
    assert!(p3.dropped(), "an immediately ready task is dropped in the same run");
    nd_cover!(done, "finished in the first run");
    nd_cover!(!done && polls == 2, "self-woken once then parked");
    std::mem::forget((exec, spawner, p1, p2, p3, s1, s2));
}

#[cfg_attr(kani, kani::proof, kani::unwind(6))]
#[cfg_attr(kani, kani::stub(core::mem::MaybeUninit::write, crate::common::maybe_uninit_write))]
pub fn c13_capability_executor_a() {
    let b = nd::any_u8();
    dispatch!(b, cap_exec_case, 0 2 1 9 8);
}

#[cfg_attr(kani, kani::proof, kani::unwind(6))]
#[cfg_attr(kani, kani::stub(core::mem::MaybeUninit::write, crate::common::maybe_uninit_write))]
pub fn c13_capability_executor_b() {
    let b = nd::any_u8();
    dispatch!(b, cap_exec_case, 3 5 37 32 33);
}

/// Dropping a command releases everything it still holds: parked task futures (and whatever they
/// captured) are dropped, queued outputs are dropped, and a late wake-up through a waker that
/// outlives the command is harmless.  D: 0 = dropped while two tasks are parked, 1 = dropped before
/// the first poll (root in the slab, a spawned task still in the spawn queue), 2 = dropped after an
/// abort.
fn command_drop_case<const D: u8>() {
    use crate::script::{command_with, Cmd, Script, Step};
    use crux_core::command::verif_hooks as hooks;
    let (pa, pb) = (Arc::new(Probe::default()), Arc::new(Probe::default()));
    let (sa, sb) = (Slot::new(), Slot::new());
    let park = Step { keep_slot: true, effect: true, ..Step::pending() };
    let mut cmd: Cmd = command_with([park, Step::pending(), Step::pending()], &pa, &sa, 1);
    {
        let (pb, sb) = (pb.clone(), sb.clone());
        cmd.spawn(move |ctx| Script::new([park, Step::pending(), Step::pending()], &pb, &sb, ctx, 2));
    }
    if D != 1 {
        hooks::run_until_settled(&mut cmd);
        assert!(hooks::live_tasks(&cmd) == 2 && hooks::effects_len(&cmd) == 2, "two parked tasks, two queued effects");
    }
    if D == 2 {
        cmd.abort_handle().abort();
    }
    drop(cmd);
    assert!(pa.dropped() && pb.dropped(), "dropping the command drops every task future it still holds");
    // wakers that outlive the command (parked with other owners) can still be invoked
    if let Some(w) = sa.take() {
        w.wake();
    }
    if let Some(w) = sb.take() {
        w.wake_by_ref();
        drop(w);
    }
    assert!(pa.polls() == u8::from(D != 1) && pb.polls() == u8::from(D != 1), "nothing runs after the drop");
    nd_cover!(D == 0, "dropped while parked");
    nd_cover!(D == 1, "dropped before the first poll");
    nd_cover!(D == 2, "dropped after an abort");
    std::mem::forget((pa, pb, sa, sb));
}

#[cfg_attr(kani, kani::proof, kani::unwind(8))]
#[cfg_attr(kani, kani::stub(core::mem::MaybeUninit::write, crate::common::maybe_uninit_write))]
pub fn c13_command_drop_releases() {
    let d = nd::any_u8();
    dispatch!(d, command_drop_case, 0 1 2);
}

/// Dropping the legacy capability executor (what dropping a `Core` does) drops the futures it still
/// holds: one parked in the slab, one never adopted from the spawn queue; a waker that outlives the
/// executor can still be invoked.
#[cfg_attr(kani, kani::proof, kani::unwind(6))]
#[cfg_attr(kani, kani::stub(core::mem::MaybeUninit::write, crate::common::maybe_uninit_write))]
pub fn c13_executor_drop_releases() {
    let (exec, spawner) = new_executor();
    let (p1, p2) = (Arc::new(Probe::default()), Arc::new(Probe::default()));
    let (s1, s2) = (Slot::new(), Slot::new());
    spawner.spawn(Plain { bits: 0, probe: p1.clone(), slot: s1.clone() });
    exec.run_all();
    assert!(exec.live_tasks() == 1 && p1.polls() == 1, "one task parked");
    spawner.spawn(Plain { bits: 0, probe: p2.clone(), slot: s2.clone() });
    assert!(exec.spawn_len() == 1, "one task not adopted yet");
    drop(spawner);
    drop(exec);
    assert!(p1.dropped(), "the parked future is dropped with the executor");
    assert!(p2.dropped(), "the future that was never adopted is dropped with the executor");
    if let Some(w) = s1.take() {
        w.wake();
    }
    assert!(p1.polls() == 1 && p2.polls() == 0, "nothing runs after the drop");
    nd_cover!(true, "executor dropped with work outstanding");
    std::mem::forget((p1, p2, s1, s2));
}
