//! C17 — key-value results and values pass through unaltered.
//!
//! Real code driven: `KeyValueResult::unwrap_{get,set,delete,exists,list_keys}` (through the crux_kv
//! `crux_verif` hooks), `Value <-> Option<Vec<u8>>` conversions, and the serde impls of
//! `KeyValueOperation` / `KeyValueResult` under the bridge's bincode options.
//! Not covered: that each API call emits exactly one operation (needs `request_from_shell`).

use bincode::Options as _;
use crux_kv::error::KeyValueError;
use crux_kv::value::Value;
use crux_kv::verif_hooks as kv;
use crux_kv::{KeyValueOperation, KeyValueResponse, KeyValueResult};

use crate::{dispatch, nd, nd_cover};

// Lengths are case-split (const generics + dispatch!), contents are symbolic: CBMC models a
// `memcpy` whose length is symbolic (Vec/String clone of a vector that is 0, 1 or 2 bytes long
// depending on a symbolic choice) imprecisely and then reports counterexamples that do not
// reproduce natively.

/// `len` symbolic bytes, len concrete
pub fn bytes_n(len: u8) -> Vec<u8> {
    let mut v = Vec::new();
    let mut i = 0;
    while i < len {
        v.push(nd::any_u8());
        i += 1;
    }
    v
}

/// `len` symbolic ASCII characters, len concrete
pub fn string_n(len: u8) -> String {
    let mut s = String::new();
    let mut i = 0;
    while i < len {
        s.push(char::from(nd::any_u8() & 0x7f));
        i += 1;
    }
    s
}

/// `len` fixed characters: in the wire harnesses key *contents* are concrete (decoding a String
/// validates UTF-8 byte by byte, which on symbolic bytes dominates symbolic execution: 635 s of symex
/// for a one-character key) while value bytes and the cursor stay symbolic
pub fn fixed_string_n(len: u8) -> String {
    let mut s = String::new();
    let mut i = 0;
    while i < len {
        s.push('k');
        i += 1;
    }
    s
}

/// V: 0 = absent, 1 + n = n bytes
pub fn value_of(v: u8) -> Value {
    if v == 0 {
        Value::None
    } else {
        Value::Bytes(bytes_n(v - 1))
    }
}

/// E: 0 Io(1 char), 1 Timeout, 2 CursorNotFound, 3 Other(empty), 4 Io(empty), 5 Other(1 char)
pub fn error_of(e: u8) -> KeyValueError {
    match e {
        0 => KeyValueError::Io { message: string_n(1) },
        1 => KeyValueError::Timeout,
        2 => KeyValueError::CursorNotFound,
        3 => KeyValueError::Other { message: String::new() },
        4 => KeyValueError::Io { message: String::new() },
        _ => KeyValueError::Other { message: string_n(1) },
    }
}

fn bytes_eq(a: &[u8], b: &[u8]) -> bool {
    if a.len() != b.len() {
        return false;
    }
    let mut i = 0;
    while i < a.len() {
        if a[i] != b[i] {
            return false;
        }
        i += 1;
    }
    true
}

fn value_matches(v: &Value, o: &Option<Vec<u8>>) -> bool {
    match (v, o) {
        (Value::None, None) => true,
        (Value::Bytes(b), Some(x)) => bytes_eq(b, x),
        _ => false,
    }
}

fn error_eq(a: &KeyValueError, b: &KeyValueError) -> bool {
    match (a, b) {
        (KeyValueError::Io { message: x }, KeyValueError::Io { message: y }) => bytes_eq(x.as_bytes(), y.as_bytes()),
        (KeyValueError::Other { message: x }, KeyValueError::Other { message: y }) => bytes_eq(x.as_bytes(), y.as_bytes()),
        (KeyValueError::Timeout, KeyValueError::Timeout) => true,
        (KeyValueError::CursorNotFound, KeyValueError::CursorNotFound) => true,
        _ => false,
    }
}

/// get / set / delete: the value (absent, empty, bytes) or the error arrives unchanged.
/// SHAPE = which + 3*k; k in 0..=3: value_of(k); k in 4..=9: error_of(k-4)
fn value_ops_case<const SHAPE: u8>() {
    let (which, k) = (SHAPE % 3, SHAPE / 3);
    if k >= 4 {
        let e = error_of(k - 4);
        let r = KeyValueResult::Err { error: e.clone() };
        let out = match which {
            0 => kv::unwrap_get(r),
            1 => kv::unwrap_set(r),
            _ => kv::unwrap_delete(r),
        };
        match out {
            Err(e2) => assert!(error_eq(&e, &e2), "shell-reported error passed through unchanged"),
            Ok(_) => panic!("an error result became a success"),
        }
        nd_cover!(k == 4, "io error with message");
    } else {
        let v = value_of(k);
        let out = match which {
            0 => kv::unwrap_get(KeyValueResult::Ok { response: KeyValueResponse::Get { value: v.clone() } }),
            1 => kv::unwrap_set(KeyValueResult::Ok { response: KeyValueResponse::Set { previous: v.clone() } }),
            _ => kv::unwrap_delete(KeyValueResult::Ok { response: KeyValueResponse::Delete { previous: v.clone() } }),
        };
        match out {
            Ok(o) => assert!(value_matches(&v, &o), "value passed through unchanged; absent stays distinct from empty"),
            Err(_) => panic!("a success result became an error"),
        }
        nd_cover!(k == 1, "empty value");
        nd_cover!(k == 0, "absent value");
        nd_cover!(k == 3, "two bytes");
    }
}

#[cfg_attr(kani, kani::proof, kani::unwind(4))]
pub fn c17_unwrap_value_ops() {
    let s = nd::any_u8();
    dispatch!(s, value_ops_case, 0 1 2 3 4 5 6 7 8 9 10 11 12 13 14 15 16 17 18 19 20 21 22 23 24 25 26 27 28 29);
}

/// exists / list_keys: flag, keys (incl. an empty page) and cursor arrive unchanged.
/// SHAPE: 0 = exists; 1 + n + 3*l = list of n keys (n <= 2) of l chars each (l <= 1); errors by E = SHAPE - 7
fn exists_list_case<const SHAPE: u8>() {
    if SHAPE == 0 {
        let p = nd::any_bool();
        let out = kv::unwrap_exists(KeyValueResult::Ok { response: KeyValueResponse::Exists { is_present: p } });
        assert!(matches!(out, Ok(x) if x == p), "exists flag unchanged");
        nd_cover!(p, "present");
    } else if SHAPE <= 6 {
        let (n, l) = ((SHAPE - 1) % 3, (SHAPE - 1) / 3);
        let (k0, k1) = (string_n(l), string_n(l));
        let keys: Vec<String> = match n {
            0 => Vec::new(),
            1 => vec![k0.clone()],
            _ => vec![k0.clone(), k1.clone()],
        };
        let cursor = nd::any_u64();
        let out = kv::unwrap_list_keys(KeyValueResult::Ok { response: KeyValueResponse::ListKeys { keys, next_cursor: cursor } });
        match out {
            Ok((ks, c)) => {
                assert!(c == cursor, "cursor passed as given");
                assert!(ks.len() == usize::from(n), "page length unchanged");
                if n >= 1 {
                    assert!(bytes_eq(ks[0].as_bytes(), k0.as_bytes()), "first key unchanged");
                }
                if n == 2 {
                    assert!(bytes_eq(ks[1].as_bytes(), k1.as_bytes()), "second key unchanged");
                }
            }
            Err(_) => panic!("a success result became an error"),
        }
        nd_cover!(n == 0 && cursor != 0, "empty page with a continuation cursor");
        nd_cover!(n == 2 && l == 1, "two keys");
    } else {
        let e = error_of(SHAPE - 7);
        match kv::unwrap_exists(KeyValueResult::Err { error: e.clone() }) {
            Err(e2) => assert!(error_eq(&e, &e2), "error unchanged"),
            Ok(_) => panic!("an error result became a success"),
        }
        match kv::unwrap_list_keys(KeyValueResult::Err { error: e.clone() }) {
            Err(e2) => assert!(error_eq(&e, &e2), "error unchanged"),
            Ok(_) => panic!("an error result became a success"),
        }
        nd_cover!(SHAPE == 9, "cursor not found");
    }
}

#[cfg_attr(kani, kani::proof, kani::unwind(4))]
pub fn c17_unwrap_exists_list() {
    let s = nd::any_u8();
    dispatch!(s, exists_list_case, 0 1 2 3 4 5 6 7 8 9 10 11 12);
}

/// Value <-> Option<Vec<u8>> are inverse bijections
fn conversions_case<const K: u8>() {
    let v = value_of(K);
    let o: Option<Vec<u8>> = v.clone().into();
    assert!(value_matches(&v, &o), "Value -> Option keeps absent/empty/bytes apart");
    let back: Value = o.clone().into();
    assert!(value_matches(&back, &o), "Option -> Value");
    match (&v, &back) {
        (Value::None, Value::None) => {}
        (Value::Bytes(a), Value::Bytes(b)) => assert!(bytes_eq(a, b), "round trip"),
        _ => panic!("round trip changed the variant"),
    }
    let from_vec: Value = bytes_n(if K == 0 { 0 } else { K - 1 }).into();
    assert!(matches!(from_vec, Value::Bytes(_)), "From<Vec<u8>> is always Bytes");
    nd_cover!(K == 1, "empty bytes");
    nd_cover!(K == 0, "absent");
}

#[cfg_attr(kani, kani::proof, kani::unwind(4))]
pub fn c17_value_conversions() {
    let k = nd::any_u8();
    dispatch!(k, conversions_case, 0 1 2 3);
}

fn options() -> impl bincode::Options + Copy {
    // the bridge's options (crux_core/src/bridge/mod.rs: bincode_options)
    bincode::DefaultOptions::new().with_fixint_encoding().allow_trailing_bytes()
}

/// Independent description of the wire format (what a schema-driven shell decoder expects): bincode
/// with fixed-width little-endian integers — enum variant index u32, String / byte buffer = u64
/// length + bytes, u64 as 8 bytes.
pub struct Wire {
    pub buf: [u8; 48],
    pub len: usize,
}

impl Wire {
    pub fn new() -> Wire {
        Wire { buf: [0; 48], len: 0 }
    }
    pub fn u8(&mut self, b: u8) {
        self.buf[self.len] = b;
        self.len += 1;
    }
    pub fn u32(&mut self, v: u32) {
        let mut i = 0;
        while i < 4 {
            self.u8((v >> (8 * i)) as u8);
            i += 1;
        }
    }
    pub fn u64(&mut self, v: u64) {
        let mut i = 0;
        while i < 8 {
            self.u8((v >> (8 * i)) as u8);
            i += 1;
        }
    }
    pub fn bytes(&mut self, b: &[u8]) {
        self.u64(b.len() as u64);
        let mut i = 0;
        while i < b.len() {
            self.u8(b[i]);
            i += 1;
        }
    }
}

/// core -> shell: the operation the shell sees is exactly the positional encoding of what the app
/// asked for, every field present even when empty.
/// SHAPE = which + 3*kl + 6*vl  (key length kl <= 1, value length vl <= 2)
fn op_wire_case<const SHAPE: u8>() {
    let (which, kl, vl) = (SHAPE % 3, (SHAPE / 3) % 2, SHAPE / 6);
    let key = fixed_string_n(kl);
    let mut want = Wire::new();
    let op = match which {
        0 => {
            let value = bytes_n(vl);
            want.u32(1);
            want.bytes(key.as_bytes());
            want.bytes(&value);
            KeyValueOperation::Set { key, value }
        }
        1 => {
            want.u32(0);
            want.bytes(key.as_bytes());
            KeyValueOperation::Get { key }
        }
        _ => {
            let cursor = nd::any_u64();
            want.u32(4);
            want.bytes(key.as_bytes());
            want.u64(cursor);
            KeyValueOperation::ListKeys { prefix: key, cursor }
        }
    };
    let bytes = match options().serialize(&op) {
        Ok(b) => b,
        Err(_) => panic!("operation does not serialize"),
    };
    assert!(bytes.len() == want.len, "every field of the operation is on the wire, nothing else");
    assert!(bytes_eq(&bytes, &want.buf[..want.len]), "operation bytes are the positional encoding of the arguments");
    nd_cover!(which == 0 && vl == 0, "set with an empty value");
    nd_cover!(which == 0 && vl == 2, "set with two bytes");
    nd_cover!(which == 2, "list keys");
}

macro_rules! op_wire_harness {
    ($name:ident, $($n:literal)*) => {
        #[cfg_attr(kani, kani::proof, kani::unwind(32))]
        #[cfg_attr(kani, kani::stub(core::fmt::write, crate::common::fmt_write_nop))]
        pub fn $name() {
            let s = nd::any_u8();
            dispatch!(s, op_wire_case, $($n)*);
        }
    };
}
op_wire_harness!(c17_wire_ops_set_empty, 3 0);
op_wire_harness!(c17_wire_ops_set_bytes, 12 9);
op_wire_harness!(c17_wire_ops_set_more, 6 15);
op_wire_harness!(c17_wire_ops_get_list, 1 4 2 5);

/// shell -> core: a result encoded by the shell (independent encoder above) decodes and reaches the
/// app unchanged through unwrap_get
fn result_wire_case<const K: u8>() {
    let v = value_of(K);
    let mut w = Wire::new();
    w.u32(0); // KeyValueResult::Ok
    w.u32(0); // KeyValueResponse::Get
    match &v {
        Value::None => w.u32(0),
        Value::Bytes(b) => {
            w.u32(1);
            w.bytes(b);
        }
    }
    match options().deserialize::<KeyValueResult>(&w.buf[..w.len]) {
        Ok(back) => match kv::unwrap_get(back) {
            Ok(o) => assert!(value_matches(&v, &o), "value crosses the wire and the API unchanged"),
            Err(_) => panic!("a success result became an error"),
        },
        Err(_) => panic!("result does not decode"),
    }
    nd_cover!(K == 0, "absent");
    nd_cover!(K == 1, "empty");
    nd_cover!(K == 3, "two bytes");
}

#[cfg_attr(kani, kani::proof, kani::unwind(32))]
#[cfg_attr(kani, kani::stub(core::fmt::write, crate::common::fmt_write_nop))]
pub fn c17_wire_results() {
    let k = nd::any_u8();
    dispatch!(k, result_wire_case, 0 1 2 3);
}
