//! C19 cross-check by the second engine (Kani/CBMC, bit-precise) for the conversions whose
//! arithmetic CBMC decides quickly (no 64-bit division by 1e9, no calendar arithmetic).  The deciding
//! engine for C19 is M (MIR -> SMT); these harnesses re-decide a subset independently of M's
//! translator and chrono contracts, on the compiled code, full machine width.

use chrono::TimeDelta;
use crux_time::protocol::chrono::TimeError;
use crux_time::{Duration, Instant};

use crate::{nd, nd_cover};

const NPS: u64 = 1_000_000_000;

/// Duration::from_millis / from_secs: exact whenever the product fits
#[cfg_attr(kani, kani::proof, kani::unwind(2))]
pub fn c19_k_constructors() {
    let ms = nd::any_u64();
    nd::assume(ms <= u64::MAX / 1_000_000);
    assert!(Duration::from_millis(ms) == Duration::new(ms * 1_000_000), "from_millis exact");
    let s = nd::any_u64();
    nd::assume(s <= u64::MAX / NPS);
    assert!(Duration::from_secs(s) == Duration::new(s * NPS), "from_secs exact");
    nd_cover!(ms == u64::MAX / 1_000_000 && s == u64::MAX / NPS, "largest representable arguments");
}

/// From<std::time::Duration> for Duration: exact whenever the nanosecond count fits a u64
#[cfg_attr(kani, kani::proof, kani::unwind(2))]
pub fn c19_k_std_to_dur() {
    let secs = nd::any_u64();
    let nanos = nd::any_u32();
    nd::assume(nanos < NPS as u32);
    let total = u128::from(secs) * u128::from(NPS) + u128::from(nanos);
    nd::assume(total <= u128::from(u64::MAX));
    let d: Duration = std::time::Duration::new(secs, nanos).into();
    assert!(d == Duration::new(total as u64), "std Duration converts exactly");
    nd_cover!(total == u128::from(u64::MAX), "the largest representable duration");
}

/// TryFrom<TimeDelta> for Duration: exact for 0..=u64::MAX ns, Err otherwise (both directions)
#[cfg_attr(kani, kani::proof, kani::unwind(2))]
pub fn c19_k_td_to_dur() {
    let secs = nd::any_i64();
    let nanos = nd::any_u32();
    let Some(td) = TimeDelta::new(secs, nanos) else {
        return;
    };
    let total = i128::from(secs) * i128::from(NPS) + i128::from(nanos);
    let r = Duration::try_from(td);
    if total >= 0 && total <= i128::from(u64::MAX) {
        assert!(r == Ok(Duration::new(total as u64)), "representable delta converts exactly");
    } else {
        assert!(r == Err(TimeError::InvalidDuration), "negative or too large delta is rejected");
    }
    nd_cover!(total < 0 && total > -(NPS as i128), "negative delta shorter than a second");
    nd_cover!(total > i128::from(i64::MAX) && total <= i128::from(u64::MAX), "delta above i64::MAX ns, still representable");
    nd_cover!(total > i128::from(u64::MAX), "delta too large");
}

/// TryFrom<Instant> for DateTime<Utc>: seconds beyond i64 are rejected (never wrapped)
#[cfg_attr(kani, kani::proof, kani::unwind(2))]
pub fn c19_k_inst_to_dt_rejects() {
    let secs = nd::any_u64();
    let nanos = nd::any_u32();
    nd::assume(nanos < NPS as u32);
    nd::assume(secs > i64::MAX as u64);
    let r = chrono::DateTime::<chrono::Utc>::try_from(Instant::new(secs, nanos));
    assert!(matches!(r, Err(TimeError::InvalidInstant)), "seconds above i64::MAX are rejected");
    nd_cover!(secs == u64::MAX, "u64::MAX seconds");
}
