//! Shared harness vocabulary.

use serde::{Deserialize, Serialize};

/// A one-byte operation whose output is one byte.
#[derive(Clone, PartialEq, Eq, Debug, Serialize, Deserialize)]
pub struct Op(pub u8);

impl crux_core::capability::Operation for Op {
    type Output = u8;
}

/// A second, look-alike operation type (the `#[effect]` macro needs one operation type per variant).
#[derive(Clone, PartialEq, Eq, Debug, Serialize, Deserialize)]
pub struct OpB(pub u8);

impl crux_core::capability::Operation for OpB {
    type Output = u8;
}

/// Semantics-preserving replacement for `MaybeUninit::<T>::write` (typed `ptr::write` instead of a
/// union field assignment) — CBMC loses constant propagation through the union otherwise, see
/// DESIGN.md §0.  Used with `#[kani::stub(core::mem::MaybeUninit::write, maybe_uninit_write)]`.
#[cfg(kani)]
pub fn maybe_uninit_write<T>(this: &mut core::mem::MaybeUninit<T>, val: T) -> &mut T {
    unsafe {
        let p = this.as_mut_ptr();
        core::ptr::write(p, val);
        &mut *p
    }
}

/// Replacement for `core::fmt::write` in harnesses where formatted text is not the subject (error
/// messages built on rejection paths): formatting machinery dominates symbolic execution otherwise.
#[cfg(kani)]
pub fn fmt_write_nop(_out: &mut dyn core::fmt::Write, _args: core::fmt::Arguments<'_>) -> core::fmt::Result {
    Ok(())
}
