//! Kani harnesses over the real crux_core (path dependency on /repo/crux_core, feature `crux_verif`).
//! Each module serves one property; every harness name starts with the property id.
//! The same functions are the native replay of a counterexample (see `nd`, `bin/replay.rs`).

pub mod common;
pub mod nd;
pub mod script;
pub mod probe;

pub mod c02_arity;
pub mod c07_done;

/// Registry for the native replay binary.
#[cfg(not(kani))]
pub const HARNESSES: &[(&str, fn())] = &[
    ("c02_arity_typed", c02_arity::c02_arity_typed),
    ("c07_evict_iff", c07_done::c07_evict_iff),
    ("c07_settle_q1", c07_done::c07_settle_q1),
    ("c07_settle_q2", c07_done::c07_settle_q2),
    ("c07_settle_t1", c07_done::c07_settle_t1),
    ("c07_settle_t2", c07_done::c07_settle_t2),
    ("c07_settle_t3", c07_done::c07_settle_t3),
    ("c07_settle_t4", c07_done::c07_settle_t4),
    ("c07_settle_t5", c07_done::c07_settle_t5),
    ("c07_settle_t6", c07_done::c07_settle_t6),
    ("c07_settle_t7", c07_done::c07_settle_t7),
    ("c07_settle_t8", c07_done::c07_settle_t8),
    ("c07_settle_t9", c07_done::c07_settle_t9),
    ("c07_settle_t10", c07_done::c07_settle_t10),
    ("c07_kept_alive_by_other_task", c07_done::c07_kept_alive_by_other_task),
    ("c07_join_handle_wakes", c07_done::c07_join_handle_wakes),
];

#[cfg(test)]
mod selftest {
    /// Every harness must pass natively (real dependencies) on a spread of concrete inputs that
    /// satisfy its assumptions: guards against harness bugs and model/real divergence.
    #[test]
    fn harnesses_pass_natively_on_sample_inputs() {
        let mut ran = 0usize;
        for (name, f) in super::HARNESSES {
            for seed in 0u32..64 {
                // byte pattern: bit i of seed -> value i (covers all boolean combinations of the
                // first 6 choices), small integers elsewhere
                let vals: Vec<Vec<u8>> = (0..24)
                    .map(|i| {
                        let bit = if i < 6 { ((seed >> i) & 1) as u8 } else { ((seed as usize + i) % 3) as u8 };
                        vec![bit, 0, 0, 0, 0, 0, 0, 0]
                    })
                    .collect();
                super::nd::load(vals);
                let r = std::panic::catch_unwind(f);
                match r {
                    Ok(()) => ran += 1,
                    Err(p) => {
                        if p.downcast_ref::<&str>() == Some(&super::nd::ASSUME_VIOLATED) {
                            continue;
                        }
                        panic!("harness {name} fails natively on seed {seed}");
                    }
                }
            }
        }
        assert!(ran > 0);
    }
}
