//! Kani harnesses over the real crux_core (path dependency on /repo/crux_core, feature `crux_verif`).
//! Each module serves one property; every harness name starts with the property id.
//! The same functions are the native replay of a counterexample (see `nd`, `bin/replay.rs`).

pub mod common;
pub mod nd;
pub mod script;

pub mod c01_quiescence;
pub mod c02_arity;
pub mod c04_primitives;
pub mod c05_hosting;
pub mod c06_cancel;
pub mod c07_done;
pub mod c08_threads;
pub mod c09_registry;
pub mod c13_tasks;
pub mod c17_kv;
pub mod c19_time;

/// Registry for the native replay binary.
#[cfg(not(kani))]
pub const HARNESSES: &[(&str, fn())] = &[
    ("c02_arity_typed", c02_arity::c02_arity_typed),
    ("c02_arity_serialized_a", c09_registry::c02_arity_serialized_a),
    ("c02_arity_serialized_b", c09_registry::c02_arity_serialized_b),
    ("c02_arity_serialized_c", c09_registry::c02_arity_serialized_c),
    ("c04_done_event", c04_primitives::c04_done_event),
    ("c04_notify", c04_primitives::c04_notify),
    ("c04_probe_map_event", c04_primitives::c04_probe_map_event),
    ("c04_probe_then_unit", c04_primitives::c04_probe_then_unit),
    ("c04_probe_and", c04_primitives::c04_probe_and),
    ("c06_task_abort_a", c06_cancel::c06_task_abort_a),
    ("c06_task_abort_b", c06_cancel::c06_task_abort_b),
    ("c06_command_abort_a", c06_cancel::c06_command_abort_a),
    ("c06_command_abort_b", c06_cancel::c06_command_abort_b),
    ("c06_aborted_stream_ends", c06_cancel::c06_aborted_stream_ends),
    ("c06_all_child_abort", c06_cancel::c06_all_child_abort),
    ("c06_abort_from_task_root", c06_cancel::c06_abort_from_task_root),
    ("c06_abort_from_task_spawned", c06_cancel::c06_abort_from_task_spawned),
    ("c09_routing_q1", c09_registry::c09_routing_q1),
    ("c09_routing_q2", c09_registry::c09_routing_q2),
    ("c09_routing_t1", c09_registry::c09_routing_t1),
    ("c09_routing_t2", c09_registry::c09_routing_t2),
    ("c09_routing_t3", c09_registry::c09_routing_t3),
    ("c09_routing_t4", c09_registry::c09_routing_t4),
    ("c09_routing_t5", c09_registry::c09_routing_t5),
    ("c12_bad_response_minimal", c09_registry::c12_bad_response_minimal),
    ("c12_bad_response_a", c09_registry::c12_bad_response_a),
    ("c12_bad_response_a2", c09_registry::c12_bad_response_a2),
    ("c12_bad_response_b2", c09_registry::c12_bad_response_b2),
    ("c12_bad_response_b", c09_registry::c12_bad_response_b),
    ("c13_registry_forgets_answered", c09_registry::c13_registry_forgets_answered),
    ("c13_registry_forgets_finished_stream", c09_registry::c13_registry_forgets_finished_stream),
    ("c13_registry_forgets_notification", c09_registry::c13_registry_forgets_notification),
    ("c13_registry_forgets_rejected_notification", c09_registry::c13_registry_forgets_rejected_notification),
    ("c17_unwrap_value_ops", c17_kv::c17_unwrap_value_ops),
    ("c17_unwrap_exists_list", c17_kv::c17_unwrap_exists_list),
    ("c17_value_conversions", c17_kv::c17_value_conversions),
    ("c13_command_drop_releases", c13_tasks::c13_command_drop_releases),
    ("c13_executor_drop_releases", c13_tasks::c13_executor_drop_releases),
    ("c13_capability_executor_a", c13_tasks::c13_capability_executor_a),
    ("c13_capability_executor_b", c13_tasks::c13_capability_executor_b),
    ("c17_wire_ops_set_empty", c17_kv::c17_wire_ops_set_empty),
    ("c17_wire_ops_set_bytes", c17_kv::c17_wire_ops_set_bytes),
    ("c17_wire_ops_set_more", c17_kv::c17_wire_ops_set_more),
    ("c17_wire_ops_get_list", c17_kv::c17_wire_ops_get_list),
    ("c17_wire_results", c17_kv::c17_wire_results),
    ("c12_response_bytes_0", c09_registry::c12_response_bytes_0),
    ("c12_response_bytes_1", c09_registry::c12_response_bytes_1),
    ("c12_response_bytes_3", c09_registry::c12_response_bytes_3),
    ("c19_k_constructors", c19_time::c19_k_constructors),
    ("c19_k_std_to_dur", c19_time::c19_k_std_to_dur),
    ("c19_k_td_to_dur", c19_time::c19_k_td_to_dur),
    ("c19_k_inst_to_dt_rejects", c19_time::c19_k_inst_to_dt_rejects),
    ("c07_evict_iff", c07_done::c07_evict_iff),
    ("c07_settle_q1", c07_done::c07_settle_q1),
    ("c07_settle_q2", c07_done::c07_settle_q2),
    ("c07_settle_t1", c07_done::c07_settle_t1),
    ("c07_settle_t2", c07_done::c07_settle_t2),
    ("c07_settle_t3", c07_done::c07_settle_t3),
    ("c07_settle_t4", c07_done::c07_settle_t4),
    ("c07_settle_t5", c07_done::c07_settle_t5),
    ("c07_settle_t6", c07_done::c07_settle_t6),
    ("c07_settle_t7", c07_done::c07_settle_t7),
    ("c07_settle_t8", c07_done::c07_settle_t8),
    ("c07_settle_t9", c07_done::c07_settle_t9),
    ("c07_settle_t10", c07_done::c07_settle_t10),
    ("c07_kept_alive_by_other_task", c07_done::c07_kept_alive_by_other_task),
    ("c07_join_handle_wakes", c07_done::c07_join_handle_wakes),
    ("c07_two_woken_tasks", c07_done::c07_two_woken_tasks),
    ("c07_spawn_abort_join", c07_done::c07_spawn_abort_join),
    ("c07_stale_registration", c07_done::c07_stale_registration),
    ("c01_settle_quiescent_a", c01_quiescence::c01_settle_quiescent_a),
    ("c01_settle_quiescent_b", c01_quiescence::c01_settle_quiescent_b),
    ("c01_settle_quiescent_c", c01_quiescence::c01_settle_quiescent_c),
    ("c01_stream_handover", c01_quiescence::c01_stream_handover),
    ("c01_run_all_quiescent", c01_quiescence::c01_run_all_quiescent),
    ("c01_run_all_resumed_spawns", c01_quiescence::c01_run_all_resumed_spawns),
    ("c05_hosting_a", c05_hosting::c05_hosting_a),
    ("c05_hosting_b", c05_hosting::c05_hosting_b),
    ("c05_hosting_deep_a", c05_hosting::c05_hosting_deep_a),
    ("c05_hosting_deep_b", c05_hosting::c05_hosting_deep_b),
    ("c05_hosting_byref", c05_hosting::c05_hosting_byref),
    ("c05_hosting_deep_byref", c05_hosting::c05_hosting_deep_byref),
    ("c08_evict_race_q1", c08_threads::c08_evict_race_q1),
    ("c08_evict_race_q2", c08_threads::c08_evict_race_q2),
    ("c08_evict_race_t1", c08_threads::c08_evict_race_t1),
    ("c08_evict_race_t2", c08_threads::c08_evict_race_t2),
    ("c08_waker_steps", c08_threads::c08_waker_steps),
    ("c08_stream_host_wake", c08_threads::c08_stream_host_wake),
    ("c08_capability_executor", c08_threads::c08_capability_executor),
    ("c08_host_reacts_at_once", c08_threads::c08_host_reacts_at_once),
];

#[cfg(all(test, feature = "validate_models"))]
mod model_validation;

#[cfg(all(test, not(kani)))]
mod c08_real;

#[cfg(test)]
mod selftest {
    /// Every harness must pass natively (real dependencies) on a spread of concrete inputs that
    /// satisfy its assumptions: guards against harness bugs and model/real divergence.
    #[test]
    fn harnesses_pass_natively_on_sample_inputs() {
        // prints one `SELFTEST-FAIL <harness> seed=<n>` line per harness that panics natively; the
        // driver compares these with the solver's verdicts (a native failure the solver does not
        // report means the models/stubs diverge from the real build)
        std::panic::set_hook(Box::new(|_| {}));
        let mut ran = 0usize;
        for (name, f) in super::HARNESSES {
            let mut failed = false;
            // 1024 fixed patterns + 256 pseudo-random ones drawn from VERIF_SEED
            let base: u64 = std::env::var("VERIF_SEED").ok().and_then(|v| v.parse().ok()).unwrap_or(0);
            let mut lcg = base.wrapping_mul(6364136223846793005).wrapping_add(1442695040888963407);
            for seed in 0u32..1280 {
                // first value (the case selector of dispatch harnesses) sweeps 0..=255, the others
                // follow four bit patterns; beyond 1024 every value is pseudo-random
                let v0 = (seed & 255) as u8;
                let pat = seed >> 8;
                let vals: Vec<Vec<u8>> = (0..24)
                    .map(|i| {
                        let b = if i == 0 {
                            v0
                        } else {
                            match pat {
                                0 => 0,
                                1 => 1,
                                2 => (i % 2) as u8,
                                3 => ((i + 1) % 2) as u8,
                                _ => {
                                    lcg = lcg.wrapping_mul(6364136223846793005).wrapping_add(1442695040888963407);
                                    (lcg >> 33) as u8
                                }
                            }
                        };
                        let mut bytes = vec![b, 0, 0, 0, 0, 0, 0, 0];
                        if pat >= 4 && i > 0 {
                            // wide values (u64 cursors etc.) get random high bytes too
                            for x in bytes.iter_mut().skip(1) {
                                lcg = lcg.wrapping_mul(6364136223846793005).wrapping_add(1442695040888963407);
                                *x = (lcg >> 33) as u8;
                            }
                        }
                        bytes
                    })
                    .collect();
                super::nd::load(vals);
                let r = std::panic::catch_unwind(f);
                match r {
                    Ok(()) => ran += 1,
                    Err(p) => {
                        if p.downcast_ref::<&str>() == Some(&super::nd::ASSUME_VIOLATED) {
                            continue;
                        }
                        if !failed {
                            println!("SELFTEST-FAIL {name} seed={seed}");
                        }
                        failed = true;
                    }
                }
            }
        }
        println!("SELFTEST-RAN {ran}");
        assert!(ran > 0);
    }
}
