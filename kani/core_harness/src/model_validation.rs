//! Differential validation of the dependency models used under Kani against the real crates
//! (compiled only in the native replay crate, feature `validate_models`): every operation sequence
//! up to a small length must be observably identical.

#[test]
fn slab_model_matches_real_slab() {
    // ops: 0..=3 remove(k), 4 insert, 5 clear, 6 vacant_key, 7 get(1)
    const OPS: usize = 8;
    const LEN: u32 = 6;
    let mut seqs = 0u32;
    for code in 0..(OPS as u32).pow(LEN) {
        let mut real: slab::Slab<u32> = slab::Slab::new();
        let mut model: slab_model::Slab<u32> = slab_model::Slab::new();
        let mut c = code;
        for step in 0..LEN {
            let op = c % OPS as u32;
            c /= OPS as u32;
            match op {
                0..=3 => {
                    let k = op as usize;
                    assert_eq!(real.try_remove(k), model.try_remove(k), "try_remove in {code}");
                }
                4 => assert_eq!(real.insert(step), model.insert(step), "insert key in {code}"),
                5 => {
                    real.clear();
                    model.clear();
                }
                6 => assert_eq!(real.vacant_key(), model.vacant_key(), "vacant_key in {code}"),
                _ => assert_eq!(real.get(1), model.get(1), "get in {code}"),
            }
            assert_eq!(real.len(), model.len(), "len in {code}");
            assert_eq!(real.is_empty(), model.is_empty());
            for k in 0..5 {
                assert_eq!(real.contains(k), model.contains(k), "contains({k}) in {code}");
            }
            let a: Vec<(usize, u32)> = real.iter().map(|(k, v)| (k, *v)).collect();
            let b: Vec<(usize, u32)> = model.iter().map(|(k, v)| (k, *v)).collect();
            assert_eq!(a, b, "iteration order in {code}");
        }
        seqs += 1;
    }
    assert_eq!(seqs, 262_144);
}

#[test]
fn channel_model_matches_real_crossbeam() {
    // ops: 0 send, 1 try_recv, 2 clone a sender, 3 drop a sender, 4 len/is_empty, 5 drop the receiver (ends the run with a send)
    const OPS: u32 = 6;
    const LEN: u32 = 7;
    for code in 0..OPS.pow(LEN) {
        let (rs, rr) = crossbeam_channel::unbounded::<u32>();
        let (ms, mr) = crossbeam_model::unbounded::<u32>();
        let (mut rs, mut ms) = (vec![rs], vec![ms]);
        let (mut rr, mut mr) = (Some(rr), Some(mr));
        let mut c = code;
        for step in 0..LEN {
            let op = c % OPS;
            c /= OPS;
            match op {
                0 => {
                    if let (Some(a), Some(b)) = (rs.first(), ms.first()) {
                        assert_eq!(a.send(step).is_ok(), b.send(step).is_ok(), "send in {code}");
                    }
                }
                1 => {
                    if let (Some(a), Some(b)) = (&rr, &mr) {
                        let x = a.try_recv().map_err(|e| format!("{e:?}"));
                        let y = b.try_recv().map_err(|e| format!("{e:?}"));
                        assert_eq!(x, y, "try_recv in {code}");
                    }
                }
                2 => {
                    if let (Some(a), Some(b)) = (rs.first().cloned(), ms.first().cloned()) {
                        rs.push(a);
                        ms.push(b);
                    }
                }
                3 => {
                    rs.pop();
                    ms.pop();
                }
                4 => {
                    if let (Some(a), Some(b)) = (&rr, &mr) {
                        assert_eq!(a.len(), b.len(), "len in {code}");
                        assert_eq!(a.is_empty(), b.is_empty());
                        let x: Vec<u32> = Vec::new();
                        let _ = x;
                    }
                }
                _ => {
                    rr = None;
                    mr = None;
                    if let (Some(a), Some(b)) = (rs.first(), ms.first()) {
                        assert_eq!(a.send(99).is_ok(), b.send(99).is_ok(), "send after receiver drop in {code}");
                    }
                }
            }
        }
        // drain: same remaining messages in the same order
        if let (Some(a), Some(b)) = (&rr, &mr) {
            let x: Vec<u32> = a.try_iter().collect();
            let y: Vec<u32> = b.try_iter().collect();
            assert_eq!(x, y, "drain in {code}");
        }
    }
}
