//! Nondeterministic inputs that are symbolic under Kani and read from a recorded counterexample in
//! a native build, so that the *same* harness function is the symbolic obligation and the native
//! replay of a counterexample (against the real dependencies, no models, no stubs).
//!
//! Native encoding = Kani's concrete-playback encoding: one little-endian byte vector per
//! primitive `any()` call, in execution order.

#[cfg(not(kani))]
mod native {
    use std::cell::RefCell;
    thread_local! {
        static VALS: RefCell<(Vec<Vec<u8>>, usize)> = const { RefCell::new((Vec::new(), 0)) };
    }
    pub fn load(vals: Vec<Vec<u8>>) {
        VALS.with(|v| *v.borrow_mut() = (vals, 0));
    }
    pub fn next<const N: usize>() -> [u8; N] {
        VALS.with(|v| {
            let mut v = v.borrow_mut();
            let i = v.1;
            v.1 += 1;
            let mut out = [0u8; N];
            if let Some(bytes) = v.0.get(i) {
                for (o, b) in out.iter_mut().zip(bytes.iter()) {
                    *o = *b;
                }
            }
            out
        })
    }
    pub fn consumed() -> (usize, usize) {
        VALS.with(|v| {
            let v = v.borrow();
            (v.1, v.0.len())
        })
    }
}
#[cfg(not(kani))]
pub use native::{consumed, load};

/// Marker payload for "the recorded values do not satisfy the harness's assumptions".
pub const ASSUME_VIOLATED: &str = "ND-ASSUME-VIOLATED";

macro_rules! any_int {
    ($name:ident, $t:ty, $n:expr) => {
        #[inline(never)]
        pub fn $name() -> $t {
            #[cfg(kani)]
            {
                kani::any()
            }
            #[cfg(not(kani))]
            {
                <$t>::from_le_bytes(native::next::<$n>())
            }
        }
    };
}
any_int!(any_u8, u8, 1);
any_int!(any_u16, u16, 2);
any_int!(any_u32, u32, 4);
any_int!(any_u64, u64, 8);
any_int!(any_i64, i64, 8);
any_int!(any_i32, i32, 4);
any_int!(any_usize, usize, 8);

pub fn any_bool() -> bool {
    #[cfg(kani)]
    {
        kani::any()
    }
    #[cfg(not(kani))]
    {
        native::next::<1>()[0] & 1 == 1
    }
}

pub fn any_u8_le(max: u8) -> u8 {
    let v = any_u8();
    assume(v <= max);
    v
}

pub fn assume(cond: bool) {
    #[cfg(kani)]
    kani::assume(cond);
    #[cfg(not(kani))]
    if !cond {
        std::panic::panic_any(ASSUME_VIOLATED);
    }
}

/// Reachability witness (vacuity guard): under Kani a `cover!`, natively nothing.
#[macro_export]
macro_rules! nd_cover {
    ($cond:expr, $msg:literal) => {{
        #[cfg(kani)]
        kani::cover!($cond, $msg);
        #[cfg(not(kani))]
        {
            let _ = $cond;
        }
    }};
}
