//! scratch feasibility probes (not part of any check)
#![allow(dead_code)]
use std::future::Future;
use std::pin::Pin;
use std::sync::atomic::{AtomicU8, Ordering};
use std::sync::Arc;
use std::task::{Context, Poll, Waker};

use crux_core::command::verif_hooks::{self as hooks, PollOutcome};
use crux_core::Command;

use crate::nd;

pub struct S1 {
    wake_by_ref: bool,
    clone_wake: bool,
    ready: bool,
    polls: Arc<AtomicU8>,
}
impl Future for S1 {
    type Output = ();
    fn poll(self: Pin<&mut Self>, cx: &mut Context<'_>) -> Poll<()> {
        let this = self.get_mut();
        let n = this.polls.load(Ordering::SeqCst);
        this.polls.store(n + 1, Ordering::SeqCst);
        if this.wake_by_ref {
            cx.waker().wake_by_ref();
        }
        if this.clone_wake {
            cx.waker().clone().wake();
        }
        if this.ready {
            Poll::Ready(())
        } else {
            Poll::Pending
        }
    }
}

fn run1(wake_by_ref: bool, clone_wake: bool, ready: bool) {
    let polls = Arc::new(AtomicU8::new(0));
    let p2 = polls.clone();
    let mut cmd: Command<u8, u8> = Command::new(move |_ctx| S1 { wake_by_ref, clone_wake, ready, polls: p2 });
    assert!(hooks::ready_pop(&mut cmd) == Some(0));
    let out = hooks::run_task(&mut cmd, 0);
    let expect = if ready {
        PollOutcome::Completed
    } else if wake_by_ref || clone_wake {
        PollOutcome::Suspended
    } else {
        PollOutcome::Cancelled
    };
    assert!(out == expect);
    assert!(polls.load(Ordering::SeqCst) == 1);
    std::mem::forget(cmd);
}

#[cfg_attr(kani, kani::proof, kani::unwind(4))]
#[cfg_attr(kani, kani::stub(core::mem::MaybeUninit::write, crate::common::maybe_uninit_write))]
pub fn p1_wake_ready() {
    run1(nd::any_bool(), false, nd::any_bool());
}

#[cfg_attr(kani, kani::proof, kani::unwind(4))]
#[cfg_attr(kani, kani::stub(core::mem::MaybeUninit::write, crate::common::maybe_uninit_write))]
pub fn p2_clone_wake() {
    run1(nd::any_bool(), nd::any_bool(), nd::any_bool());
}

/// keeps a waker clone in itself
pub struct S3 {
    keep: bool,
    ready: bool,
    kept: Option<Waker>,
}
impl Future for S3 {
    type Output = ();
    fn poll(self: Pin<&mut Self>, cx: &mut Context<'_>) -> Poll<()> {
        let this = self.get_mut();
        if this.keep {
            this.kept = Some(cx.waker().clone());
        }
        if this.ready {
            Poll::Ready(())
        } else {
            Poll::Pending
        }
    }
}

#[cfg_attr(kani, kani::proof, kani::unwind(4))]
#[cfg_attr(kani, kani::stub(core::mem::MaybeUninit::write, crate::common::maybe_uninit_write))]
pub fn p3_keep_self() {
    let keep = nd::any_bool();
    let ready = nd::any_bool();
    let mut cmd: Command<u8, u8> = Command::new(move |_ctx| S3 { keep, ready, kept: None });
    assert!(hooks::ready_pop(&mut cmd) == Some(0));
    let out = hooks::run_task(&mut cmd, 0);
    let expect = if ready {
        PollOutcome::Completed
    } else if keep {
        PollOutcome::Suspended
    } else {
        PollOutcome::Cancelled
    };
    assert!(out == expect);
    std::mem::forget(cmd);
}

/// keeps a waker clone in a leaked raw cell (no drop glue path from the future to a Waker)
pub struct S4 {
    keep: bool,
    ready: bool,
    cell: *mut Option<Waker>,
}
unsafe impl Send for S4 {}
impl Future for S4 {
    type Output = ();
    fn poll(self: Pin<&mut Self>, cx: &mut Context<'_>) -> Poll<()> {
        let this = self.get_mut();
        if this.keep {
            unsafe { *this.cell = Some(cx.waker().clone()) };
        }
        if this.ready {
            Poll::Ready(())
        } else {
            Poll::Pending
        }
    }
}

#[cfg_attr(kani, kani::proof, kani::unwind(4))]
#[cfg_attr(kani, kani::stub(core::mem::MaybeUninit::write, crate::common::maybe_uninit_write))]
pub fn p4_keep_raw() {
    let keep = nd::any_bool();
    let ready = nd::any_bool();
    let cell: *mut Option<Waker> = Box::into_raw(Box::new(None));
    let c = SendPtr(cell);
    let mut cmd: Command<u8, u8> = Command::new(move |_ctx| {
        let c = c;
        S4 { keep, ready, cell: c.0 }
    });
    assert!(hooks::ready_pop(&mut cmd) == Some(0));
    let out = hooks::run_task(&mut cmd, 0);
    let expect = if ready {
        PollOutcome::Completed
    } else if keep {
        PollOutcome::Suspended
    } else {
        PollOutcome::Cancelled
    };
    assert!(out == expect);
    std::mem::forget(cmd);
}

pub struct SendPtr(pub *mut Option<Waker>);
unsafe impl Send for SendPtr {}

// ---------------------------------------------------------------- feature bisect
use crate::script::{Ctx, Probe, Slot};

/// F bits: 1 = Drop impl flag, 2 = owns ctx + symbolic effect/event, 4 = keep_self (concrete true),
/// 8 = keep in Arc<Slot> (concrete true), 16 = `kept = None` at poll start, 32 = steps array
pub struct SX<const F: u8> {
    wake_by_ref: bool,
    clone_wake: bool,
    ready: bool,
    effect: bool,
    event: bool,
    probe: Arc<Probe>,
    kept: Option<Waker>,
    slot: Option<Arc<Slot>>,
    ctx: Option<Ctx>,
}
impl<const F: u8> Drop for SX<F> {
    fn drop(&mut self) {
        if F & 1 != 0 {
            self.probe.dropped.store(true, Ordering::SeqCst);
        }
    }
}
impl<const F: u8> Future for SX<F> {
    type Output = ();
    fn poll(self: Pin<&mut Self>, cx: &mut Context<'_>) -> Poll<()> {
        let this = self.get_mut();
        let n = this.probe.polls.load(Ordering::SeqCst);
        this.probe.polls.store(n + 1, Ordering::SeqCst);
        if F & 16 != 0 {
            this.kept = None;
        }
        if F & 2 != 0 {
            if this.effect {
                hooks::send_effect(this.ctx.as_ref().unwrap(), 5);
            }
            if this.event {
                this.ctx.as_ref().unwrap().send_event(6);
            }
        }
        if this.wake_by_ref {
            cx.waker().wake_by_ref();
        }
        if this.clone_wake {
            cx.waker().clone().wake();
        }
        if F & 4 != 0 {
            this.kept = Some(cx.waker().clone());
        }
        if F & 8 != 0 {
            this.slot.as_ref().unwrap().put(cx.waker().clone());
        }
        if this.ready {
            Poll::Ready(())
        } else {
            Poll::Pending
        }
    }
}

fn runx<const F: u8>() {
    let probe = Arc::new(Probe::default());
    let slot = Slot::new();
    let (wake_by_ref, clone_wake, ready, effect, event) =
        (nd::any_bool(), nd::any_bool(), nd::any_bool(), nd::any_bool(), nd::any_bool());
    let p2 = probe.clone();
    let s2 = slot.clone();
    let mut cmd: Command<u8, u8> = Command::new(move |ctx| SX::<F> {
        wake_by_ref,
        clone_wake,
        ready,
        effect,
        event,
        probe: p2,
        kept: None,
        slot: if F & 8 != 0 { Some(s2) } else { None },
        ctx: if F & 2 != 0 { Some(ctx) } else { None },
    });
    assert!(hooks::ready_pop(&mut cmd) == Some(0));
    let out = hooks::run_task(&mut cmd, 0);
    let expect = if ready {
        PollOutcome::Completed
    } else if wake_by_ref || clone_wake || F & 12 != 0 {
        PollOutcome::Suspended
    } else {
        PollOutcome::Cancelled
    };
    assert!(out == expect);
    assert!(probe.polls() == 1);
    std::mem::forget((cmd, probe, slot));
}

macro_rules! px {
    ($name:ident, $f:literal) => {
        #[cfg_attr(kani, kani::proof, kani::unwind(4))]
        #[cfg_attr(kani, kani::stub(core::mem::MaybeUninit::write, crate::common::maybe_uninit_write))]
        pub fn $name() {
            runx::<$f>();
        }
    };
}
px!(px_0, 0);
px!(px_1, 1);
px!(px_2, 2);
px!(px_4, 4);
px!(px_8, 8);
px!(px_16, 16);
px!(px_20, 20);
px!(px_31, 31);

// ---------------------------------------------------------------- enum-free waker storage
/// G bits: 1 = reset kept at poll start, 2 = keep_self concrete, 4 = keep in slot cell (concrete)
pub struct SY<const G: u8> {
    wake_by_ref: bool,
    clone_wake: bool,
    ready: bool,
    probe: Arc<Probe>,
    kept: Waker,
    cell: Arc<WCell>,
}
pub struct WCell(std::cell::UnsafeCell<Waker>);
unsafe impl Send for WCell {}
unsafe impl Sync for WCell {}

impl<const G: u8> Future for SY<G> {
    type Output = ();
    fn poll(self: Pin<&mut Self>, cx: &mut Context<'_>) -> Poll<()> {
        let this = self.get_mut();
        let n = this.probe.polls.load(Ordering::SeqCst);
        this.probe.polls.store(n + 1, Ordering::SeqCst);
        if G & 1 != 0 {
            this.kept = Waker::noop().clone();
        }
        if this.wake_by_ref {
            cx.waker().wake_by_ref();
        }
        if this.clone_wake {
            cx.waker().clone().wake();
        }
        if G & 2 != 0 {
            this.kept = cx.waker().clone();
        }
        if G & 4 != 0 {
            unsafe { *this.cell.0.get() = cx.waker().clone() };
        }
        if this.ready {
            Poll::Ready(())
        } else {
            Poll::Pending
        }
    }
}

fn runy<const G: u8>() {
    let probe = Arc::new(Probe::default());
    let cell = Arc::new(WCell(std::cell::UnsafeCell::new(Waker::noop().clone())));
    let (wake_by_ref, clone_wake, ready) = (nd::any_bool(), nd::any_bool(), nd::any_bool());
    let p2 = probe.clone();
    let c2 = cell.clone();
    let mut cmd: Command<u8, u8> = Command::new(move |_ctx| SY::<G> {
        wake_by_ref,
        clone_wake,
        ready,
        probe: p2,
        kept: Waker::noop().clone(),
        cell: c2,
    });
    assert!(hooks::ready_pop(&mut cmd) == Some(0));
    let out = hooks::run_task(&mut cmd, 0);
    let expect = if ready {
        PollOutcome::Completed
    } else if wake_by_ref || clone_wake || G & 6 != 0 {
        PollOutcome::Suspended
    } else {
        PollOutcome::Cancelled
    };
    assert!(out == expect);
    assert!(probe.polls() == 1);
    std::mem::forget((cmd, probe, cell));
}

macro_rules! py {
    ($name:ident, $f:literal) => {
        #[cfg_attr(kani, kani::proof, kani::unwind(4))]
        #[cfg_attr(kani, kani::stub(core::mem::MaybeUninit::write, crate::common::maybe_uninit_write))]
        pub fn $name() {
            runy::<$f>();
        }
    };
}
py!(py_0, 0);
py!(py_1, 1);
py!(py_2, 2);
py!(py_3, 3);
py!(py_4, 4);
py!(py_7, 7);

// ---------------------------------------------------------------- micro probes (no crux)
struct Holder {
    flag: bool,
    w: Waker,
}

#[cfg_attr(kani, kani::proof, kani::unwind(4))]
pub fn m1_box_waker_drop() {
    let b = Box::new(Waker::noop().clone());
    drop(b);
}

#[cfg_attr(kani, kani::proof, kani::unwind(4))]
pub fn m2_box_holder_symbolic_flag() {
    let b = Box::new(Holder { flag: nd::any_bool(), w: Waker::noop().clone() });
    assert!(b.flag || !b.flag);
    drop(b);
}

#[cfg_attr(kani, kani::proof, kani::unwind(4))]
pub fn m3_arc_cell_replace() {
    let cell = Arc::new(WCell(std::cell::UnsafeCell::new(Waker::noop().clone())));
    unsafe { *cell.0.get() = Waker::noop().clone() };
    std::mem::forget(cell);
}

#[cfg_attr(kani, kani::proof, kani::unwind(4))]
pub fn m4_dyn_future_holder() {
    // a boxed dyn future that owns a waker and replaces it in poll
    struct F(Waker, bool);
    impl Future for F {
        type Output = ();
        fn poll(self: Pin<&mut Self>, _cx: &mut Context<'_>) -> Poll<()> {
            let this = self.get_mut();
            this.0 = Waker::noop().clone();
            if this.1 { Poll::Ready(()) } else { Poll::Pending }
        }
    }
    let mut f: Pin<Box<dyn Future<Output = ()> + Send>> = Box::pin(F(Waker::noop().clone(), nd::any_bool()));
    let mut cx = Context::from_waker(Waker::noop());
    let _ = f.as_mut().poll(&mut cx);
    std::mem::forget(f);
}

#[cfg_attr(kani, kani::proof, kani::unwind(4))]
pub fn m5_arcwake_in_box() {
    // the waker is a real Arc-based waker (like CommandWaker), stored in a box and dropped
    struct W(AtomicU8);
    impl std::task::Wake for W {
        fn wake(self: Arc<Self>) {
            self.0.store(1, Ordering::SeqCst);
        }
    }
    let w: Waker = Arc::new(W(AtomicU8::new(0))).into();
    let b = Box::new(Holder { flag: nd::any_bool(), w });
    b.w.wake_by_ref();
    drop(b);
}

// ---------------------------------------------------------------- toward Script
use crate::script::Step;
/// H bits: 1 = built by a `new` fn, 2 = three Step fields used for behaviour, 4 = symbolic tag,
/// 8 = wake_slot/drop_slot code present, 16 = dispatch over 2 instances
pub struct SZ<const H: u8> {
    s0: Step,
    s1: Step,
    s2: Step,
    probe: Arc<Probe>,
    kept: Option<Waker>,
    slot: Arc<Slot>,
    ctx: Ctx,
    tag: u8,
}
impl<const H: u8> Drop for SZ<H> {
    fn drop(&mut self) {
        self.probe.dropped.store(true, Ordering::SeqCst);
    }
}
impl<const H: u8> SZ<H> {
    fn new(s0: Step, probe: &Arc<Probe>, slot: &Arc<Slot>, ctx: Ctx, tag: u8) -> Self {
        SZ { s0, s1: Step::pending(), s2: Step::pending(), probe: probe.clone(), kept: None, slot: slot.clone(), ctx, tag }
    }
}
impl<const H: u8> Future for SZ<H> {
    type Output = ();
    fn poll(self: Pin<&mut Self>, cx: &mut Context<'_>) -> Poll<()> {
        let this = self.get_mut();
        let n = this.probe.polls.load(Ordering::SeqCst);
        this.probe.polls.store(n + 1, Ordering::SeqCst);
        let step = if H & 2 != 0 {
            match n {
                0 => this.s0,
                1 => this.s1,
                2 => this.s2,
                _ => Step::pending(),
            }
        } else {
            this.s0
        };
        this.kept = None;
        if H & 8 != 0 {
            if step.wake_slot {
                if let Some(w) = this.slot.take() {
                    w.wake();
                }
            }
            if step.drop_slot {
                drop(this.slot.take());
            }
        }
        if step.effect {
            hooks::send_effect(&this.ctx, this.tag);
        }
        if step.event {
            this.ctx.send_event(this.tag);
        }
        if step.wake_by_ref {
            cx.waker().wake_by_ref();
        }
        if step.clone_wake {
            cx.waker().clone().wake();
        }
        if step.keep_self {
            this.kept = Some(cx.waker().clone());
        }
        if step.keep_slot {
            this.slot.put(cx.waker().clone());
        }
        if step.ready {
            Poll::Ready(())
        } else {
            Poll::Pending
        }
    }
}

fn runz<const H: u8, const KEEP: u8>() {
    let probe = Arc::new(Probe::default());
    let slot = Slot::new();
    let s0 = Step {
        wake_by_ref: nd::any_bool(),
        clone_wake: nd::any_bool(),
        keep_self: KEEP & 1 != 0,
        keep_slot: KEEP & 2 != 0,
        effect: nd::any_bool(),
        event: nd::any_bool(),
        ready: nd::any_bool(),
        ..Step::pending()
    };
    let tag = if H & 4 != 0 { nd::any_u8() } else { 9 };
    let (p2, s2) = (probe.clone(), slot.clone());
    let mut cmd: Command<u8, u8> = if H & 1 != 0 {
        Command::new(move |ctx| SZ::<H>::new(s0, &p2, &s2, ctx, tag))
    } else {
        Command::new(move |ctx| SZ::<H> { s0, s1: Step::pending(), s2: Step::pending(), probe: p2, kept: None, slot: s2, ctx, tag })
    };
    assert!(hooks::ready_pop(&mut cmd) == Some(0));
    let out = hooks::run_task(&mut cmd, 0);
    let expect = if s0.ready {
        PollOutcome::Completed
    } else if s0.self_woken() || s0.registered() {
        PollOutcome::Suspended
    } else {
        PollOutcome::Cancelled
    };
    assert!(out == expect);
    assert!(probe.polls() == 1);
    std::mem::forget((cmd, probe, slot));
}

macro_rules! pz {
    ($name:ident, $h:literal, $k:literal) => {
        #[cfg_attr(kani, kani::proof, kani::unwind(4))]
        #[cfg_attr(kani, kani::stub(core::mem::MaybeUninit::write, crate::common::maybe_uninit_write))]
        pub fn $name() {
            runz::<$h, $k>();
        }
    };
}
pz!(pz_0, 0, 3);
pz!(pz_1, 1, 3);
pz!(pz_2, 2, 3);
pz!(pz_4, 4, 3);
pz!(pz_8, 8, 3);
pz!(pz_15, 15, 3);
pz!(pz_15_k0, 15, 0);

#[cfg_attr(kani, kani::proof, kani::unwind(4))]
#[cfg_attr(kani, kani::stub(core::mem::MaybeUninit::write, crate::common::maybe_uninit_write))]
pub fn pz_dispatch() {
    let k = nd::any_u8_le(1);
    match k {
        0 => runz::<15, 0>(),
        1 => runz::<15, 3>(),
        _ => nd::assume(false),
    }
}

// ---------------------------------------------------------------- px_31 -> SZ bisect
/// J bits: 1 = extra unused Step fields, 2 = behaviour bools grouped in a Step field copied out in poll,
/// 4 = non-Option slot/ctx, 8 = Step field read in place (no copy)
pub struct SW<const J: u8> {
    wake_by_ref: bool,
    clone_wake: bool,
    ready: bool,
    effect: bool,
    event: bool,
    st: Step,
    x1: Step,
    x2: Step,
    probe: Arc<Probe>,
    kept: Option<Waker>,
    slot: Option<Arc<Slot>>,
    ctx: Option<Ctx>,
    slot2: Arc<Slot>,
    ctx2: Ctx,
}
impl<const J: u8> Drop for SW<J> {
    fn drop(&mut self) {
        self.probe.dropped.store(true, Ordering::SeqCst);
    }
}
impl<const J: u8> Future for SW<J> {
    type Output = ();
    fn poll(self: Pin<&mut Self>, cx: &mut Context<'_>) -> Poll<()> {
        let this = self.get_mut();
        let n = this.probe.polls.load(Ordering::SeqCst);
        this.probe.polls.store(n + 1, Ordering::SeqCst);
        this.kept = None;
        let (wbr, cw, rdy, eff, evt) = if J & 2 != 0 {
            let s = this.st;
            (s.wake_by_ref, s.clone_wake, s.ready, s.effect, s.event)
        } else if J & 8 != 0 {
            (this.st.wake_by_ref, this.st.clone_wake, this.st.ready, this.st.effect, this.st.event)
        } else {
            (this.wake_by_ref, this.clone_wake, this.ready, this.effect, this.event)
        };
        let ctx = if J & 4 != 0 { &this.ctx2 } else { this.ctx.as_ref().unwrap() };
        if eff {
            hooks::send_effect(ctx, 5);
        }
        if evt {
            ctx.send_event(6);
        }
        if wbr {
            cx.waker().wake_by_ref();
        }
        if cw {
            cx.waker().clone().wake();
        }
        this.kept = Some(cx.waker().clone());
        if J & 4 != 0 {
            this.slot2.put(cx.waker().clone());
        } else {
            this.slot.as_ref().unwrap().put(cx.waker().clone());
        }
        if rdy {
            Poll::Ready(())
        } else {
            Poll::Pending
        }
    }
}

fn runw<const J: u8>() {
    let probe = Arc::new(Probe::default());
    let slot = Slot::new();
    let (wake_by_ref, clone_wake, ready, effect, event) =
        (nd::any_bool(), nd::any_bool(), nd::any_bool(), nd::any_bool(), nd::any_bool());
    let st = Step { wake_by_ref, clone_wake, ready, effect, event, ..Step::pending() };
    let p2 = probe.clone();
    let s2 = slot.clone();
    let s3 = slot.clone();
    let mut cmd: Command<u8, u8> = Command::new(move |ctx| SW::<J> {
        wake_by_ref,
        clone_wake,
        ready,
        effect,
        event,
        st,
        x1: Step::pending(),
        x2: Step::pending(),
        probe: p2,
        kept: None,
        slot: Some(s2),
        ctx: Some(ctx.clone()),
        slot2: s3,
        ctx2: ctx,
    });
    assert!(hooks::ready_pop(&mut cmd) == Some(0));
    let out = hooks::run_task(&mut cmd, 0);
    let expect = if ready { PollOutcome::Completed } else { PollOutcome::Suspended };
    assert!(out == expect);
    assert!(probe.polls() == 1);
    std::mem::forget((cmd, probe, slot));
}

macro_rules! pw {
    ($name:ident, $f:literal) => {
        #[cfg_attr(kani, kani::proof, kani::unwind(4))]
        #[cfg_attr(kani, kani::stub(core::mem::MaybeUninit::write, crate::common::maybe_uninit_write))]
        pub fn $name() {
            runw::<$f>();
        }
    };
}
pw!(pw_0, 0);
pw!(pw_2, 2);
pw!(pw_4, 4);
pw!(pw_8, 8);

// ---------------------------------------------------------------- real request future
use crate::common::Op;
pub enum Eff {
    Op(crux_core::Request<Op>),
}
impl From<crux_core::Request<Op>> for Eff {
    fn from(r: crux_core::Request<Op>) -> Self {
        Eff::Op(r)
    }
}

#[cfg_attr(kani, kani::proof, kani::unwind(5))]
#[cfg_attr(kani, kani::stub(core::mem::MaybeUninit::write, crate::common::maybe_uninit_write))]
pub fn pr_request_roundtrip() {
    let mut cmd: Command<Eff, u8> = Command::request_from_shell(Op(1)).then_send(|v| v);
    let first = cmd.effects().next();
    let Some(Eff::Op(mut req)) = first else { panic!("no effect") };
    let v = nd::any_u8();
    assert!(req.resolve(v).is_ok());
    let ev = cmd.events().next();
    assert!(ev == Some(v));
    assert!(cmd.is_done());
    std::mem::forget((cmd, req));
}

/// manual future instead of the builder chain: awaits one ShellRequest, sends the value as event
pub struct ReqTask {
    req: hooks::ShellRequest<u8>,
    ctx: crux_core::command::CommandContext<Eff, u8>,
}
impl Future for ReqTask {
    type Output = ();
    fn poll(self: Pin<&mut Self>, cx: &mut Context<'_>) -> Poll<()> {
        let this = self.get_mut();
        match Pin::new(&mut this.req).poll(cx) {
            Poll::Ready(v) => {
                this.ctx.send_event(v);
                Poll::Ready(())
            }
            Poll::Pending => Poll::Pending,
        }
    }
}

#[cfg_attr(kani, kani::proof, kani::unwind(5))]
#[cfg_attr(kani, kani::stub(core::mem::MaybeUninit::write, crate::common::maybe_uninit_write))]
pub fn pr_request_manual() {
    let mut cmd: Command<Eff, u8> = Command::new(|ctx| {
        let req = ctx.request_from_shell(Op(1));
        ReqTask { req, ctx }
    });
    let first = cmd.effects().next();
    let Some(Eff::Op(mut req)) = first else { panic!("no effect") };
    let v = nd::any_u8();
    assert!(req.resolve(v).is_ok());
    let ev = cmd.events().next();
    assert!(ev == Some(v));
    assert!(cmd.is_done());
    std::mem::forget((cmd, req));
}
