//! A task whose behaviour in every poll is chosen by the solver.
//!
//! `Script` is the harness-side future spawned on a real `Command`.  In each poll it performs a
//! symbolic combination of the things a future can do with the waker it is handed (wake it by
//! reference, clone-and-wake, keep a clone in itself, park a clone in a slot another task owns) and
//! with the command context (emit an effect / an event), then returns Ready or Pending.
//!
//! Contract assumed of a task (std's `Future::poll` contract): only the waker of the *most recent*
//! poll is entitled to a wake-up; wakers kept from earlier polls are dropped by the script at the
//! start of the next poll (`drop_stale`), the way `AtomicWaker::register` / channel receivers replace
//! the previously registered waker.

use std::cell::UnsafeCell;
use std::future::Future;
use std::pin::Pin;
use std::sync::atomic::{AtomicBool, AtomicU8, Ordering};
use std::sync::Arc;
use std::task::{Context, Poll, Waker};

use crux_core::command::verif_hooks as hooks;
use crux_core::command::CommandContext;
use crux_core::Command;

use crate::nd;

pub type Cmd = Command<u8, u8>;
pub type Ctx = CommandContext<u8, u8>;

/// What a script does in one poll.
#[derive(Clone, Copy, Default)]
pub struct Step {
    pub wake_by_ref: bool,
    pub clone_wake: bool,
    pub keep_self: bool,
    pub keep_slot: bool,
    /// take the waker parked in the shared slot (by any task) and wake it
    pub wake_slot: bool,
    /// take the waker parked in the shared slot and drop it without waking
    pub drop_slot: bool,
    pub effect: bool,
    pub event: bool,
    pub ready: bool,
}

impl Step {
    pub fn any() -> Step {
        Step {
            wake_by_ref: nd::any_bool(),
            clone_wake: nd::any_bool(),
            keep_self: nd::any_bool(),
            keep_slot: nd::any_bool(),
            wake_slot: false,
            drop_slot: false,
            effect: nd::any_bool(),
            event: nd::any_bool(),
            ready: nd::any_bool(),
        }
    }
    /// Behaviour from a bit set (used with const generics so that each behaviour is a straight-line
    /// instance for symbolic execution, see DESIGN.md "case split").
    pub const fn from_bits(b: u16) -> Step {
        Step {
            wake_by_ref: b & 1 != 0,
            clone_wake: b & 2 != 0,
            keep_self: b & 4 != 0,
            keep_slot: b & 8 != 0,
            ready: b & 16 != 0,
            effect: b & 32 != 0,
            event: b & 64 != 0,
            wake_slot: b & 128 != 0,
            drop_slot: b & 256 != 0,
        }
    }
    pub fn pending() -> Step {
        Step::default()
    }
    /// woken through this poll's own waker
    pub fn self_woken(&self) -> bool {
        self.wake_by_ref || self.clone_wake
    }
    /// a clone of this poll's waker survives the poll
    pub fn registered(&self) -> bool {
        self.keep_self || self.keep_slot
    }
}

/// A place outside the task where a waker can be parked (a task-to-task channel in miniature).
pub struct Slot(UnsafeCell<Option<Waker>>);
// single-threaded harnesses only
unsafe impl Send for Slot {}
unsafe impl Sync for Slot {}

impl Slot {
    pub fn new() -> Arc<Slot> {
        Arc::new(Slot(UnsafeCell::new(None)))
    }
    pub fn put(&self, w: Waker) {
        unsafe { *self.0.get() = Some(w) }
    }
    pub fn take(&self) -> Option<Waker> {
        unsafe { (*self.0.get()).take() }
    }
    pub fn is_some(&self) -> bool {
        unsafe { (*self.0.get()).is_some() }
    }
}

/// Observations shared between a script and the harness.
#[derive(Default)]
pub struct Probe {
    pub polls: AtomicU8,
    pub dropped: AtomicBool,
}

impl Probe {
    pub fn polls(&self) -> u8 {
        self.polls.load(Ordering::SeqCst)
    }
    pub fn dropped(&self) -> bool {
        self.dropped.load(Ordering::SeqCst)
    }
}

pub const MAX_STEPS: usize = 3;

pub struct Script {
    // three separate fields rather than an array: moving a struct that contains an array is lowered
    // to a byte-wise copy, after which CBMC no longer sees the neighbouring pointer fields as constants
    pub s0: Step,
    pub s1: Step,
    pub s2: Step,
    pub probe: Arc<Probe>,
    pub kept: Option<Waker>,
    pub slot: Arc<Slot>,
    pub ctx: Ctx,
    pub tag: u8,
}

impl Script {
    pub fn new(steps: [Step; MAX_STEPS], probe: &Arc<Probe>, slot: &Arc<Slot>, ctx: Ctx, tag: u8) -> Script {
        Script {
            s0: steps[0],
            s1: steps[1],
            s2: steps[2],
            probe: probe.clone(),
            kept: None,
            slot: slot.clone(),
            ctx,
            tag,
        }
    }
}

impl Drop for Script {
    fn drop(&mut self) {
        self.probe.dropped.store(true, Ordering::SeqCst);
    }
}

impl Future for Script {
    type Output = ();

    fn poll(self: Pin<&mut Self>, cx: &mut Context<'_>) -> Poll<()> {
        let this = self.get_mut();
        let n = this.probe.polls.load(Ordering::SeqCst);
        this.probe.polls.store(n + 1, Ordering::SeqCst);
        let step = match n {
            0 => this.s0,
            1 => this.s1,
            2 => this.s2,
            _ => Step::pending(),
        };
        // Future contract: the registration of the previous poll is replaced
        this.kept = None;

        if step.wake_slot {
            if let Some(w) = this.slot.take() {
                w.wake();
            }
        }
        if step.drop_slot {
            drop(this.slot.take());
        }
        if step.effect {
            hooks::send_effect(&this.ctx, this.tag);
        }
        if step.event {
            this.ctx.send_event(this.tag);
        }
        if step.wake_by_ref {
            cx.waker().wake_by_ref();
        }
        if step.clone_wake {
            cx.waker().clone().wake();
        }
        if step.keep_self {
            this.kept = Some(cx.waker().clone());
        }
        if step.keep_slot {
            this.slot.put(cx.waker().clone());
        }
        if step.ready {
            Poll::Ready(())
        } else {
            Poll::Pending
        }
    }
}

/// A command whose root task is the given script.
pub fn command_with(steps: [Step; MAX_STEPS], probe: &Arc<Probe>, slot: &Arc<Slot>, tag: u8) -> Cmd {
    let probe = probe.clone();
    let slot = slot.clone();
    Command::new(move |ctx| Script::new(steps, &probe, &slot, ctx, tag))
}

/// `dispatch!(value, function, n0 n1 ...)`: case split on a symbolic value into const-generic
/// instances.  CBMC executes every instance (each with constant behaviour bits, so reference counts,
/// vtable pointers and queue lengths stay constants inside it) and decides all of them in one query.
#[macro_export]
macro_rules! dispatch {
    ($v:expr, $f:ident, $($n:literal)*) => {
        match $v {
            $($n => $f::<$n>(),)*
            _ => $crate::nd::assume(false),
        }
    };
}
