//! Prints `<name> REAL <observed> | EXPECT <by hand>` lines.
use crux_core::{Command, Request};
use crux_http::command::Http;
use crux_http::protocol::{HttpRequest, HttpResponse, HttpResult};
use crux_http::{HttpError, Response};

enum Effect {
    Http(Request<HttpRequest>),
}
impl From<Request<HttpRequest>> for Effect {
    fn from(r: Request<HttpRequest>) -> Self {
        Effect::Http(r)
    }
}
#[derive(Debug)]
enum Event {
    Got(Result<Response<Vec<u8>>, HttpError>),
}

const HEADERS: [(&str, &str); 8] = [("accept", "a"), ("x-one", "1"), ("x-two", "2"), ("authorization", "t"), ("x-three", "3"), ("user-agent", "u"), ("x-four", "4"), ("cache-control", "c")];

fn wire(n: usize) -> String {
    let mut b = Http::<Effect, Event>::get("http://example.com/path?q=1");
    for (k, v) in HEADERS.iter().take(n) {
        b = b.header(*k, *v);
    }
    let mut cmd: Command<Effect, Event> = b.build().then_send(Event::Got);
    let Effect::Http(req) = cmd.effects().next().expect("one request");
    serde_json::to_string(&req.operation).expect("json")
}

/// 36 single-valued headers plus one header with four values (40 header lines: long enough that an unstable sort
/// really permutes equal elements); one `.header` call with a slice of values
fn wire_multi() -> String {
    let mut b = Http::<Effect, Event>::get("http://example.com/path?q=1");
    for i in 0..18 {
        b = b.header(format!("x-h{i:02}").as_str(), "v");
    }
    let langs: Vec<crux_http::http::headers::HeaderValue> = ["en-GB", "en", "fr", "de"].iter().map(|l| l.parse().expect("header value")).collect();
    b = b.header("accept-language", langs.as_slice());
    for i in 18..36 {
        b = b.header(format!("x-h{i:02}").as_str(), "v");
    }
    let mut cmd: Command<Effect, Event> = b.build().then_send(Event::Got);
    let Effect::Http(req) = cmd.effects().next().expect("one request");
    let langs: Vec<&str> = req.operation.headers.iter().filter(|h| h.name == "accept-language").map(|h| h.value.as_str()).collect();
    format!("{}|{}", langs.join(","), serde_json::to_string(&req.operation).expect("json"))
}

fn response_with(headers: &[(&str, &str)]) -> Response<Vec<u8>> {
    let mut cmd: Command<Effect, Event> = Http::<Effect, Event>::get("http://example.com/").build().then_send(Event::Got);
    let Effect::Http(mut req) = cmd.effects().next().expect("one request");
    let mut b = HttpResponse::status(200);
    b.body(vec![1u8, 2, 3]);
    for (k, v) in headers {
        b.header(*k, *v);
    }
    req.resolve(HttpResult::Ok(b.build())).expect("resolves");
    let ev = cmd.events().next();
    match ev {
        Some(Event::Got(Ok(r))) => r,
        other => panic!("unexpected {other:?}"),
    }
}

fn main() {
    std::panic::set_hook(Box::new(|_| {}));
    // the same request described 40 times: one wire form
    for n in [1usize, 2, 4, 8] {
        let forms: std::collections::BTreeSet<String> = (0..40).map(|_| wire(n)).collect();
        println!("request-{n}-headers REAL distinct-wire-forms={} | EXPECT distinct-wire-forms=1", forms.len());
    }
    let r = std::panic::catch_unwind(|| {
        let forms: std::collections::BTreeSet<String> = (0..60).map(|_| wire_multi()).collect();
        let lang_orders: std::collections::BTreeSet<String> = forms.iter().map(|f| f.split('|').next().unwrap().to_string()).collect();
        format!("distinct-wire-forms={} value-orders={}", forms.len(), lang_orders.into_iter().collect::<Vec<_>>().join(";"))
    });
    println!("request-40-lines-multivalue REAL {} | EXPECT distinct-wire-forms=1 value-orders=en-GB,en,fr,de", r.unwrap_or_else(|_| "PANIC".into()));
    // equality of responses: equal contents <=> equal
    let r = std::panic::catch_unwind(|| {
        let a = [("x-a", "1"), ("x-b", "2"), ("x-c", "3"), ("x-d", "4")];
        let b = [("x-d", "4"), ("x-c", "3"), ("x-b", "2"), ("x-a", "1")];
        let same = (0..20).filter(|_| response_with(&a) == response_with(&b)).count();
        format!("equal-in={same}/20")
    });
    println!("response-eq-same-headers-other-order REAL {} | EXPECT equal-in=20/20", r.unwrap_or_else(|_| "PANIC".into()));
    let r = std::panic::catch_unwind(|| {
        let a = [("x-a", "1")];
        let b = [("x-a", "1"), ("x-b", "2"), ("x-c", "3")];
        let same = (0..20).filter(|_| response_with(&a) == response_with(&b)).count();
        format!("equal-in={same}/20")
    });
    println!("response-eq-surplus-headers REAL {} | EXPECT equal-in=0/20", r.unwrap_or_else(|_| "PANIC".into()));
    let r = std::panic::catch_unwind(|| {
        let a = [("x-a", "1"), ("x-b", "2")];
        let b = [("x-a", "1"), ("x-b", "9")];
        let same = (0..20).filter(|_| response_with(&a) == response_with(&b)).count();
        format!("equal-in={same}/20")
    });
    println!("response-eq-different-value REAL {} | EXPECT equal-in=0/20", r.unwrap_or_else(|_| "PANIC".into()));
    let r = std::panic::catch_unwind(|| {
        let a = [("x-a", "1"), ("x-a", "2")];
        let b = [("x-a", "1")];
        let same = (0..20).filter(|_| response_with(&a) == response_with(&b)).count();
        format!("equal-in={same}/20")
    });
    println!("response-eq-surplus-value REAL {} | EXPECT equal-in=0/20", r.unwrap_or_else(|_| "PANIC".into()));
}
