//! `host_replay` prints, for every program P0..P5, one line per host:
//!   `P<n> direct <steps>` and `P<n> core <steps>` where <steps> is, per interaction step, the list of
//!   effects (operation bytes) and events (bytes) that surfaced in that step: `e[..]v[..];e[..]v[..]`.
//! The two lines of a program must be identical (C05: same effects and events at the same points).
use crux_core::capability::Operation;
use crux_core::{Command, Core, Request};
use serde::{Deserialize, Serialize};

#[derive(Clone, PartialEq, Eq, Debug, Serialize, Deserialize)]
pub struct Op(pub u8);
impl Operation for Op {
    type Output = u8;
}

#[crux_core::macros::effect]
pub enum Effect {
    Op(Op),
}

#[derive(Clone, PartialEq, Eq, Debug, Serialize, Deserialize)]
pub enum Event {
    Start(u8),
    Got(u8),
    /// applied events that make `update` return further commands (events caused by events)
    Chain(u8),
}

#[derive(Default)]
pub struct Model {
    log: Vec<u8>,
}

#[derive(Default)]
pub struct App;

/// The programs.  Every one starts by emitting request `10` (so that there is something to resolve).
fn program(p: u8) -> Command<Effect, Event> {
    match p {
        // resolve -> event
        0 => Command::request_from_shell(Op(10)).then_send(Event::Got),
        // resolve -> notification, then event, then a second request whose answer becomes an event
        1 => Command::new(|ctx| async move {
            let v = ctx.request_from_shell(Op(10)).await;
            ctx.notify_shell(Op(20));
            ctx.send_event(Event::Got(v));
            let w = ctx.request_from_shell(Op(30)).await;
            ctx.send_event(Event::Got(w));
        }),
        // resolve -> two outputs and the command aborts itself in the same poll
        2 => {
            let mut cmd: Command<Effect, Event> = Command::done();
            let abort = cmd.abort_handle();
            cmd.spawn(move |ctx| async move {
                let v = ctx.request_from_shell(Op(10)).await;
                ctx.notify_shell(Op(21));
                ctx.send_event(Event::Got(v));
                abort.abort();
            });
            cmd
        }
        // resolve -> three notifications and two events in one poll
        3 => Command::new(|ctx| async move {
            let v = ctx.request_from_shell(Op(10)).await;
            ctx.notify_shell(Op(22));
            ctx.send_event(Event::Got(v));
            ctx.notify_shell(Op(23));
            ctx.send_event(Event::Got(v.wrapping_add(1)));
            ctx.notify_shell(Op(24));
        }),
        // two tasks: the second emits after the first's request is resolved (spawned mid-run)
        4 => Command::new(|ctx| async move {
            let v = ctx.request_from_shell(Op(10)).await;
            let child = ctx.spawn(|c| async move {
                c.notify_shell(Op(25));
                c.send_event(Event::Got(99));
            });
            child.await;
            ctx.send_event(Event::Got(v));
        }),
        // events that cause further events through update: only the Core can run this one (see `expected`)
        6 => Command::event(Event::Chain(3)),
        // a task emits three events in one poll, then a request; the answer brings two more
        7 => Command::new(|ctx| async move {
            ctx.send_event(Event::Got(1));
            ctx.send_event(Event::Got(2));
            ctx.send_event(Event::Got(3));
            let v = ctx.request_from_shell(Op(10)).await;
            ctx.send_event(Event::Got(v));
            ctx.send_event(Event::Got(v.wrapping_add(1)));
        }),
        // a burst of 40 events and 10 notifications from one task of a command nested in all / and / then
        8 => Command::all([burst(), Command::done()]),
        9 => Command::done().then(burst()).and(Command::done()),
        // abort first, then outputs that were queued before the abort must still surface
        _ => {
            let mut cmd: Command<Effect, Event> = Command::done();
            let abort = cmd.abort_handle();
            cmd.spawn(move |ctx| async move {
                let v = ctx.request_from_shell(Op(10)).await;
                ctx.send_event(Event::Got(v));
                ctx.notify_shell(Op(26));
                ctx.notify_shell(Op(27));
                abort.abort();
                ctx.notify_shell(Op(28)); // emitted after the abort in the same poll: still queued
            });
            cmd
        }
    }
}

/// 40 events and 10 notifications in one poll
fn burst() -> Command<Effect, Event> {
    Command::new(|ctx| async move {
        for i in 0..40u8 {
            ctx.send_event(Event::Got(50 + i));
            if i % 4 == 0 {
                ctx.notify_shell(Op(20 + i / 4));
            }
        }
    })
}

impl crux_core::App for App {
    type Event = Event;
    type Model = Model;
    type ViewModel = Vec<u8>;
    type Capabilities = ();
    type Effect = Effect;

    fn update(&self, event: Event, model: &mut Model, _caps: &()) -> Command<Effect, Event> {
        match event {
            Event::Start(p) => program(p),
            Event::Got(v) => {
                model.log.push(v);
                Command::done()
            }
            Event::Chain(n) => {
                model.log.push(100 + n);
                if n > 0 {
                    Command::all([Command::notify_shell(Op(40 + n)).into(), Command::event(Event::Chain(n - 1))])
                } else {
                    Command::done()
                }
            }
        }
    }
    fn view(&self, model: &Model) -> Vec<u8> {
        model.log.clone()
    }
}

fn fmt_step(effects: &[u8], events: &[u8], ordered: bool) -> String {
    let mut e = effects.to_vec();
    let mut v = events.to_vec();
    e.sort_unstable();
    if !ordered {
        v.sort_unstable();
    }
    format!("e{e:?}v{v:?}")
}

/// resolve every pending request with `answer`, collecting new requests; repeat for `rounds` steps
fn run_direct(p: u8) -> String {
    // the nested programs are compared with their un-nested body
    let mut cmd = if p == 8 || p == 9 { burst() } else { program(p) };
    let mut steps = Vec::new();
    let mut pending: Vec<Request<Op>> = Vec::new();
    let mut answer = 5u8;
    for _ in 0..4 {
        let mut ops = Vec::new();
        for Effect::Op(req) in cmd.effects() {
            ops.push(req.operation.0);
            pending.push(req);
        }
        let evs: Vec<u8> = cmd.events().map(|e| if let Event::Got(v) = e { v } else { 255 }).collect();
        steps.push(fmt_step(&ops, &evs, p >= 6));
        let mut resolved = false;
        for mut req in pending.drain(..) {
            // operations 20..=29 are notifications: the shell does not answer them
            if !((20..30).contains(&req.operation.0) || (40..50).contains(&req.operation.0)) && req.resolve(answer).is_ok() {
                resolved = true;
            }
            answer += 1;
        }
        if !resolved {
            break;
        }
    }
    steps.join(";")
}

fn run_core(p: u8) -> String {
    let core: Core<App> = Core::new();
    let mut steps = Vec::new();
    let mut answer = 5u8;
    let mut seen = 0usize;
    let mut effects = core.process_event(Event::Start(p));
    for _ in 0..4 {
        let mut ops = Vec::new();
        let mut pending = Vec::new();
        for Effect::Op(req) in effects.drain(..) {
            ops.push(req.operation.0);
            pending.push(req);
        }
        let log = core.view();
        let evs = log[seen..].to_vec();
        seen = log.len();
        steps.push(fmt_step(&ops, &evs, p >= 6));
        let mut resolved = false;
        let mut next = Vec::new();
        for mut req in pending {
            if !((20..30).contains(&req.operation.0) || (40..50).contains(&req.operation.0)) {
                if let Ok(more) = core.resolve(&mut req, answer) {
                    resolved = true;
                    next.extend(more);
                }
            }
            answer += 1;
        }
        if !resolved {
            break;
        }
        effects = next;
    }
    steps.join(";")
}

/// what the property demands of P6 (events caused by events, applied one at a time in emission order, every
/// effect in the same call): written down by hand, no host involved
fn expected_p6() -> String {
    "e[41, 42, 43]v[103, 102, 101, 100]".to_string()
}

fn main() {
    if std::env::var("HOST_REPLAY_VERBOSE").is_err() { std::panic::set_hook(Box::new(|_| {})); }
    for p in 0u8..10 {
        let d = if p == 6 { expected_p6() } else { std::panic::catch_unwind(|| run_direct(p)).unwrap_or_else(|_| "PANIC".into()) };
        let c = std::panic::catch_unwind(|| run_core(p)).unwrap_or_else(|_| "PANIC".into());
        println!("P{p} direct {d}");
        println!("P{p} core {c}");
    }
}
