//! stdin: one request per line: `<status> [body-len]`; stdout, one line each:
//!   `OK <status> <body-len>`        the app received Ok(response)
//!   `ERRHTTP <code> <body-len|->`   the app received Err(HttpError::Http { code, body, .. })
//!   `ERROTHER <debug>`              any other error value
//!   `PANIC`                         the core panicked while handling the shell's response
//!   `NOEVENT <n>`                   not exactly one event
//! `D <charset-label|-> <hex body>`: a 200 response with `content-type: text/plain; charset=<label>` (`-`: no charset) consumed with
//!   `expect_string()`: prints `STR <hex of the string's UTF-8>` / `ERR` / `PANIC`.
//! `X <bytes|string|json> <status> <hex body>`: a response with that status, `content-type: application/json; charset=utf-8` and a header
//!   `x-keep: kept` consumed with the named body expectation: prints `<kind> status=<s> keep=<x-keep> body=<hex | json text>` / `ERR <variant>` / `PANIC`.
//! `all` as the only argument runs every status 0..=65535 with a 1-byte body.
use std::io::BufRead;
use std::panic::{catch_unwind, AssertUnwindSafe};

use crux_core::Request;
use crux_http::command::Http;
use crux_http::protocol::{HttpRequest, HttpResponse, HttpResult};
use crux_http::{HttpError, Response};

enum Effect {
    Http(Request<HttpRequest>),
}
impl From<Request<HttpRequest>> for Effect {
    fn from(r: Request<HttpRequest>) -> Self {
        Effect::Http(r)
    }
}
#[derive(Debug)]
enum Event {
    Got(Result<Response<Vec<u8>>, HttpError>),
}

fn run(status: u16, body_len: usize) -> String {
    let r = catch_unwind(AssertUnwindSafe(|| {
        let mut cmd: crux_core::Command<Effect, Event> = Http::get("http://example.com/").build().then_send(Event::Got);
        let Effect::Http(mut req) = cmd.effects().next().expect("one request");
        let body: Vec<u8> = (0..body_len).map(|i| (i as u8).wrapping_mul(31).wrapping_add(7)).collect();
        let resp = HttpResponse::status(status).body(body.clone()).build();
        req.resolve(HttpResult::Ok(resp)).expect("resolves");
        let evs: Vec<Event> = cmd.events().collect();
        if evs.len() != 1 {
            return format!("NOEVENT {}", evs.len());
        }
        match evs.into_iter().next().unwrap() {
            Event::Got(Ok(mut r)) => {
                let b = r.take_body().unwrap_or_default();
                format!("OK {} {}{}", u16::from(r.status()), b.len(), if b == body { "" } else { " BODYCHANGED" })
            }
            Event::Got(Err(HttpError::Http { code, body: b, .. })) => match b {
                Some(b) => format!("ERRHTTP {} {}{}", u16::from(code), b.len(), if b == body { "" } else { " BODYCHANGED" }),
                None => format!("ERRHTTP {} -", u16::from(code)),
            },
            Event::Got(Err(e)) => format!("ERROTHER {e:?}"),
        }
    }));
    r.unwrap_or_else(|_| "PANIC".to_string())
}

/// the shell reports an error instead of a response: what does the app receive?
fn run_shell_error(kind: &str) -> String {
    let sent = match kind {
        "io" => HttpError::Io("socket closed".to_string()),
        "url" => HttpError::Url("bad url".to_string()),
        _ => HttpError::Timeout,
    };
    let expect = format!("{sent:?}");
    let r = catch_unwind(AssertUnwindSafe(|| {
        let mut cmd: crux_core::Command<Effect, Event> = Http::get("http://example.com/").build().then_send(Event::Got);
        let Effect::Http(mut req) = cmd.effects().next().expect("one request");
        req.resolve(HttpResult::Err(sent)).expect("resolves");
        let evs: Vec<Event> = cmd.events().collect();
        if evs.len() != 1 {
            return format!("NOEVENT {}", evs.len());
        }
        match evs.into_iter().next().unwrap() {
            Event::Got(Err(e)) => format!("APPERR {e:?}"),
            Event::Got(Ok(r)) => format!("APPOK {}", u16::from(r.status())),
        }
    }));
    format!("{} | SENT {expect}", r.unwrap_or_else(|_| "PANIC".to_string()))
}

#[derive(Debug)]
enum SEvent {
    Got(Result<Response<String>, HttpError>),
}

fn run_decode(label: &str, hex: &str) -> String {
    let body: Vec<u8> = (0..hex.len() / 2).map(|i| u8::from_str_radix(&hex[2 * i..2 * i + 2], 16).unwrap_or(0)).collect();
    let r = catch_unwind(AssertUnwindSafe(|| {
        let mut cmd: crux_core::Command<Effect, SEvent> = Http::get("http://example.com/").expect_string().build().then_send(SEvent::Got);
        let Effect::Http(mut req) = cmd.effects().next().expect("one request");
        let mut b = HttpResponse::status(200);
        b.body(body.clone());
        if label == "-" {
            b.header("content-type", "text/plain");
        } else {
            b.header("content-type", format!("text/plain; charset={label}"));
        }
        req.resolve(HttpResult::Ok(b.build())).expect("resolves");
        let evs: Vec<SEvent> = cmd.events().collect();
        if evs.len() != 1 {
            return format!("NOEVENT {}", evs.len());
        }
        match evs.into_iter().next().unwrap() {
            SEvent::Got(Ok(mut r)) => match r.take_body() {
                Some(s) => format!("STR {}", s.bytes().map(|x| format!("{x:02x}")).collect::<String>()),
                None => "NOBODY".to_string(),
            },
            SEvent::Got(Err(_)) => "ERR".to_string(),
        }
    }));
    r.unwrap_or_else(|_| "PANIC".to_string())
}

fn run_expect(kind: &str, status: u16, hex: &str) -> String {
    let body: Vec<u8> = (0..hex.len() / 2).map(|i| u8::from_str_radix(&hex[2 * i..2 * i + 2], 16).unwrap_or(0)).collect();
    let resp = || {
        let mut b = HttpResponse::status(status);
        b.body(body.clone());
        b.header("content-type", "application/json; charset=utf-8");
        b.header("x-keep", "kept");
        b.build()
    };
    fn hexs(b: &[u8]) -> String {
        b.iter().map(|x| format!("{x:02x}")).collect()
    }
    fn err(e: &HttpError) -> String {
        match e {
            HttpError::Http { code, body, .. } => format!("ERR Http {} {}", u16::from(*code), body.as_ref().map(|b| hexs(b)).unwrap_or_else(|| "-".into())),
            HttpError::Json(_) => "ERR Json".to_string(),
            HttpError::Io(_) => "ERR Io".to_string(),
            HttpError::Url(_) => "ERR Url".to_string(),
            HttpError::Timeout => "ERR Timeout".to_string(),
        }
    }
    let r = catch_unwind(AssertUnwindSafe(|| match kind {
        "bytes" => {
            let mut cmd: crux_core::Command<Effect, Event> = Http::get("http://example.com/").build().then_send(Event::Got);
            let Effect::Http(mut req) = cmd.effects().next().expect("one request");
            req.resolve(HttpResult::Ok(resp())).expect("resolves");
            let ev = cmd.events().next();
            match ev {
                Some(Event::Got(Ok(mut r))) => format!("bytes status={} keep={} body={}", u16::from(r.status()), r.header("x-keep").map(|v| v.as_str().to_string()).unwrap_or_default(), hexs(&r.take_body().unwrap_or_default())),
                Some(Event::Got(Err(e))) => err(&e),
                None => "NOEVENT".to_string(),
            }
        }
        "string" => {
            let mut cmd: crux_core::Command<Effect, SEvent> = Http::get("http://example.com/").expect_string().build().then_send(SEvent::Got);
            let Effect::Http(mut req) = cmd.effects().next().expect("one request");
            req.resolve(HttpResult::Ok(resp())).expect("resolves");
            let ev = cmd.events().next();
            match ev {
                Some(SEvent::Got(Ok(mut r))) => format!("string status={} keep={} body={}", u16::from(r.status()), r.header("x-keep").map(|v| v.as_str().to_string()).unwrap_or_default(), hexs(r.take_body().unwrap_or_default().as_bytes())),
                Some(SEvent::Got(Err(e))) => err(&e),
                None => "NOEVENT".to_string(),
            }
        }
        _ => {
            let mut cmd: crux_core::Command<Effect, JEvent> = Http::get("http://example.com/").expect_json::<Vec<u32>>().build().then_send(JEvent::Got);
            let Effect::Http(mut req) = cmd.effects().next().expect("one request");
            req.resolve(HttpResult::Ok(resp())).expect("resolves");
            let ev = cmd.events().next();
            match ev {
                Some(JEvent::Got(Ok(mut r))) => format!("json status={} keep={} body={:?}", u16::from(r.status()), r.header("x-keep").map(|v| v.as_str().to_string()).unwrap_or_default(), r.take_body().unwrap_or_default()),
                Some(JEvent::Got(Err(e))) => err(&e),
                None => "NOEVENT".to_string(),
            }
        }
    }));
    r.unwrap_or_else(|_| "PANIC".to_string())
}

#[derive(Debug)]
enum JEvent {
    Got(Result<Response<Vec<u32>>, HttpError>),
}

fn main() {
    std::panic::set_hook(Box::new(|_| {}));
    let args: Vec<String> = std::env::args().collect();
    if args.get(1).map(String::as_str) == Some("all") {
        for s in 0..=u16::MAX {
            println!("{s} {}", run(s, 1));
        }
        return;
    }
    for line in std::io::stdin().lock().lines() {
        let line = line.unwrap();
        let mut it = line.split_whitespace();
        if line.starts_with("D ") {
            let mut p = line[2..].split_whitespace();
            let (l, h) = (p.next().unwrap_or("-"), p.next().unwrap_or(""));
            println!("{}", run_decode(l, h));
            continue;
        }
        if line.starts_with("X ") {
            let mut p = line[2..].split_whitespace();
            let (k, st, h) = (p.next().unwrap_or("bytes"), p.next().and_then(|x| x.parse::<u16>().ok()).unwrap_or(200), p.next().unwrap_or(""));
            println!("{}", run_expect(k, st, h));
            continue;
        }
        if line.starts_with("E ") {
            println!("{}", run_shell_error(line[2..].trim()));
            continue;
        }
        let Some(s) = it.next().and_then(|x| x.parse::<u16>().ok()) else {
            println!("BADINPUT");
            continue;
        };
        let n = it.next().and_then(|x| x.parse::<usize>().ok()).unwrap_or(1);
        println!("{}", run(s, n));
    }
}
