//! stdin, one line per run: `<api> <cursor> <answer>` with api in get|set|delete|exists|list_keys and
//! answer in ok|io|timeout|cursor|other.  The key/prefix is "k\u{e9}y", the value [1,0,255], the page
//! ["a","b"] with next cursor 77, the stored value [9,8].
//! stdout: `OP <debug of the emitted operation> | RESULT <debug of what the app received>` or `PANIC`.
use std::io::BufRead;
use std::panic::{catch_unwind, AssertUnwindSafe};

use crux_core::{Command, Request};
use crux_kv::command::KeyValue;
use crux_kv::error::KeyValueError;
use crux_kv::value::Value;
use crux_kv::{KeyValueOperation, KeyValueResponse, KeyValueResult};

enum Effect {
    Kv(Request<KeyValueOperation>),
}
impl From<Request<KeyValueOperation>> for Effect {
    fn from(r: Request<KeyValueOperation>) -> Self {
        Effect::Kv(r)
    }
}
#[derive(Debug)]
enum Event {
    Data(Result<Option<Vec<u8>>, KeyValueError>),
    Status(Result<bool, KeyValueError>),
    List(Result<(Vec<String>, u64), KeyValueError>),
}

type Kv = KeyValue<Effect, Event>;

fn run(api: &str, cursor: u64, answer: &str) -> String {
    let key = "k\u{e9}y";
    let r = catch_unwind(AssertUnwindSafe(|| {
        let mut cmd: Command<Effect, Event> = match api {
            "get" => Kv::get(key).then_send(Event::Data),
            "set" => Kv::set(key, vec![1, 0, 255]).then_send(Event::Data),
            "delete" => Kv::delete(key).then_send(Event::Data),
            "exists" => Kv::exists(key).then_send(Event::Status),
            _ => Kv::list_keys(key, cursor).then_send(Event::List),
        };
        let mut effects: Vec<Effect> = cmd.effects().collect();
        if effects.len() != 1 {
            return format!("OPCOUNT {}", effects.len());
        }
        let Effect::Kv(mut req) = effects.pop().unwrap();
        let op = format!("{:?}", req.operation);
        let stored = Value::Bytes(vec![9, 8]);
        let result = match answer {
            "ok" => KeyValueResult::Ok {
                response: match api {
                    "get" => KeyValueResponse::Get { value: stored },
                    "set" => KeyValueResponse::Set { previous: stored },
                    "delete" => KeyValueResponse::Delete { previous: stored },
                    "exists" => KeyValueResponse::Exists { is_present: true },
                    _ => KeyValueResponse::ListKeys { keys: vec!["a".into(), "b".into()], next_cursor: 77 },
                },
            },
            "io" => KeyValueResult::Err { error: KeyValueError::Io { message: "disk".into() } },
            "timeout" => KeyValueResult::Err { error: KeyValueError::Timeout },
            "cursor" => KeyValueResult::Err { error: KeyValueError::CursorNotFound },
            _ => KeyValueResult::Err { error: KeyValueError::Other { message: "odd".into() } },
        };
        req.resolve(result).expect("resolves");
        let evs: Vec<Event> = cmd.events().collect();
        if evs.len() != 1 {
            return format!("OP {op} | EVENTS {}", evs.len());
        }
        format!("OP {op} | RESULT {:?}", evs[0])
    }));
    r.unwrap_or_else(|_| "PANIC".to_string())
}

fn main() {
    std::panic::set_hook(Box::new(|_| {}));
    for line in std::io::stdin().lock().lines() {
        let line = line.unwrap();
        let p: Vec<&str> = line.split_whitespace().collect();
        if p.len() != 3 {
            println!("BADINPUT");
            continue;
        }
        println!("{}", run(p[0], p[1].parse().unwrap_or(0), p[2]));
    }
}
