//! Every scenario prints `<name> REAL <bounded|grows(bytes)> | EXPECT bounded`.
//! A scenario is one complete exchange on the capability-style timer API after which nothing is outstanding (no timer,
//! no task, no unresolved request); it is repeated 2 000 times to warm up and then 20 000 times, and the live heap bytes
//! (counting global allocator: the set of cleared timer ids is private to crux_time) must not have grown by more than 32 KiB.
//!   set-fire              notify_after, the shell answers DurationElapsed
//!   set-clear-fire        notify_after, clear(id), the shell still answers the original request
//!   set-clear-ack         notify_after, clear(id), the shell answers the original request with Cleared
//!   set-fire-clear        notify_after, the shell answers, and THEN the app clears the (finished) timer's id
//!   set-clear-same-update notify_after and clear(id) within one update: the request future is dropped without ever being polled
use std::alloc::{GlobalAlloc, Layout, System};
use std::sync::atomic::{AtomicIsize, Ordering};

use crux_core::{macros::Effect, Command, Core};
use crux_time::{Time, TimeRequest, TimeResponse, TimerId};
use serde::{Deserialize, Serialize};

struct Counting;
static LIVE: AtomicIsize = AtomicIsize::new(0);
unsafe impl GlobalAlloc for Counting {
    unsafe fn alloc(&self, l: Layout) -> *mut u8 {
        let p = System.alloc(l);
        if !p.is_null() {
            LIVE.fetch_add(l.size() as isize, Ordering::SeqCst);
        }
        p
    }
    unsafe fn dealloc(&self, p: *mut u8, l: Layout) {
        System.dealloc(p, l);
        LIVE.fetch_sub(l.size() as isize, Ordering::SeqCst);
    }
    unsafe fn realloc(&self, p: *mut u8, l: Layout, n: usize) -> *mut u8 {
        let q = System.realloc(p, l, n);
        if !q.is_null() {
            LIVE.fetch_add(n as isize - l.size() as isize, Ordering::SeqCst);
        }
        q
    }
}
#[global_allocator]
static A: Counting = Counting;

#[derive(Default)]
struct App;
#[derive(Serialize, Deserialize)]
enum Event {
    Start,
    /// a timer set and cleared within one update: its request future is created but never polled
    StartAndCancel,
    Cancel,
    Elapsed(TimeResponse),
}
#[derive(Default)]
struct Model {
    timer: Option<TimerId>,
    concluded: usize,
}
#[derive(Effect)]
struct Capabilities {
    time: Time<Event>,
}
impl crux_core::App for App {
    type Event = Event;
    type Model = Model;
    type ViewModel = usize;
    type Capabilities = Capabilities;
    type Effect = Effect;
    fn update(&self, event: Event, model: &mut Model, caps: &Capabilities) -> Command<Effect, Event> {
        match event {
            Event::Start => model.timer = Some(caps.time.notify_after(std::time::Duration::from_millis(300), Event::Elapsed)),
            Event::StartAndCancel => {
                let id = caps.time.notify_after(std::time::Duration::from_millis(300), Event::Elapsed);
                caps.time.clear(id);
            }
            Event::Cancel => {
                if let Some(id) = model.timer.take() {
                    caps.time.clear(id);
                }
            }
            Event::Elapsed(_) => model.concluded += 1,
        }
        Command::done()
    }
    fn view(&self, model: &Model) -> usize {
        model.concluded
    }
}

#[derive(Clone, Copy)]
enum Kind {
    SetFire,
    SetClearFire,
    SetClearAck,
    SetFireClear,
    SetClearSameUpdate,
}

fn exchange(core: &Core<App>, kind: Kind) {
    if let Kind::SetClearSameUpdate = kind {
        let before = core.view();
        let effects = core.process_event(Event::StartAndCancel);
        // the timer reports Cleared on its first poll; only the Clear notification reaches the shell
        assert_eq!(effects.len(), 1, "only the Clear notification");
        assert_eq!(core.view(), before + 1, "the exchange concludes the timer exactly once");
        return;
    }
    let mut effects = core.process_event(Event::Start);
    let Effect::Time(mut timer) = effects.remove(0);
    let TimeRequest::NotifyAfter { id, .. } = timer.operation else { panic!("expected NotifyAfter") };
    let before = core.view();
    match kind {
        Kind::SetFire => {
            core.resolve(&mut timer, TimeResponse::DurationElapsed { id }).expect("resolves");
        }
        Kind::SetClearFire | Kind::SetClearAck => {
            let effects = core.process_event(Event::Cancel);
            assert_eq!(effects.len(), 1);
            let answer = if matches!(kind, Kind::SetClearFire) { TimeResponse::DurationElapsed { id } } else { TimeResponse::Cleared { id } };
            core.resolve(&mut timer, answer).expect("resolves");
        }
        Kind::SetClearSameUpdate => unreachable!(),
        Kind::SetFireClear => {
            core.resolve(&mut timer, TimeResponse::DurationElapsed { id }).expect("resolves");
            let effects = core.process_event(Event::Cancel);
            assert_eq!(effects.len(), 1);
        }
    }
    assert_eq!(core.view(), before + 1, "the exchange concludes the timer exactly once");
}

fn scenario(kind: Kind) -> String {
    let r = std::panic::catch_unwind(|| {
        let core: Core<App> = Core::new();
        for _ in 0..2_000 {
            exchange(&core, kind);
        }
        let before = LIVE.load(Ordering::SeqCst);
        for _ in 0..20_000 {
            exchange(&core, kind);
        }
        let growth = LIVE.load(Ordering::SeqCst) - before;
        if growth < 32 * 1024 {
            "bounded".to_string()
        } else {
            format!("grows({} bytes over 20000 exchanges)", growth)
        }
    });
    r.unwrap_or_else(|_| "PANIC".to_string())
}

fn main() {
    std::panic::set_hook(Box::new(|_| {}));
    for (name, kind) in [("set-fire", Kind::SetFire), ("set-clear-fire", Kind::SetClearFire), ("set-clear-ack", Kind::SetClearAck), ("set-fire-clear", Kind::SetFireClear), ("set-clear-same-update", Kind::SetClearSameUpdate)] {
        println!("{name} REAL {} | EXPECT bounded", scenario(kind));
    }
}
