//! Sequential model of `crossbeam_channel::unbounded` for symbolic execution.
//!
//! Contract kept (the part of crossbeam-channel's documented behaviour crux relies on):
//! * one FIFO queue per channel, unbounded: `send` never blocks and fails iff every receiver is gone;
//! * `try_recv` returns the oldest message, `Empty` while at least one sender lives and
//!   `Disconnected` once the queue is empty and every sender is gone;
//! * dropping the last receiver drops every queued message;
//! * `len` / `is_empty` report the queue.
//!
//! NOT modelled: blocking `recv`, `select!`, bounded channels, threads (there is no synchronisation:
//! the model is only sound for single-threaded use, which is all Kani executes anyway).

use std::cell::UnsafeCell;
use std::fmt;
use std::sync::Arc;

/// Model bound: at most this many messages queued in one channel at any time.  Exceeding it is a
/// hard failure of the harness (assert), never a silent truncation.
pub const MODEL_CAP: usize = 16;

struct Chan<T> {
    // Fixed-capacity FIFO of boxed messages: buf[head..tail] are pending, oldest first.
    // * enum-free (raw pointers, null = empty): Kani lowers `Option<T>` to a union and CBMC loses
    //   pointer constants read back out of unions in heap memory;
    // * no Vec: pushing onto a Vec whose length is symbolic makes symbolic execution explore the
    //   reallocation path with symbolic sizes on every send.
    buf: UnsafeCell<[*mut T; MODEL_CAP]>,
    head: UnsafeCell<usize>,
    tail: UnsafeCell<usize>,
    senders: UnsafeCell<usize>,
    receivers: UnsafeCell<usize>,
}

// single-threaded model; see module docs
unsafe impl<T: Send> Send for Chan<T> {}
unsafe impl<T: Send> Sync for Chan<T> {}

impl<T> Drop for Chan<T> {
    fn drop(&mut self) {
        self.discard_all();
    }
}

impl<T> Chan<T> {
    #[allow(clippy::mut_from_ref)]
    fn buf(&self) -> &mut [*mut T; MODEL_CAP] {
        unsafe { &mut *self.buf.get() }
    }
    #[allow(clippy::mut_from_ref)]
    fn head(&self) -> &mut usize {
        unsafe { &mut *self.head.get() }
    }
    #[allow(clippy::mut_from_ref)]
    fn tail(&self) -> &mut usize {
        unsafe { &mut *self.tail.get() }
    }
    #[allow(clippy::mut_from_ref)]
    fn senders(&self) -> &mut usize {
        unsafe { &mut *self.senders.get() }
    }
    #[allow(clippy::mut_from_ref)]
    fn receivers(&self) -> &mut usize {
        unsafe { &mut *self.receivers.get() }
    }
    fn pending(&self) -> usize {
        *self.tail() - *self.head()
    }
    fn push(&self, msg: T) {
        let tail = *self.tail();
        assert!(tail < MODEL_CAP, "crossbeam-channel model bound exceeded (MODEL_CAP messages in flight)");
        self.buf()[tail] = Box::into_raw(Box::new(msg));
        *self.tail() = tail + 1;
    }
    fn pop(&self) -> Option<T> {
        let head = *self.head();
        let tail = *self.tail();
        if head < tail {
            let p = self.buf()[head];
            self.buf()[head] = std::ptr::null_mut();
            if head + 1 == tail {
                // drained: restart at the front so that indices stay small
                *self.head() = 0;
                *self.tail() = 0;
            } else {
                *self.head() = head + 1;
            }
            Some(*unsafe { Box::from_raw(p) })
        } else {
            None
        }
    }
    fn discard_all(&self) {
        // take the range first: dropping a message may re-enter this channel
        let head = std::mem::replace(self.head(), 0);
        let tail = std::mem::replace(self.tail(), 0);
        let mut i = head;
        while i < tail {
            let p = std::mem::replace(&mut self.buf()[i], std::ptr::null_mut());
            drop(unsafe { Box::from_raw(p) });
            i += 1;
        }
    }
}

pub struct Sender<T> {
    chan: Arc<Chan<T>>,
}

pub struct Receiver<T> {
    chan: Arc<Chan<T>>,
}

pub fn unbounded<T>() -> (Sender<T>, Receiver<T>) {
    let chan = Arc::new(Chan {
        buf: UnsafeCell::new([std::ptr::null_mut(); MODEL_CAP]),
        head: UnsafeCell::new(0),
        tail: UnsafeCell::new(0),
        senders: UnsafeCell::new(1),
        receivers: UnsafeCell::new(1),
    });
    (Sender { chan: chan.clone() }, Receiver { chan })
}

#[derive(PartialEq, Eq, Clone, Copy)]
pub struct SendError<T>(pub T);

impl<T> fmt::Debug for SendError<T> {
    fn fmt(&self, f: &mut fmt::Formatter<'_>) -> fmt::Result {
        f.write_str("SendError(..)")
    }
}
impl<T> fmt::Display for SendError<T> {
    fn fmt(&self, f: &mut fmt::Formatter<'_>) -> fmt::Result {
        f.write_str("sending on a disconnected channel")
    }
}
impl<T> std::error::Error for SendError<T> {}

impl<T> SendError<T> {
    pub fn into_inner(self) -> T {
        self.0
    }
}

#[derive(PartialEq, Eq, Clone, Copy, Debug)]
pub enum TryRecvError {
    Empty,
    Disconnected,
}
impl fmt::Display for TryRecvError {
    fn fmt(&self, f: &mut fmt::Formatter<'_>) -> fmt::Result {
        match self {
            TryRecvError::Empty => f.write_str("receiving on an empty channel"),
            TryRecvError::Disconnected => {
                f.write_str("receiving on an empty and disconnected channel")
            }
        }
    }
}
impl std::error::Error for TryRecvError {}

#[derive(PartialEq, Eq, Clone, Copy, Debug)]
pub struct RecvError;
impl fmt::Display for RecvError {
    fn fmt(&self, f: &mut fmt::Formatter<'_>) -> fmt::Result {
        f.write_str("receiving on an empty and disconnected channel")
    }
}
impl std::error::Error for RecvError {}

impl<T> Sender<T> {
    pub fn send(&self, msg: T) -> Result<(), SendError<T>> {
        if *self.chan.receivers() == 0 {
            return Err(SendError(msg));
        }
        self.chan.push(msg);
        Ok(())
    }
    pub fn is_empty(&self) -> bool {
        self.chan.pending() == 0
    }
    pub fn len(&self) -> usize {
        self.chan.pending()
    }
    pub fn same_channel(&self, other: &Sender<T>) -> bool {
        Arc::ptr_eq(&self.chan, &other.chan)
    }
}

impl<T> Clone for Sender<T> {
    fn clone(&self) -> Self {
        *self.chan.senders() += 1;
        Sender {
            chan: self.chan.clone(),
        }
    }
}

impl<T> Drop for Sender<T> {
    fn drop(&mut self) {
        *self.chan.senders() -= 1;
    }
}

impl<T> fmt::Debug for Sender<T> {
    fn fmt(&self, f: &mut fmt::Formatter<'_>) -> fmt::Result {
        f.write_str("Sender { .. }")
    }
}

impl<T> Receiver<T> {
    pub fn try_recv(&self) -> Result<T, TryRecvError> {
        match self.chan.pop() {
            Some(m) => Ok(m),
            None => {
                if *self.chan.senders() == 0 {
                    Err(TryRecvError::Disconnected)
                } else {
                    Err(TryRecvError::Empty)
                }
            }
        }
    }
    /// Blocking receive is not modelled: in a sequential world an empty channel with live senders
    /// would block forever, so this panics instead (crux never calls it outside tests).
    pub fn recv(&self) -> Result<T, RecvError> {
        match self.try_recv() {
            Ok(m) => Ok(m),
            Err(TryRecvError::Disconnected) => Err(RecvError),
            Err(TryRecvError::Empty) => panic!("model: blocking recv on an empty channel"),
        }
    }
    pub fn try_iter(&self) -> TryIter<'_, T> {
        TryIter { receiver: self }
    }
    pub fn is_empty(&self) -> bool {
        self.chan.pending() == 0
    }
    pub fn len(&self) -> usize {
        self.chan.pending()
    }
    pub fn same_channel(&self, other: &Receiver<T>) -> bool {
        Arc::ptr_eq(&self.chan, &other.chan)
    }
}

impl<T> Clone for Receiver<T> {
    fn clone(&self) -> Self {
        *self.chan.receivers() += 1;
        Receiver {
            chan: self.chan.clone(),
        }
    }
}

impl<T> Drop for Receiver<T> {
    fn drop(&mut self) {
        let r = self.chan.receivers();
        *r -= 1;
        if *r == 0 {
            // last receiver gone: queued messages are dropped now (as in crossbeam's disconnect)
            self.chan.discard_all();
        }
    }
}

impl<T> fmt::Debug for Receiver<T> {
    fn fmt(&self, f: &mut fmt::Formatter<'_>) -> fmt::Result {
        f.write_str("Receiver { .. }")
    }
}

pub struct TryIter<'a, T> {
    receiver: &'a Receiver<T>,
}

impl<T> Iterator for TryIter<'_, T> {
    type Item = T;
    fn next(&mut self) -> Option<T> {
        self.receiver.try_recv().ok()
    }
}
