//! Model of `slab::Slab` (0.4.9) for symbolic execution.
//!
//! Same observable behaviour for the API subset below, in particular the same *key policy*:
//! `insert` reuses the most recently vacated key (LIFO free list) and otherwise appends at
//! `entries.len()`; `clear` forgets the free list.
//!
//! Storage is enum-free on purpose: every value lives in its own `Box` and the table is a
//! `Vec<*mut T>` (null = vacant) plus an explicit stack of vacant keys.  Kani lowers data-carrying /
//! niche-optimised enums such as `Option<T>` and the real crate's `Entry<T>` to unions, and CBMC
//! loses constant propagation for pointers read back out of a union in heap memory; function
//! pointers (waker vtables, `dyn Future` vtables) read that way send symbolic execution through every
//! address-taken function.  `/verif/check` validates this model natively against the real crate on
//! every run (harness crate self-tests).

use std::fmt;
use std::marker::PhantomData;
use std::ops;
use std::ptr;

pub struct Slab<T> {
    entries: Vec<*mut T>,
    // vacant keys < entries.len(), most recently vacated last
    free: Vec<usize>,
    len: usize,
    _own: PhantomData<T>,
}

unsafe impl<T: Send> Send for Slab<T> {}
unsafe impl<T: Sync> Sync for Slab<T> {}

impl<T> Drop for Slab<T> {
    fn drop(&mut self) {
        self.clear();
    }
}

impl<T> Default for Slab<T> {
    fn default() -> Self {
        Slab::new()
    }
}

pub struct VacantEntry<'a, T> {
    slab: &'a mut Slab<T>,
    key: usize,
}

impl<T> Slab<T> {
    pub const fn new() -> Self {
        Slab {
            entries: Vec::new(),
            free: Vec::new(),
            len: 0,
            _own: PhantomData,
        }
    }

    pub fn with_capacity(capacity: usize) -> Slab<T> {
        // capacity is a performance hint only; the model does not pre-allocate so that symbolic
        // execution does not carry a large array around
        let _ = capacity;
        Slab::new()
    }

    pub fn capacity(&self) -> usize {
        self.entries.capacity()
    }

    pub fn reserve(&mut self, _additional: usize) {}
    pub fn reserve_exact(&mut self, _additional: usize) {}
    pub fn shrink_to_fit(&mut self) {}

    pub fn clear(&mut self) {
        // take the table first: dropping a value may re-enter (it cannot reach this slab, which
        // is mutably borrowed, but keep the state consistent anyway)
        let entries = std::mem::take(&mut self.entries);
        self.free.clear();
        self.len = 0;
        for p in entries {
            if !p.is_null() {
                drop(unsafe { Box::from_raw(p) });
            }
        }
    }

    pub fn len(&self) -> usize {
        self.len
    }

    pub fn is_empty(&self) -> bool {
        self.len == 0
    }

    fn ptr_at(&self, key: usize) -> *mut T {
        if key < self.entries.len() {
            self.entries[key]
        } else {
            ptr::null_mut()
        }
    }

    pub fn get(&self, key: usize) -> Option<&T> {
        let p = self.ptr_at(key);
        if p.is_null() {
            None
        } else {
            Some(unsafe { &*p })
        }
    }

    pub fn get_mut(&mut self, key: usize) -> Option<&mut T> {
        let p = self.ptr_at(key);
        if p.is_null() {
            None
        } else {
            Some(unsafe { &mut *p })
        }
    }

    pub fn vacant_key(&self) -> usize {
        match self.free.last() {
            Some(k) => *k,
            None => self.entries.len(),
        }
    }

    pub fn insert(&mut self, val: T) -> usize {
        let key = self.vacant_key();
        self.insert_at(key, val);
        key
    }

    fn insert_at(&mut self, key: usize, val: T) {
        self.len += 1;
        let p = Box::into_raw(Box::new(val));
        if key == self.entries.len() {
            self.entries.push(p);
        } else {
            let popped = self.free.pop();
            debug_assert!(popped == Some(key));
            self.entries[key] = p;
        }
    }

    pub fn vacant_entry(&mut self) -> VacantEntry<'_, T> {
        let key = self.vacant_key();
        VacantEntry { slab: self, key }
    }

    pub fn try_remove(&mut self, key: usize) -> Option<T> {
        let p = self.ptr_at(key);
        if p.is_null() {
            return None;
        }
        self.entries[key] = ptr::null_mut();
        self.len -= 1;
        self.free.push(key);
        Some(*unsafe { Box::from_raw(p) })
    }

    pub fn remove(&mut self, key: usize) -> T {
        self.try_remove(key).expect("invalid key")
    }

    pub fn contains(&self, key: usize) -> bool {
        !self.ptr_at(key).is_null()
    }

    pub fn retain<F>(&mut self, mut f: F)
    where
        F: FnMut(usize, &mut T) -> bool,
    {
        for i in 0..self.entries.len() {
            let keep = match self.get_mut(i) {
                Some(v) => f(i, v),
                None => true,
            };
            if !keep {
                self.remove(i);
            }
        }
    }

    pub fn iter(&self) -> Iter<'_, T> {
        Iter {
            slab: self,
            next: 0,
            len: self.len,
        }
    }

    pub fn iter_mut(&mut self) -> IterMut<'_, T> {
        let len = self.len;
        IterMut {
            entries: self.entries.iter(),
            key: 0,
            len,
            _m: PhantomData,
        }
    }

    pub fn drain(&mut self) -> Drain<T> {
        let entries = std::mem::take(&mut self.entries);
        let old_len = self.len;
        self.len = 0;
        self.free.clear();
        Drain {
            inner: entries.into_iter(),
            len: old_len,
            _m: PhantomData,
        }
    }
}

impl<T> ops::Index<usize> for Slab<T> {
    type Output = T;
    #[track_caller]
    fn index(&self, key: usize) -> &T {
        match self.get(key) {
            Some(v) => v,
            None => panic!("invalid key"),
        }
    }
}

impl<T> ops::IndexMut<usize> for Slab<T> {
    #[track_caller]
    fn index_mut(&mut self, key: usize) -> &mut T {
        match self.get_mut(key) {
            Some(v) => v,
            None => panic!("invalid key"),
        }
    }
}

impl<'a, T> IntoIterator for &'a Slab<T> {
    type Item = (usize, &'a T);
    type IntoIter = Iter<'a, T>;
    fn into_iter(self) -> Iter<'a, T> {
        self.iter()
    }
}

impl<'a, T> IntoIterator for &'a mut Slab<T> {
    type Item = (usize, &'a mut T);
    type IntoIter = IterMut<'a, T>;
    fn into_iter(self) -> IterMut<'a, T> {
        self.iter_mut()
    }
}

impl<T> fmt::Debug for Slab<T> {
    fn fmt(&self, f: &mut fmt::Formatter<'_>) -> fmt::Result {
        f.write_str("Slab { .. }")
    }
}

impl<'a, T> VacantEntry<'a, T> {
    pub fn insert(self, val: T) -> &'a mut T {
        self.slab.insert_at(self.key, val);
        match self.slab.get_mut(self.key) {
            Some(v) => v,
            None => unreachable!(),
        }
    }
    pub fn key(&self) -> usize {
        self.key
    }
}

pub struct Iter<'a, T> {
    slab: &'a Slab<T>,
    next: usize,
    len: usize,
}

impl<'a, T> Iterator for Iter<'a, T> {
    type Item = (usize, &'a T);
    fn next(&mut self) -> Option<Self::Item> {
        while self.next < self.slab.entries.len() {
            let key = self.next;
            self.next += 1;
            if let Some(v) = self.slab.get(key) {
                self.len -= 1;
                return Some((key, v));
            }
        }
        None
    }
    fn size_hint(&self) -> (usize, Option<usize>) {
        (self.len, Some(self.len))
    }
}

pub struct IterMut<'a, T> {
    entries: std::slice::Iter<'a, *mut T>,
    key: usize,
    len: usize,
    _m: PhantomData<&'a mut T>,
}

impl<'a, T> Iterator for IterMut<'a, T> {
    type Item = (usize, &'a mut T);
    fn next(&mut self) -> Option<Self::Item> {
        for p in &mut self.entries {
            let key = self.key;
            self.key += 1;
            if !p.is_null() {
                self.len -= 1;
                // distinct keys point to distinct boxes, each yielded at most once
                return Some((key, unsafe { &mut **p }));
            }
        }
        None
    }
    fn size_hint(&self) -> (usize, Option<usize>) {
        (self.len, Some(self.len))
    }
}

pub struct Drain<T> {
    inner: std::vec::IntoIter<*mut T>,
    len: usize,
    _m: PhantomData<T>,
}

impl<T> Iterator for Drain<T> {
    type Item = T;
    fn next(&mut self) -> Option<T> {
        for p in &mut self.inner {
            if !p.is_null() {
                self.len -= 1;
                return Some(*unsafe { Box::from_raw(p) });
            }
        }
        None
    }
    fn size_hint(&self) -> (usize, Option<usize>) {
        (self.len, Some(self.len))
    }
}

impl<T> Drop for Drain<T> {
    fn drop(&mut self) {
        for _ in self {}
    }
}
