//! Every scenario prints `<name> REAL <what the shell saw and the app got> | EXPECT <what the property demands>`.
//! A scripted shell answers a request for `http://h/<n>` according to the graph: node n is
//!   R(m)  301 with an absolute Location http://h/<m>
//!   A(m)  308 with an absolute Location on ANOTHER host and directory, http://g/d/<m> (the same node m)
//!   L(m)  302 with a RELATIVE Location "<m>"
//!   N     307 without a Location header
//!   T     200 (terminal)
//!   E     404
//! The app POSTs a 3-byte body to http://h/0 through `Redirect::new(limit)`.
use crux_core::macros::Effect;
use crux_core::testing::AppTester;
use crux_core::Command;
use crux_http::middleware::Redirect;
use crux_http::protocol::{HttpResponse, HttpResult};
use crux_http::Http;
use serde::{Deserialize, Serialize};

#[derive(Default)]
struct App;

#[derive(Serialize, Deserialize, Debug, Clone, PartialEq, Eq)]
enum Event {
    Go(u8),
    /// a stack of `n` marker middlewares (no redirects)
    Stack(u8),
    /// a request-issuing middleware whose nested request carries `n` marker middlewares of its own
    Nested(u8),
    /// the same, the nested request handed to `client.send(request)` instead of awaiting the builder
    NestedSend(u8),
    Done(crux_http::Result<crux_http::Response<Vec<u8>>>),
}

#[derive(Default)]
struct Model {
    outcome: String,
}

#[derive(Effect)]
struct Capabilities {
    http: Http<Event>,
}

impl crux_core::App for App {
    type Event = Event;
    type Model = Model;
    type ViewModel = String;
    type Capabilities = Capabilities;
    type Effect = Effect;

    fn update(&self, event: Event, model: &mut Model, caps: &Capabilities) -> Command<Effect, Event> {
        match event {
            Event::Stack(n) => {
                let mut b = caps.http.post("http://h/0").body_bytes([1u8, 2, 3]);
                for i in 0..n {
                    b = b.middleware(Mark(i));
                }
                b.send(Event::Done);
            }
            Event::Nested(n) => {
                caps.http.post("http://h/0").body_bytes([1u8, 2, 3]).middleware(Issuer { marks: n, via_send: false }).send(Event::Done);
            }
            Event::NestedSend(n) => {
                caps.http.post("http://h/0").body_bytes([1u8, 2, 3]).middleware(Issuer { marks: n, via_send: true }).send(Event::Done);
            }
            Event::Go(limit) => {
                caps.http.post("http://h/0").body_bytes([1u8, 2, 3]).middleware(Redirect::new(limit)).send(Event::Done);
            }
            Event::Done(Ok(r)) => model.outcome = format!("ok{}", u16::from(r.status())),
            Event::Done(Err(crux_http::HttpError::Http { code, .. })) => model.outcome = format!("http{}", u16::from(code)),
            Event::Done(Err(e)) => model.outcome = format!("err({e})"),
        }
        Command::done()
    }
    fn view(&self, model: &Model) -> String {
        model.outcome.clone()
    }
}

static LOG: std::sync::Mutex<Vec<String>> = std::sync::Mutex::new(Vec::new());

/// a middleware that marks when it is entered and left
struct Mark(u8);

#[async_trait::async_trait]
impl crux_http::middleware::Middleware for Mark {
    async fn handle(&self, req: crux_http::Request, client: crux_http::client::Client, next: crux_http::middleware::Next<'_>) -> crux_http::Result<crux_http::ResponseAsync> {
        LOG.lock().unwrap().push(format!("{}<", self.0));
        let r = next.run(req, client).await;
        LOG.lock().unwrap().push(format!("{}>", self.0));
        r
    }
}

/// a middleware that first makes a request of its own through the client it is handed (the documented token-fetch
/// pattern); that nested request carries its own per-request middleware
struct Issuer {
    marks: u8,
    via_send: bool,
}

#[async_trait::async_trait]
impl crux_http::middleware::Middleware for Issuer {
    async fn handle(&self, req: crux_http::Request, client: crux_http::client::Client, next: crux_http::middleware::Next<'_>) -> crux_http::Result<crux_http::ResponseAsync> {
        LOG.lock().unwrap().push("I<".to_string());
        let mut b = client.get("http://n/token");
        for i in 0..self.marks {
            b = b.middleware(Mark(7 + i));
        }
        let nested = if self.via_send { client.send(b.build()).await } else { b.await };
        LOG.lock().unwrap().push(format!("I:{}", nested.map(|r| u16::from(r.status())).unwrap_or(0)));
        let r = next.run(req, client).await;
        LOG.lock().unwrap().push("I>".to_string());
        r
    }
}

fn real_nested(n: u8, via_send: bool) -> String {
    LOG.lock().unwrap().clear();
    let r = std::panic::catch_unwind(|| {
        let core: crux_core::Core<App> = crux_core::Core::new();
        let mut pending = core.process_event(if via_send { Event::NestedSend(n) } else { Event::Nested(n) });
        let mut shell = 0;
        while let Some(Effect::Http(mut req)) = pending.pop() {
            shell += 1;
            LOG.lock().unwrap().push(format!("shell({})", req.operation.url));
            let more = core.resolve(&mut req, HttpResult::Ok(HttpResponse::status(if shell == 1 { 204 } else { 200 }).build())).expect("resolves");
            pending.extend(more);
            if shell > 5 {
                break;
            }
        }
        format!("{}->{}", LOG.lock().unwrap().join(","), core.view())
    });
    r.unwrap_or_else(|_| "PANIC".to_string())
}

fn expected_nested(n: u8) -> String {
    let mut v: Vec<String> = vec!["I<".to_string()];
    v.extend((0..n).map(|i| format!("{}<", 7 + i)));
    v.push("shell(http://n/token)".to_string());
    v.extend((0..n).rev().map(|i| format!("{}>", 7 + i)));
    v.push("I:204".to_string());
    v.push("shell(http://h/0)".to_string());
    v.push("I>".to_string());
    format!("{}->ok200", v.join(","))
}

/// per-request middleware wraps in the order it was attached; the shell is reached exactly once
fn real_stack(n: u8) -> String {
    LOG.lock().unwrap().clear();
    let r = std::panic::catch_unwind(|| {
        let core: crux_core::Core<App> = crux_core::Core::new();
        let mut pending = core.process_event(Event::Stack(n));
        let mut shell = 0;
        while let Some(Effect::Http(mut req)) = pending.pop() {
            shell += 1;
            LOG.lock().unwrap().push("shell".to_string());
            let more = core.resolve(&mut req, HttpResult::Ok(HttpResponse::status(200).build())).expect("resolves");
            pending.extend(more);
            if shell > 5 {
                break;
            }
        }
        format!("{}->{}", LOG.lock().unwrap().join(","), core.view())
    });
    r.unwrap_or_else(|_| "PANIC".to_string())
}

/// the same stack attached through the Command API (`crux_http::command::Http`), whose builder documents
/// `.middleware(..)` in the same words
fn real_cmd_stack(n: u8) -> String {
    LOG.lock().unwrap().clear();
    let r = std::panic::catch_unwind(|| {
        let mut b = crux_http::command::Http::<Effect, Event>::post("http://h/0").body_bytes([1u8, 2, 3]);
        for i in 0..n {
            b = b.middleware(Mark(i));
        }
        let mut cmd: Command<Effect, Event> = b.build().then_send(Event::Done);
        let mut shell = 0;
        let mut outcome = String::new();
        for _ in 0..6 {
            let effects: Vec<Effect> = cmd.effects().collect();
            if effects.is_empty() {
                break;
            }
            for Effect::Http(mut req) in effects {
                shell += 1;
                LOG.lock().unwrap().push("shell".to_string());
                req.resolve(HttpResult::Ok(HttpResponse::status(200).build())).expect("resolves");
            }
        }
        for ev in cmd.events() {
            if let Event::Done(Ok(r)) = ev {
                outcome = format!("ok{}", u16::from(r.status()));
            }
        }
        let _ = shell;
        format!("{}->{}", LOG.lock().unwrap().join(","), outcome)
    });
    r.unwrap_or_else(|_| "PANIC".to_string())
}

fn expected_stack(n: u8) -> String {
    let mut v: Vec<String> = (0..n).map(|i| format!("{i}<")).collect();
    v.push("shell".to_string());
    v.extend((0..n).rev().map(|i| format!("{i}>")));
    format!("{}->ok200", v.join(","))
}

#[derive(Clone, Copy)]
enum Node {
    R(usize),
    A(usize),
    L(usize),
    N,
    T,
    E,
}

fn answer(node: Node) -> HttpResponse {
    match node {
        Node::R(m) => HttpResponse::status(301).header("Location", format!("http://h/{m}")).build(),
        Node::A(m) => HttpResponse::status(308).header("Location", format!("http://g/d/{m}")).build(),
        Node::L(m) => HttpResponse::status(302).header("Location", format!("{m}")).build(),
        Node::N => HttpResponse::status(307).build(),
        Node::T => HttpResponse::status(200).build(),
        Node::E => HttpResponse::status(404).build(),
    }
}

fn node_of(url: &str, graph: &[Node]) -> Option<usize> {
    url.strip_prefix("http://h/").or_else(|| url.strip_prefix("http://g/d/")).and_then(|s| s.parse::<usize>().ok()).filter(|n| *n < graph.len())
}

/// the real thing: "<url>:<bodylen>,..." for every request the shell saw, then "->" and the outcome
fn real(limit: u8, graph: &[Node]) -> String {
    let r = std::panic::catch_unwind(|| {
        let core: crux_core::Core<App> = crux_core::Core::new();
        let mut pending = core.process_event(Event::Go(limit));
        let mut seen = Vec::new();
        let mut rounds = 0;
        while let Some(Effect::Http(mut req)) = pending.pop() {
            rounds += 1;
            if rounds > 30 {
                seen.push("...".to_string());
                break;
            }
            let url = req.operation.url.clone();
            seen.push(format!("{}:{}", url, req.operation.body.len()));
            let resp = match node_of(&url, graph) {
                Some(n) => answer(graph[n]),
                None => HttpResponse::status(500).build(),
            };
            let more = core.resolve(&mut req, HttpResult::Ok(resp)).expect("resolves");
            pending.extend(more);
        }
        format!("{}->{}", seen.join(","), core.view())
    });
    r.unwrap_or_else(|_| "PANIC".to_string())
}

/// the property: at most `limit` body-less probes, each following one redirect (absolute Location: go there;
/// relative: resolve against the current URL; none: probe the same URL again), stop at the first non-redirect
/// answer, then send the original request (3-byte body) to the URL reached; the outcome is that answer's
fn expected(limit: u8, graph: &[Node]) -> String {
    let mut seen = Vec::new();
    let mut url = "http://h/0".to_string();
    let mut at = 0usize;
    let mut probes = 0u8;
    while probes < limit {
        probes += 1;
        seen.push(format!("{url}:0"));
        match graph[at] {
            Node::R(m) => {
                at = m;
                url = format!("http://h/{m}");
            }
            Node::A(m) => {
                at = m;
                url = format!("http://g/d/{m}");
            }
            Node::L(m) => {
                // a relative reference replaces the last path segment of the CURRENT url
                at = m;
                let dir = &url[..=url.rfind('/').unwrap()];
                url = format!("{dir}{m}");
            }
            Node::N => {}
            Node::T | Node::E => break,
        }
    }
    seen.push(format!("{url}:3"));
    let outcome = match graph[at] {
        Node::R(_) => "ok301",
        Node::A(_) => "ok308",
        Node::L(_) => "ok302",
        Node::N => "ok307",
        Node::T => "ok200",
        Node::E => "http404",
    };
    format!("{}->{}", seen.join(","), outcome)
}

fn main() {
    std::panic::set_hook(Box::new(|_| {}));
    use Node::*;
    let graphs: Vec<(&str, Vec<Node>)> = vec![
        ("direct", vec![T]),
        ("one", vec![R(1), T]),
        ("two", vec![R(1), R(2), T]),
        ("three", vec![R(1), R(2), R(3), T]),
        ("four", vec![R(1), R(2), R(3), R(4), T]),
        ("rel", vec![L(1), T]),
        ("relabs", vec![L(1), R(2), L(3), T]),
        ("absrel", vec![A(1), L(2), T]),
        ("absrelrel", vec![A(1), L(2), L(3), T]),
        ("absback", vec![A(1), R(2), L(3), T]),
        ("loop", vec![R(1), R(0)]),
        ("self", vec![R(0)]),
        ("noloc", vec![N]),
        ("noloc2", vec![R(1), N]),
        ("err", vec![R(1), E]),
        ("err0", vec![E]),
    ];
    for n in 0u8..=3 {
        println!("stack-{n} REAL {} | EXPECT {}", real_stack(n), expected_stack(n));
    }
    for n in 0u8..=2 {
        println!("cmdstack-{n} REAL {} | EXPECT {}", real_cmd_stack(n), expected_stack(n));
    }
    for n in 0u8..=2 {
        println!("nested-{n} REAL {} | EXPECT {}", real_nested(n, false), expected_nested(n));
        println!("nestedsend-{n} REAL {} | EXPECT {}", real_nested(n, true), expected_nested(n));
    }
    for (name, g) in &graphs {
        for limit in 0u8..=4 {
            println!("{name}-{limit} REAL {} | EXPECT {}", real(limit, g), expected(limit, g));
        }
    }
}
