//! Every scenario prints `<api>-<name> REAL <what the shell received> | EXPECT <written by hand from the request's description>`
//! in the form `METHOD URL [name=value;name=value...] body=<hex>` (header names lowercased, header lines in the order received).
use crux_core::macros::Effect;
use crux_core::{Command, Request};
use crux_http::command::Http as CmdHttp;
use crux_http::protocol::HttpRequest;
use crux_http::Http;
use serde::{Deserialize, Serialize};

fn show(r: &HttpRequest) -> String {
    let hs: Vec<String> = r.headers.iter().map(|h| format!("{}={}", h.name.to_lowercase(), h.value)).collect();
    format!("{} {} [{}] body={}", r.method, r.url, hs.join(";"), r.body.iter().map(|b| format!("{b:02x}")).collect::<String>())
}

/// a body whose reader fails: no bytes were specified, so no request may reach the shell (both APIs `expect` the conversion)
struct Failing;
impl futures::io::AsyncRead for Failing {
    fn poll_read(self: std::pin::Pin<&mut Self>, _cx: &mut std::task::Context<'_>, _buf: &mut [u8]) -> std::task::Poll<std::io::Result<usize>> {
        std::task::Poll::Ready(Err(std::io::Error::new(std::io::ErrorKind::Other, "reader failed")))
    }
}
fn failing_body() -> crux_http::http::Body {
    crux_http::http::Body::from_reader(futures::io::BufReader::new(Failing), Some(3))
}

#[derive(Serialize)]
struct J {
    a: u32,
    b: String,
}
#[derive(Serialize)]
struct Q {
    q: String,
    n: u32,
}

const NAMES: [&str; 14] = ["failing-reader-body", "repeated-values", "explicit-type-then-json", "unknown-length-body", "plain-get", "headers", "string-body", "json-body", "bytes-body", "form-body", "query", "unicode-url", "empty-post", "content-type-override"];

// ---------------------------------------------------------------- command API
enum CEffect {
    Http(Request<HttpRequest>),
}
impl From<Request<HttpRequest>> for CEffect {
    fn from(r: Request<HttpRequest>) -> Self {
        CEffect::Http(r)
    }
}
#[derive(Debug)]
enum CEvent {
    Got(crux_http::Result<crux_http::Response<Vec<u8>>>),
}

fn command_api(name: &str) -> String {
    type H = CmdHttp<CEffect, CEvent>;
    let langs: Vec<crux_http::http::headers::HeaderValue> = ["en-GB", "fr"].iter().map(|l| l.parse().expect("value")).collect();
    let b = match name {
        "failing-reader-body" => H::post("http://example.com/x").body(failing_body()),
        "repeated-values" => {
            let vs: Vec<crux_http::http::headers::HeaderValue> = ["10.0.0.1", "10.0.0.1", "10.0.0.7", "10.0.0.1"].iter().map(|l| l.parse().expect("value")).collect();
            H::get("http://example.com/r").header("x-forwarded-for", vs.as_slice())
        }
        "explicit-type-then-json" => H::post("http://example.com/t").content_type(crux_http::http::mime::BYTE_STREAM).body_json(&J { a: 1, b: "x".into() }).expect("json"),
        "unknown-length-body" => H::post("http://example.com/u").body(crux_http::http::Body::from_reader(futures::io::Cursor::new(b"abc".to_vec()), None)),
        "plain-get" => H::get("http://example.com/a/b?x=1&y=%20z#frag"),
        "headers" => H::get("http://example.com/").header("X-Custom", "V 1").header("accept-language", langs.as_slice()).header("authorization", "Bearer t"),
        "string-body" => H::post("http://example.com/s").body_string("h\u{e9}llo".to_string()),
        "json-body" => H::post("http://example.com/j").body_json(&J { a: 1, b: "\u{fc}".into() }).expect("json"),
        "bytes-body" => H::put("http://example.com/b").body_bytes([0u8, 255, 128]),
        "form-body" => H::post("http://example.com/f").body_form(&Q { q: "v w".into(), n: 1 }).expect("form"),
        "query" => H::get("http://example.com/search").query(&Q { q: "a b".into(), n: 2 }).expect("query"),
        "unicode-url" => H::delete("http://example.com/\u{fc}?k=\u{f6}"),
        "empty-post" => H::post("http://example.com/e"),
        _ => H::post("http://example.com/c").body_string("{}".to_string()).content_type(crux_http::http::mime::JSON),
    };
    let mut cmd: Command<CEffect, CEvent> = b.build().then_send(CEvent::Got);
    let effects: Vec<CEffect> = cmd.effects().collect();
    if effects.len() != 1 {
        return format!("EFFECTS={}", effects.len());
    }
    let CEffect::Http(req) = &effects[0];
    show(&req.operation)
}

// ---------------------------------------------------------------- capability API
#[derive(Default)]
struct App;
#[derive(Serialize, Deserialize)]
enum Event {
    Go(String),
    Got(crux_http::Result<crux_http::Response<Vec<u8>>>),
}
#[derive(Effect)]
struct Capabilities {
    http: Http<Event>,
}
impl crux_core::App for App {
    type Event = Event;
    type Model = ();
    type ViewModel = ();
    type Capabilities = Capabilities;
    type Effect = Effect;
    fn update(&self, event: Event, _model: &mut (), caps: &Capabilities) -> Command<Effect, Event> {
        if let Event::Go(name) = event {
            let h = &caps.http;
            let langs: Vec<crux_http::http::headers::HeaderValue> = ["en-GB", "fr"].iter().map(|l| l.parse().expect("value")).collect();
            let b = match name.as_str() {
                "failing-reader-body" => h.post("http://example.com/x").body(failing_body()),
                "repeated-values" => {
                    let vs: Vec<crux_http::http::headers::HeaderValue> = ["10.0.0.1", "10.0.0.1", "10.0.0.7", "10.0.0.1"].iter().map(|l| l.parse().expect("value")).collect();
                    h.get("http://example.com/r").header("x-forwarded-for", vs.as_slice())
                }
                "explicit-type-then-json" => h.post("http://example.com/t").content_type(crux_http::http::mime::BYTE_STREAM).body_json(&J { a: 1, b: "x".into() }).expect("json"),
                "unknown-length-body" => h.post("http://example.com/u").body(crux_http::http::Body::from_reader(futures::io::Cursor::new(b"abc".to_vec()), None)),
                "plain-get" => h.get("http://example.com/a/b?x=1&y=%20z#frag"),
                "headers" => h.get("http://example.com/").header("X-Custom", "V 1").header("accept-language", langs.as_slice()).header("authorization", "Bearer t"),
                "string-body" => h.post("http://example.com/s").body_string("h\u{e9}llo".to_string()),
                "json-body" => h.post("http://example.com/j").body_json(&J { a: 1, b: "\u{fc}".into() }).expect("json"),
                "bytes-body" => h.put("http://example.com/b").body_bytes([0u8, 255, 128]),
                "form-body" => h.post("http://example.com/f").body_form(&Q { q: "v w".into(), n: 1 }).expect("form"),
                "query" => h.get("http://example.com/search").query(&Q { q: "a b".into(), n: 2 }).expect("query"),
                "unicode-url" => h.delete("http://example.com/\u{fc}?k=\u{f6}"),
                "empty-post" => h.post("http://example.com/e"),
                _ => h.post("http://example.com/c").body_string("{}".to_string()).content_type(crux_http::http::mime::JSON),
            };
            b.send(Event::Got);
        }
        Command::done()
    }
    fn view(&self, _model: &()) {}
}

fn capability_api(name: &str) -> String {
    let core: crux_core::Core<App> = crux_core::Core::new();
    let effects = core.process_event(Event::Go(name.to_string()));
    if effects.len() != 1 {
        return format!("EFFECTS={}", effects.len());
    }
    let Effect::Http(req) = &effects[0];
    show(&req.operation)
}

fn expected(name: &str) -> &'static str {
    match name {
        "failing-reader-body" => "PANIC",
        "repeated-values" => "GET http://example.com/r [x-forwarded-for=10.0.0.1;x-forwarded-for=10.0.0.1;x-forwarded-for=10.0.0.7;x-forwarded-for=10.0.0.1] body=",
        "explicit-type-then-json" => "POST http://example.com/t [content-type=application/octet-stream] body=7b2261223a312c2262223a2278227d",
        "unknown-length-body" => "POST http://example.com/u [content-type=application/octet-stream] body=616263",
        "plain-get" => "GET http://example.com/a/b?x=1&y=%20z#frag [] body=",
        "headers" => "GET http://example.com/ [accept-language=en-GB;accept-language=fr;authorization=Bearer t;x-custom=V 1] body=",
        "string-body" => "POST http://example.com/s [content-type=text/plain;charset=utf-8] body=68c3a96c6c6f",
        "json-body" => "POST http://example.com/j [content-type=application/json] body=7b2261223a312c2262223a22c3bc227d",
        "bytes-body" => "PUT http://example.com/b [content-type=application/octet-stream] body=00ff80",
        "form-body" => "POST http://example.com/f [content-type=application/x-www-form-urlencoded] body=713d762b77266e3d31",
        "query" => "GET http://example.com/search?q=a+b&n=2 [] body=",
        "unicode-url" => "DELETE http://example.com/%C3%BC?k=%C3%B6 [] body=",
        "empty-post" => "POST http://example.com/e [] body=",
        _ => "POST http://example.com/c [content-type=application/json] body=7b7d",
    }
}

fn main() {
    std::panic::set_hook(Box::new(|_| {}));
    for name in NAMES {
        let c = std::panic::catch_unwind(|| command_api(name)).unwrap_or_else(|_| "PANIC".to_string());
        println!("command-{name} REAL {c} | EXPECT {}", expected(name));
        let k = std::panic::catch_unwind(|| capability_api(name)).unwrap_or_else(|_| "PANIC".to_string());
        println!("capability-{name} REAL {k} | EXPECT {}", expected(name));
    }
}
