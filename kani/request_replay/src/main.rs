//! Every scenario prints `<api>-<name> REAL <what the shell received> | EXPECT <written by hand from the request's description>`
//! in the form `METHOD URL [name=value;name=value...] body=<hex>` (header names lowercased, header lines in the order received).
use crux_core::macros::Effect;
use crux_core::{Command, Request};
use crux_http::command::Http as CmdHttp;
use crux_http::protocol::HttpRequest;
use crux_http::Http;
use serde::{Deserialize, Serialize};

fn show(r: &HttpRequest) -> String {
    let hs: Vec<String> = r.headers.iter().map(|h| format!("{}={}", h.name.to_lowercase(), h.value)).collect();
    format!("{} {} [{}] body={}", r.method, r.url, hs.join(";"), r.body.iter().map(|b| format!("{b:02x}")).collect::<String>())
}

#[derive(Serialize)]
struct J {
    a: u32,
    b: String,
}
#[derive(Serialize)]
struct Q {
    q: String,
    n: u32,
}

const NAMES: [&str; 11] = ["unknown-length-body", "plain-get", "headers", "string-body", "json-body", "bytes-body", "form-body", "query", "unicode-url", "empty-post", "content-type-override"];

// ---------------------------------------------------------------- command API
enum CEffect {
    Http(Request<HttpRequest>),
}
impl From<Request<HttpRequest>> for CEffect {
    fn from(r: Request<HttpRequest>) -> Self {
        CEffect::Http(r)
    }
}
#[derive(Debug)]
enum CEvent {
    Got(crux_http::Result<crux_http::Response<Vec<u8>>>),
}

fn command_api(name: &str) -> String {
    type H = CmdHttp<CEffect, CEvent>;
    let langs: Vec<crux_http::http::headers::HeaderValue> = ["en-GB", "fr"].iter().map(|l| l.parse().expect("value")).collect();
    let b = match name {
        "unknown-length-body" => H::post("http://example.com/u").body(crux_http::http::Body::from_reader(futures::io::Cursor::new(b"abc".to_vec()), None)),
        "plain-get" => H::get("http://example.com/a/b?x=1&y=%20z#frag"),
        "headers" => H::get("http://example.com/").header("X-Custom", "V 1").header("accept-language", langs.as_slice()).header("authorization", "Bearer t"),
        "string-body" => H::post("http://example.com/s").body_string("h\u{e9}llo".to_string()),
        "json-body" => H::post("http://example.com/j").body_json(&J { a: 1, b: "\u{fc}".into() }).expect("json"),
        "bytes-body" => H::put("http://example.com/b").body_bytes([0u8, 255, 128]),
        "form-body" => H::post("http://example.com/f").body_form(&Q { q: "v w".into(), n: 1 }).expect("form"),
        "query" => H::get("http://example.com/search").query(&Q { q: "a b".into(), n: 2 }).expect("query"),
        "unicode-url" => H::delete("http://example.com/\u{fc}?k=\u{f6}"),
        "empty-post" => H::post("http://example.com/e"),
        _ => H::post("http://example.com/c").body_string("{}".to_string()).content_type(crux_http::http::mime::JSON),
    };
    let mut cmd: Command<CEffect, CEvent> = b.build().then_send(CEvent::Got);
    let effects: Vec<CEffect> = cmd.effects().collect();
    if effects.len() != 1 {
        return format!("EFFECTS={}", effects.len());
    }
    let CEffect::Http(req) = &effects[0];
    show(&req.operation)
}

// ---------------------------------------------------------------- capability API
#[derive(Default)]
struct App;
#[derive(Serialize, Deserialize)]
enum Event {
    Go(String),
    Got(crux_http::Result<crux_http::Response<Vec<u8>>>),
}
#[derive(Effect)]
struct Capabilities {
    http: Http<Event>,
}
impl crux_core::App for App {
    type Event = Event;
    type Model = ();
    type ViewModel = ();
    type Capabilities = Capabilities;
    type Effect = Effect;
    fn update(&self, event: Event, _model: &mut (), caps: &Capabilities) -> Command<Effect, Event> {
        if let Event::Go(name) = event {
            let h = &caps.http;
            let langs: Vec<crux_http::http::headers::HeaderValue> = ["en-GB", "fr"].iter().map(|l| l.parse().expect("value")).collect();
            let b = match name.as_str() {
                "unknown-length-body" => h.post("http://example.com/u").body(crux_http::http::Body::from_reader(futures::io::Cursor::new(b"abc".to_vec()), None)),
                "plain-get" => h.get("http://example.com/a/b?x=1&y=%20z#frag"),
                "headers" => h.get("http://example.com/").header("X-Custom", "V 1").header("accept-language", langs.as_slice()).header("authorization", "Bearer t"),
                "string-body" => h.post("http://example.com/s").body_string("h\u{e9}llo".to_string()),
                "json-body" => h.post("http://example.com/j").body_json(&J { a: 1, b: "\u{fc}".into() }).expect("json"),
                "bytes-body" => h.put("http://example.com/b").body_bytes([0u8, 255, 128]),
                "form-body" => h.post("http://example.com/f").body_form(&Q { q: "v w".into(), n: 1 }).expect("form"),
                "query" => h.get("http://example.com/search").query(&Q { q: "a b".into(), n: 2 }).expect("query"),
                "unicode-url" => h.delete("http://example.com/\u{fc}?k=\u{f6}"),
                "empty-post" => h.post("http://example.com/e"),
                _ => h.post("http://example.com/c").body_string("{}".to_string()).content_type(crux_http::http::mime::JSON),
            };
            b.send(Event::Got);
        }
        Command::done()
    }
    fn view(&self, _model: &()) {}
}

fn capability_api(name: &str) -> String {
    let core: crux_core::Core<App> = crux_core::Core::new();
    let effects = core.process_event(Event::Go(name.to_string()));
    if effects.len() != 1 {
        return format!("EFFECTS={}", effects.len());
    }
    let Effect::Http(req) = &effects[0];
    show(&req.operation)
}

fn expected(name: &str) -> &'static str {
    match name {
        "unknown-length-body" => "POST http://example.com/u [content-type=application/octet-stream] body=616263",
        "plain-get" => "GET http://example.com/a/b?x=1&y=%20z#frag [] body=",
        "headers" => "GET http://example.com/ [accept-language=en-GB;accept-language=fr;authorization=Bearer t;x-custom=V 1] body=",
        "string-body" => "POST http://example.com/s [content-type=text/plain;charset=utf-8] body=68c3a96c6c6f",
        "json-body" => "POST http://example.com/j [content-type=application/json] body=7b2261223a312c2262223a22c3bc227d",
        "bytes-body" => "PUT http://example.com/b [content-type=application/octet-stream] body=00ff80",
        "form-body" => "POST http://example.com/f [content-type=application/x-www-form-urlencoded] body=713d762b77266e3d31",
        "query" => "GET http://example.com/search?q=a+b&n=2 [] body=",
        "unicode-url" => "DELETE http://example.com/%C3%BC?k=%C3%B6 [] body=",
        "empty-post" => "POST http://example.com/e [] body=",
        _ => "POST http://example.com/c [content-type=application/json] body=7b7d",
    }
}

fn main() {
    std::panic::set_hook(Box::new(|_| {}));
    for name in NAMES {
        let c = std::panic::catch_unwind(|| command_api(name)).unwrap_or_else(|_| "PANIC".to_string());
        println!("command-{name} REAL {c} | EXPECT {}", expected(name));
        let k = std::panic::catch_unwind(|| capability_api(name)).unwrap_or_else(|_| "PANIC".to_string());
        println!("capability-{name} REAL {k} | EXPECT {}", expected(name));
    }
}
