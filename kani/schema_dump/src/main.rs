//! Prints, as JSON, the serde-reflection registry that crux's real `TypeGen` traces for the
//! capability protocol types (through each operation's own `register_types`, i.e. exactly the types
//! and the tracing calls the shared-types build uses).
use crux_core::capability::Operation;
use crux_core::typegen::{State, TypeGen};
use serde_reflection::{Samples, Tracer, TracerConfig};

fn main() {
    let which = std::env::args().nth(1).unwrap_or_else(|| "time".to_string());
    let mut gen = TypeGen::new();
    match which.as_str() {
        "time" => crux_time::TimeRequest::register_types(&mut gen).expect("time types trace"),
        "kv" => crux_kv::KeyValueOperation::register_types(&mut gen).expect("kv types trace"),
        other => panic!("unknown protocol {other}"),
    }
    let state = std::mem::replace(&mut gen.state, State::Registering(Tracer::new(TracerConfig::default()), Samples::new()));
    let State::Registering(tracer, _) = state else { panic!("generator already left the registering state") };
    let registry = tracer.registry().expect("registry is complete");
    println!("{}", serde_json::to_string_pretty(&registry).unwrap());
}
