// GENERATED on every `./check C10` run by vlib/schema_gen.py from the registry that crux's real TypeGen traces
// from /repo's current working tree.  Do not edit; the committed copy is only a build placeholder.
#![allow(non_snake_case, clippy::all)]
use crate::{nd, roundtrip, rejects, W};

/// TimeRequest shape 0: TimeRequest::now
fn shape_timerequest_0() {
    let mut w = W::new();
    w.put(&[0, 0, 0, 0]); // TimeRequest::now
    roundtrip::<crux_time::TimeRequest>(&w);
    crate::nd_cover!(true, "TimeRequest: TimeRequest::now");
}
/// TimeRequest shape 1: TimeRequest::notifyAt
fn shape_timerequest_1() {
    let mut w = W::new();
    w.put(&[1, 0, 0, 0]); // TimeRequest::notifyAt
    w.put(&nd::any_u64().to_le_bytes());
    w.put(&nd::any_u64().to_le_bytes());
    w.put(&nd::any_u32().to_le_bytes());
    roundtrip::<crux_time::TimeRequest>(&w);
    crate::nd_cover!(true, "TimeRequest: TimeRequest::notifyAt");
}
/// TimeRequest shape 2: TimeRequest::notifyAfter
fn shape_timerequest_2() {
    let mut w = W::new();
    w.put(&[2, 0, 0, 0]); // TimeRequest::notifyAfter
    w.put(&nd::any_u64().to_le_bytes());
    w.put(&nd::any_u64().to_le_bytes());
    roundtrip::<crux_time::TimeRequest>(&w);
    crate::nd_cover!(true, "TimeRequest: TimeRequest::notifyAfter");
}
/// TimeRequest shape 3: TimeRequest::clear
fn shape_timerequest_3() {
    let mut w = W::new();
    w.put(&[3, 0, 0, 0]); // TimeRequest::clear
    w.put(&nd::any_u64().to_le_bytes());
    roundtrip::<crux_time::TimeRequest>(&w);
    crate::nd_cover!(true, "TimeRequest: TimeRequest::clear");
}
#[cfg_attr(kani, kani::proof, kani::unwind(50))]
#[cfg_attr(kani, kani::stub(core::fmt::write, crate::fmt_write_nop))]
pub fn c10_time_timerequest() {
    let v = nd::any_u32();
    match v {
        0 => shape_timerequest_0(),
        1 => shape_timerequest_1(),
        2 => shape_timerequest_2(),
        3 => shape_timerequest_3(),
        _ if v >= 4 => {
            // an index the schema does not define must be rejected, not taken for some variant
            let mut w = W::new();
            w.put(&v.to_le_bytes());
            w.put(&[0u8; 24]);
            rejects::<crux_time::TimeRequest>(&w);
            crate::nd_cover!(true, "TimeRequest: undefined variant index rejected");
        }
        _ => nd::assume(false),
    }
}

/// TimeResponse shape 0: TimeResponse::now
fn shape_timeresponse_0() {
    let mut w = W::new();
    w.put(&[0, 0, 0, 0]); // TimeResponse::now
    w.put(&nd::any_u64().to_le_bytes());
    w.put(&nd::any_u32().to_le_bytes());
    roundtrip::<crux_time::TimeResponse>(&w);
    crate::nd_cover!(true, "TimeResponse: TimeResponse::now");
}
/// TimeResponse shape 1: TimeResponse::instantArrived
fn shape_timeresponse_1() {
    let mut w = W::new();
    w.put(&[1, 0, 0, 0]); // TimeResponse::instantArrived
    w.put(&nd::any_u64().to_le_bytes());
    roundtrip::<crux_time::TimeResponse>(&w);
    crate::nd_cover!(true, "TimeResponse: TimeResponse::instantArrived");
}
/// TimeResponse shape 2: TimeResponse::durationElapsed
fn shape_timeresponse_2() {
    let mut w = W::new();
    w.put(&[2, 0, 0, 0]); // TimeResponse::durationElapsed
    w.put(&nd::any_u64().to_le_bytes());
    roundtrip::<crux_time::TimeResponse>(&w);
    crate::nd_cover!(true, "TimeResponse: TimeResponse::durationElapsed");
}
/// TimeResponse shape 3: TimeResponse::cleared
fn shape_timeresponse_3() {
    let mut w = W::new();
    w.put(&[3, 0, 0, 0]); // TimeResponse::cleared
    w.put(&nd::any_u64().to_le_bytes());
    roundtrip::<crux_time::TimeResponse>(&w);
    crate::nd_cover!(true, "TimeResponse: TimeResponse::cleared");
}
#[cfg_attr(kani, kani::proof, kani::unwind(50))]
#[cfg_attr(kani, kani::stub(core::fmt::write, crate::fmt_write_nop))]
pub fn c10_time_timeresponse() {
    let v = nd::any_u32();
    match v {
        0 => shape_timeresponse_0(),
        1 => shape_timeresponse_1(),
        2 => shape_timeresponse_2(),
        3 => shape_timeresponse_3(),
        _ if v >= 4 => {
            // an index the schema does not define must be rejected, not taken for some variant
            let mut w = W::new();
            w.put(&v.to_le_bytes());
            w.put(&[0u8; 24]);
            rejects::<crux_time::TimeResponse>(&w);
            crate::nd_cover!(true, "TimeResponse: undefined variant index rejected");
        }
        _ => nd::assume(false),
    }
}

/// Instant shape 0: fixed layout
fn shape_instant_0() {
    let mut w = W::new();
    w.put(&nd::any_u64().to_le_bytes());
    w.put(&nd::any_u32().to_le_bytes());
    roundtrip::<crux_time::Instant>(&w);
    crate::nd_cover!(true, "Instant: round trip");
}
#[cfg_attr(kani, kani::proof, kani::unwind(50))]
#[cfg_attr(kani, kani::stub(core::fmt::write, crate::fmt_write_nop))]
pub fn c10_time_instant() {
    shape_instant_0();
}

/// Duration shape 0: fixed layout
fn shape_duration_0() {
    let mut w = W::new();
    w.put(&nd::any_u64().to_le_bytes());
    roundtrip::<crux_time::Duration>(&w);
    crate::nd_cover!(true, "Duration: round trip");
}
#[cfg_attr(kani, kani::proof, kani::unwind(50))]
#[cfg_attr(kani, kani::stub(core::fmt::write, crate::fmt_write_nop))]
pub fn c10_time_duration() {
    shape_duration_0();
}

/// TimerId shape 0: fixed layout
fn shape_timerid_0() {
    let mut w = W::new();
    w.put(&nd::any_u64().to_le_bytes());
    roundtrip::<crux_time::TimerId>(&w);
    crate::nd_cover!(true, "TimerId: round trip");
}
#[cfg_attr(kani, kani::proof, kani::unwind(50))]
#[cfg_attr(kani, kani::stub(core::fmt::write, crate::fmt_write_nop))]
pub fn c10_time_timerid() {
    shape_timerid_0();
}

/// KeyValueResult shape 0: KeyValueResult::Ok KeyValueResponse::Get Value::None
fn shape_keyvalueresult_0() {
    let mut w = W::new();
    w.put(&[0, 0, 0, 0]); // KeyValueResult::Ok
    w.put(&[0, 0, 0, 0]); // KeyValueResponse::Get
    w.put(&[0, 0, 0, 0]); // Value::None
    roundtrip::<crux_kv::KeyValueResult>(&w);
    crate::nd_cover!(true, "KeyValueResult: KeyValueResult::Ok KeyValueResponse::Get Value::None");
}
/// KeyValueResult shape 1: KeyValueResult::Ok KeyValueResponse::Get Value::Bytes bytes[0]
fn shape_keyvalueresult_1() {
    let mut w = W::new();
    w.put(&[0, 0, 0, 0]); // KeyValueResult::Ok
    w.put(&[0, 0, 0, 0]); // KeyValueResponse::Get
    w.put(&[1, 0, 0, 0]); // Value::Bytes
    w.put(&[0, 0, 0, 0, 0, 0, 0, 0]); // bytes[0]
    roundtrip::<crux_kv::KeyValueResult>(&w);
    crate::nd_cover!(true, "KeyValueResult: KeyValueResult::Ok KeyValueResponse::Get Value::Bytes bytes[0]");
}
/// KeyValueResult shape 2: KeyValueResult::Ok KeyValueResponse::Get Value::Bytes bytes[1]
fn shape_keyvalueresult_2() {
    let mut w = W::new();
    w.put(&[0, 0, 0, 0]); // KeyValueResult::Ok
    w.put(&[0, 0, 0, 0]); // KeyValueResponse::Get
    w.put(&[1, 0, 0, 0]); // Value::Bytes
    w.put(&[1, 0, 0, 0, 0, 0, 0, 0]); // bytes[1]
    w.put(&[nd::any_u8()]);
    roundtrip::<crux_kv::KeyValueResult>(&w);
    crate::nd_cover!(true, "KeyValueResult: KeyValueResult::Ok KeyValueResponse::Get Value::Bytes bytes[1]");
}
/// KeyValueResult shape 3: KeyValueResult::Ok KeyValueResponse::Set Value::None
fn shape_keyvalueresult_3() {
    let mut w = W::new();
    w.put(&[0, 0, 0, 0]); // KeyValueResult::Ok
    w.put(&[1, 0, 0, 0]); // KeyValueResponse::Set
    w.put(&[0, 0, 0, 0]); // Value::None
    roundtrip::<crux_kv::KeyValueResult>(&w);
    crate::nd_cover!(true, "KeyValueResult: KeyValueResult::Ok KeyValueResponse::Set Value::None");
}
/// KeyValueResult shape 4: KeyValueResult::Ok KeyValueResponse::Set Value::Bytes bytes[0]
fn shape_keyvalueresult_4() {
    let mut w = W::new();
    w.put(&[0, 0, 0, 0]); // KeyValueResult::Ok
    w.put(&[1, 0, 0, 0]); // KeyValueResponse::Set
    w.put(&[1, 0, 0, 0]); // Value::Bytes
    w.put(&[0, 0, 0, 0, 0, 0, 0, 0]); // bytes[0]
    roundtrip::<crux_kv::KeyValueResult>(&w);
    crate::nd_cover!(true, "KeyValueResult: KeyValueResult::Ok KeyValueResponse::Set Value::Bytes bytes[0]");
}
/// KeyValueResult shape 5: KeyValueResult::Ok KeyValueResponse::Set Value::Bytes bytes[1]
fn shape_keyvalueresult_5() {
    let mut w = W::new();
    w.put(&[0, 0, 0, 0]); // KeyValueResult::Ok
    w.put(&[1, 0, 0, 0]); // KeyValueResponse::Set
    w.put(&[1, 0, 0, 0]); // Value::Bytes
    w.put(&[1, 0, 0, 0, 0, 0, 0, 0]); // bytes[1]
    w.put(&[nd::any_u8()]);
    roundtrip::<crux_kv::KeyValueResult>(&w);
    crate::nd_cover!(true, "KeyValueResult: KeyValueResult::Ok KeyValueResponse::Set Value::Bytes bytes[1]");
}
/// KeyValueResult shape 6: KeyValueResult::Ok KeyValueResponse::Delete Value::None
fn shape_keyvalueresult_6() {
    let mut w = W::new();
    w.put(&[0, 0, 0, 0]); // KeyValueResult::Ok
    w.put(&[2, 0, 0, 0]); // KeyValueResponse::Delete
    w.put(&[0, 0, 0, 0]); // Value::None
    roundtrip::<crux_kv::KeyValueResult>(&w);
    crate::nd_cover!(true, "KeyValueResult: KeyValueResult::Ok KeyValueResponse::Delete Value::None");
}
/// KeyValueResult shape 7: KeyValueResult::Ok KeyValueResponse::Delete Value::Bytes bytes[0]
fn shape_keyvalueresult_7() {
    let mut w = W::new();
    w.put(&[0, 0, 0, 0]); // KeyValueResult::Ok
    w.put(&[2, 0, 0, 0]); // KeyValueResponse::Delete
    w.put(&[1, 0, 0, 0]); // Value::Bytes
    w.put(&[0, 0, 0, 0, 0, 0, 0, 0]); // bytes[0]
    roundtrip::<crux_kv::KeyValueResult>(&w);
    crate::nd_cover!(true, "KeyValueResult: KeyValueResult::Ok KeyValueResponse::Delete Value::Bytes bytes[0]");
}
/// KeyValueResult shape 8: KeyValueResult::Ok KeyValueResponse::Delete Value::Bytes bytes[1]
fn shape_keyvalueresult_8() {
    let mut w = W::new();
    w.put(&[0, 0, 0, 0]); // KeyValueResult::Ok
    w.put(&[2, 0, 0, 0]); // KeyValueResponse::Delete
    w.put(&[1, 0, 0, 0]); // Value::Bytes
    w.put(&[1, 0, 0, 0, 0, 0, 0, 0]); // bytes[1]
    w.put(&[nd::any_u8()]);
    roundtrip::<crux_kv::KeyValueResult>(&w);
    crate::nd_cover!(true, "KeyValueResult: KeyValueResult::Ok KeyValueResponse::Delete Value::Bytes bytes[1]");
}
/// KeyValueResult shape 9: KeyValueResult::Err KeyValueError::io str[0]
fn shape_keyvalueresult_9() {
    let mut w = W::new();
    w.put(&[1, 0, 0, 0]); // KeyValueResult::Err
    w.put(&[0, 0, 0, 0]); // KeyValueError::io
    w.put(&[0, 0, 0, 0, 0, 0, 0, 0]); // str[0]
    roundtrip::<crux_kv::KeyValueResult>(&w);
    crate::nd_cover!(true, "KeyValueResult: KeyValueResult::Err KeyValueError::io str[0]");
}
/// KeyValueResult shape 10: KeyValueResult::Err KeyValueError::timeout
fn shape_keyvalueresult_10() {
    let mut w = W::new();
    w.put(&[1, 0, 0, 0]); // KeyValueResult::Err
    w.put(&[1, 0, 0, 0]); // KeyValueError::timeout
    roundtrip::<crux_kv::KeyValueResult>(&w);
    crate::nd_cover!(true, "KeyValueResult: KeyValueResult::Err KeyValueError::timeout");
}
/// KeyValueResult shape 11: KeyValueResult::Err KeyValueError::cursorNotFound
fn shape_keyvalueresult_11() {
    let mut w = W::new();
    w.put(&[1, 0, 0, 0]); // KeyValueResult::Err
    w.put(&[2, 0, 0, 0]); // KeyValueError::cursorNotFound
    roundtrip::<crux_kv::KeyValueResult>(&w);
    crate::nd_cover!(true, "KeyValueResult: KeyValueResult::Err KeyValueError::cursorNotFound");
}
/// KeyValueResult shape 12: KeyValueResult::Err KeyValueError::other str[0]
fn shape_keyvalueresult_12() {
    let mut w = W::new();
    w.put(&[1, 0, 0, 0]); // KeyValueResult::Err
    w.put(&[3, 0, 0, 0]); // KeyValueError::other
    w.put(&[0, 0, 0, 0, 0, 0, 0, 0]); // str[0]
    roundtrip::<crux_kv::KeyValueResult>(&w);
    crate::nd_cover!(true, "KeyValueResult: KeyValueResult::Err KeyValueError::other str[0]");
}
#[cfg_attr(kani, kani::proof, kani::unwind(50))]
#[cfg_attr(kani, kani::stub(core::fmt::write, crate::fmt_write_nop))]
pub fn c10_kv_keyvalueresult_1() {
    let v = nd::any_u32();
    match v {
        0 => shape_keyvalueresult_0(),
        1 => shape_keyvalueresult_1(),
        2 => shape_keyvalueresult_2(),
        3 => shape_keyvalueresult_3(),
        _ => nd::assume(false),
    }
}
#[cfg_attr(kani, kani::proof, kani::unwind(50))]
#[cfg_attr(kani, kani::stub(core::fmt::write, crate::fmt_write_nop))]
pub fn c10_kv_keyvalueresult_2() {
    let v = nd::any_u32();
    match v {
        0 => shape_keyvalueresult_4(),
        1 => shape_keyvalueresult_5(),
        2 => shape_keyvalueresult_6(),
        3 => shape_keyvalueresult_7(),
        _ => nd::assume(false),
    }
}
#[cfg_attr(kani, kani::proof, kani::unwind(50))]
#[cfg_attr(kani, kani::stub(core::fmt::write, crate::fmt_write_nop))]
pub fn c10_kv_keyvalueresult_3() {
    let v = nd::any_u32();
    match v {
        0 => shape_keyvalueresult_8(),
        1 => shape_keyvalueresult_9(),
        2 => shape_keyvalueresult_10(),
        3 => shape_keyvalueresult_11(),
        _ => nd::assume(false),
    }
}
#[cfg_attr(kani, kani::proof, kani::unwind(50))]
#[cfg_attr(kani, kani::stub(core::fmt::write, crate::fmt_write_nop))]
pub fn c10_kv_keyvalueresult_4() {
    let v = nd::any_u32();
    match v {
        0 => shape_keyvalueresult_12(),
        _ => nd::assume(false),
    }
}

#[cfg(not(kani))]
pub const GENERATED_HARNESSES: &[(&str, fn())] = &[
    ("c10_time_timerequest", c10_time_timerequest),
    ("c10_time_timeresponse", c10_time_timeresponse),
    ("c10_time_instant", c10_time_instant),
    ("c10_time_duration", c10_time_duration),
    ("c10_time_timerid", c10_time_timerid),
    ("c10_kv_keyvalueresult_1", c10_kv_keyvalueresult_1),
    ("c10_kv_keyvalueresult_2", c10_kv_keyvalueresult_2),
    ("c10_kv_keyvalueresult_3", c10_kv_keyvalueresult_3),
    ("c10_kv_keyvalueresult_4", c10_kv_keyvalueresult_4),
];
