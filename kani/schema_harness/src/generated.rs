// GENERATED on every `./check C10` run by vlib/schema_gen.py from the registry that crux's real TypeGen traces
// from /repo's current working tree.  Do not edit; the committed copy is only a build placeholder.
#![allow(non_snake_case, clippy::all)]
use crate::{nd, roundtrip, rejects, W};

/// schema-valid encoding of `Duration` (STRUCT)
pub fn enc_Duration(w: &mut W) {
    w.put(&nd::any_u64().to_le_bytes());
}

/// schema-valid encoding of `Instant` (STRUCT)
pub fn enc_Instant(w: &mut W) {
    w.put(&nd::any_u64().to_le_bytes());
    w.put(&nd::any_u32().to_le_bytes());
}

pub const VARIANTS_TimeRequest: u32 = 4;
/// schema-valid encoding of `TimeRequest`: u32 variant index, then the variant's fields in declaration order
pub fn enc_variant_TimeRequest(w: &mut W, variant: u32) {
    w.put(&variant.to_le_bytes());
    match variant {
        0 => { // now
        }
        1 => { // notifyAt
            enc_TimerId(w);
            enc_Instant(w);
        }
        2 => { // notifyAfter
            enc_TimerId(w);
            enc_Duration(w);
        }
        3 => { // clear
            enc_TimerId(w);
        }
        _ => nd::assume(false),
    }
}
pub fn enc_TimeRequest(w: &mut W) { let v = nd::any_u32(); nd::assume(v < VARIANTS_TimeRequest); enc_variant_TimeRequest(w, v); }

pub const VARIANTS_TimeResponse: u32 = 4;
/// schema-valid encoding of `TimeResponse`: u32 variant index, then the variant's fields in declaration order
pub fn enc_variant_TimeResponse(w: &mut W, variant: u32) {
    w.put(&variant.to_le_bytes());
    match variant {
        0 => { // now
            enc_Instant(w);
        }
        1 => { // instantArrived
            enc_TimerId(w);
        }
        2 => { // durationElapsed
            enc_TimerId(w);
        }
        3 => { // cleared
            enc_TimerId(w);
        }
        _ => nd::assume(false),
    }
}
pub fn enc_TimeResponse(w: &mut W) { let v = nd::any_u32(); nd::assume(v < VARIANTS_TimeResponse); enc_variant_TimeResponse(w, v); }

/// schema-valid encoding of `TimerId` (NEWTYPESTRUCT)
pub fn enc_TimerId(w: &mut W) {
    w.put(&nd::any_u64().to_le_bytes());
}

fn case_timerequest<const V: u32>() {
    let mut w = W::new();
    enc_variant_TimeRequest(&mut w, V);
    roundtrip::<crux_time::TimeRequest>(&w);
    crate::nd_cover!(V == 0, "TimeRequest::now round trip");
    crate::nd_cover!(V == 1, "TimeRequest::notifyAt round trip");
    crate::nd_cover!(V == 2, "TimeRequest::notifyAfter round trip");
    crate::nd_cover!(V == 3, "TimeRequest::clear round trip");
}
#[cfg_attr(kani, kani::proof, kani::unwind(34))]
#[cfg_attr(kani, kani::stub(core::fmt::write, crate::fmt_write_nop))]
pub fn c10_time_timerequest() {
    let v = nd::any_u32();
    match v {
        0 => case_timerequest::<0>(),
        1 => case_timerequest::<1>(),
        2 => case_timerequest::<2>(),
        3 => case_timerequest::<3>(),
        _ => {
            // an index the schema does not define must be rejected, not taken for some variant
            let mut w = W::new();
            w.put(&v.to_le_bytes());
            w.put(&[0u8; 24]);
            rejects::<crux_time::TimeRequest>(&w);
            crate::nd_cover!(true, "TimeRequest: undefined variant index rejected");
        }
    }
}

fn case_timeresponse<const V: u32>() {
    let mut w = W::new();
    enc_variant_TimeResponse(&mut w, V);
    roundtrip::<crux_time::TimeResponse>(&w);
    crate::nd_cover!(V == 0, "TimeResponse::now round trip");
    crate::nd_cover!(V == 1, "TimeResponse::instantArrived round trip");
    crate::nd_cover!(V == 2, "TimeResponse::durationElapsed round trip");
    crate::nd_cover!(V == 3, "TimeResponse::cleared round trip");
}
#[cfg_attr(kani, kani::proof, kani::unwind(34))]
#[cfg_attr(kani, kani::stub(core::fmt::write, crate::fmt_write_nop))]
pub fn c10_time_timeresponse() {
    let v = nd::any_u32();
    match v {
        0 => case_timeresponse::<0>(),
        1 => case_timeresponse::<1>(),
        2 => case_timeresponse::<2>(),
        3 => case_timeresponse::<3>(),
        _ => {
            // an index the schema does not define must be rejected, not taken for some variant
            let mut w = W::new();
            w.put(&v.to_le_bytes());
            w.put(&[0u8; 24]);
            rejects::<crux_time::TimeResponse>(&w);
            crate::nd_cover!(true, "TimeResponse: undefined variant index rejected");
        }
    }
}

#[cfg_attr(kani, kani::proof, kani::unwind(34))]
#[cfg_attr(kani, kani::stub(core::fmt::write, crate::fmt_write_nop))]
pub fn c10_time_instant() {
    let mut w = W::new();
    enc_Instant(&mut w);
    roundtrip::<crux_time::Instant>(&w);
    crate::nd_cover!(true, "Instant round trip");
}

#[cfg_attr(kani, kani::proof, kani::unwind(34))]
#[cfg_attr(kani, kani::stub(core::fmt::write, crate::fmt_write_nop))]
pub fn c10_time_duration() {
    let mut w = W::new();
    enc_Duration(&mut w);
    roundtrip::<crux_time::Duration>(&w);
    crate::nd_cover!(true, "Duration round trip");
}

#[cfg_attr(kani, kani::proof, kani::unwind(34))]
#[cfg_attr(kani, kani::stub(core::fmt::write, crate::fmt_write_nop))]
pub fn c10_time_timerid() {
    let mut w = W::new();
    enc_TimerId(&mut w);
    roundtrip::<crux_time::TimerId>(&w);
    crate::nd_cover!(true, "TimerId round trip");
}

#[cfg(not(kani))]
pub const GENERATED_HARNESSES: &[(&str, fn())] = &[
    ("c10_time_timerequest", c10_time_timerequest),
    ("c10_time_timeresponse", c10_time_timeresponse),
    ("c10_time_instant", c10_time_instant),
    ("c10_time_duration", c10_time_duration),
    ("c10_time_timerid", c10_time_timerid),
];
