//! C10 — generated foreign types describe the actual wire format (fixed-width protocol types).
//!
//! `generated.rs` is produced on every run from the registry that crux's real `TypeGen` traces (through
//! the types' real `Deserialize` impls) from /repo's current tree.  For every root type it writes a
//! schema-valid encoding of an arbitrary value — the byte layout serde-generate's bincode runtime
//! reads and writes for that schema — with one symbolic value per leaf.  The harness then asks the
//! real serde impls, through bincode with the bridge's options:
//!   * the core accepts every schema-valid encoding (shell -> core),
//!   * what it decoded re-encodes to exactly those bytes: the same length (nothing left over, nothing
//!     skipped) and the same content (core -> shell; also: decoding is injective on schema-valid
//!     encodings, so each encoding is accepted *as the value it denotes*),
//!   * a variant index the schema does not define is rejected with an error value.

#[path = "../../core_harness/src/nd.rs"]
pub mod nd;
pub mod generated;

use bincode::Options;
use serde::{de::DeserializeOwned, Serialize};

/// the bridge's options (crux_core/src/bridge/mod.rs, `Bridge::bincode_options`)
fn options() -> impl bincode::Options + Copy {
    bincode::DefaultOptions::new().with_fixint_encoding().allow_trailing_bytes()
}

pub const CAP: usize = 48;

/// fixed-capacity byte writer (no heap, no symbolic-length copies)
pub struct W {
    pub buf: [u8; CAP],
    pub n: usize,
}

impl W {
    pub fn new() -> W {
        W { buf: [0u8; CAP], n: 0 }
    }
    pub fn put(&mut self, bytes: &[u8]) {
        let mut i = 0;
        while i < bytes.len() {
            assert!(self.n < CAP, "harness buffer too small for this schema");
            self.buf[self.n] = bytes[i];
            self.n += 1;
            i += 1;
        }
    }
}

pub fn roundtrip<T: Serialize + DeserializeOwned>(w: &W) {
    let value: T = match options().deserialize(&w.buf[..w.n]) {
        Ok(v) => v,
        Err(_) => panic!("a schema-valid encoding is rejected by the core"),
    };
    let out = match options().serialize(&value) {
        Ok(o) => o,
        Err(_) => panic!("a value the core decoded cannot be serialized"),
    };
    assert!(out.len() == w.n, "the core's encoding has exactly the length the schema prescribes (nothing skipped, nothing extra)");
    let mut i = 0;
    while i < w.n {
        assert!(out[i] == w.buf[i], "the core's encoding is byte for byte the schema's encoding of the same value");
        i += 1;
    }
    // the harness ends here: skipping the drop glue of the decoded value (enums of strings are unions
    // for CBMC; their drop glue dominated symbolic execution) removes nothing that is asserted on
    std::mem::forget(out);
    std::mem::forget(value);
}

pub fn rejects<T: DeserializeOwned>(w: &W) {
    let r: Result<T, _> = options().deserialize(&w.buf[..w.n]);
    let rejected = r.is_err();
    std::mem::forget(r);
    assert!(rejected, "an encoding the schema does not define is rejected");
}

#[cfg(kani)]
pub fn fmt_write_nop(_out: &mut dyn core::fmt::Write, _args: core::fmt::Arguments<'_>) -> core::fmt::Result {
    Ok(())
}

#[cfg(not(kani))]
pub const HARNESSES: &[(&str, fn())] = generated::GENERATED_HARNESSES;

#[cfg(test)]
mod selftest {
    /// every generated harness passes natively on a spread of concrete leaf values
    #[test]
    fn harnesses_pass_natively_on_sample_inputs() {
        std::panic::set_hook(Box::new(|_| {}));
        let mut ran = 0usize;
        let base: u64 = std::env::var("VERIF_SEED").ok().and_then(|v| v.parse().ok()).unwrap_or(0);
        let mut lcg = base.wrapping_mul(6364136223846793005).wrapping_add(1442695040888963407);
        for (name, f) in super::HARNESSES {
            let mut failed = false;
            for seed in 0u32..512 {
                let vals: Vec<Vec<u8>> = (0..16)
                    .map(|i| {
                        let mut bytes = vec![0u8; 8];
                        if i == 0 {
                            bytes[0] = (seed & 7) as u8;
                        } else {
                            match seed >> 3 {
                                0 => {}
                                1 => bytes.iter_mut().for_each(|b| *b = 0xff),
                                _ => {
                                    for b in bytes.iter_mut() {
                                        lcg = lcg.wrapping_mul(6364136223846793005).wrapping_add(1442695040888963407);
                                        *b = (lcg >> 33) as u8;
                                    }
                                }
                            }
                        }
                        bytes
                    })
                    .collect();
                super::nd::load(vals);
                match std::panic::catch_unwind(f) {
                    Ok(()) => ran += 1,
                    Err(p) => {
                        if p.downcast_ref::<&str>() == Some(&super::nd::ASSUME_VIOLATED) {
                            continue;
                        }
                        if !failed {
                            println!("SELFTEST-FAIL {name} seed={seed}");
                        }
                        failed = true;
                    }
                }
            }
        }
        println!("SELFTEST-RAN {ran}");
        assert!(ran > 0);
    }
}
