//! `time_replay consts` prints constants of the real chrono crate; otherwise reads lines
//! `<conversion> <int> <int> ...` from stdin and prints one outcome line per input:
//! `OK <ints>` | `ERR <variant>` | `PANIC <message>` | `BADINPUT <why>`.
use std::panic::{catch_unwind, AssertUnwindSafe};
use std::time::{Duration as StdDuration, SystemTime};

use chrono::{DateTime, NaiveDate, NaiveTime, TimeDelta, Utc};
use crux_time::{Duration, Instant};

fn instant(seconds: u64, nanos: u32) -> Instant {
    // the wire constructor: serde does not validate nanos (Instant::new does)
    serde_json::from_str(&format!("{{\"seconds\":{seconds},\"nanos\":{nanos}}}")).expect("instant json")
}
fn instant_fields(i: &Instant) -> (u64, u32) {
    let v = serde_json::to_value(i).unwrap();
    (v["seconds"].as_u64().unwrap(), v["nanos"].as_u64().unwrap() as u32)
}
fn duration_nanos(d: &Duration) -> u64 {
    serde_json::to_value(d).unwrap()["nanos"].as_u64().unwrap()
}

fn run(conv: &str, a: &[i128]) -> String {
    let g = |i: usize| a.get(i).copied().unwrap_or(0);
    match conv {
        "dur_new" => format!("OK {}", duration_nanos(&Duration::new(g(0) as u64))),
        "dur_from_millis" => format!("OK {}", duration_nanos(&Duration::from_millis(g(0) as u64))),
        "dur_from_secs" => format!("OK {}", duration_nanos(&Duration::from_secs(g(0) as u64))),
        "std_to_dur" => {
            if g(1) >= 1_000_000_000 {
                return "BADINPUT std Duration nanos".into();
            }
            let d: Duration = StdDuration::new(g(0) as u64, g(1) as u32).into();
            format!("OK {}", duration_nanos(&d))
        }
        "dur_to_std" => {
            let d: StdDuration = Duration::new(g(0) as u64).into();
            format!("OK {} {}", d.as_secs(), d.subsec_nanos())
        }
        "inst_new" => {
            let i = Instant::new(g(0) as u64, g(1) as u32);
            let (s, n) = instant_fields(&i);
            format!("OK {s} {n}")
        }
        "st_to_inst" => {
            if g(1) >= 1_000_000_000 {
                return "BADINPUT SystemTime nanos".into();
            }
            // (tv_sec, tv_nsec) with tv_sec < 0 is a time before the epoch: epoch - |tv_sec| s + tv_nsec ns
            let t = if g(0) >= 0 {
                SystemTime::UNIX_EPOCH + StdDuration::new(g(0) as u64, g(1) as u32)
            } else {
                let Some(t) = SystemTime::UNIX_EPOCH.checked_sub(StdDuration::new((-g(0)) as u64, 0)) else {
                    return "BADINPUT SystemTime out of range".into();
                };
                t + StdDuration::new(0, g(1) as u32)
            };
            let i: Instant = t.into();
            let (s, n) = instant_fields(&i);
            format!("OK {s} {n}")
        }
        "inst_to_st" => {
            let t: SystemTime = instant(g(0) as u64, g(1) as u32).into();
            let d = t.duration_since(SystemTime::UNIX_EPOCH).unwrap();
            format!("OK {} {}", d.as_secs(), d.subsec_nanos())
        }
        "td_to_dur" => {
            let Some(td) = TimeDelta::new(g(0) as i64, g(1) as u32) else {
                return "BADINPUT TimeDelta".into();
            };
            match Duration::try_from(td) {
                Ok(d) => format!("OK {}", duration_nanos(&d)),
                Err(e) => format!("ERR {e:?}"),
            }
        }
        "dur_to_td" => match TimeDelta::try_from(Duration::new(g(0) as u64)) {
            Ok(td) => {
                let total = td.num_seconds() as i128 * 1_000_000_000 + td.subsec_nanos() as i128;
                format!("OK {} {}", total.div_euclid(1_000_000_000), total.rem_euclid(1_000_000_000))
            }
            Err(e) => format!("ERR {e:?}"),
        },
        "inst_to_dt" => match DateTime::<Utc>::try_from(instant(g(0) as u64, g(1) as u32)) {
            Ok(dt) => {
                let n = dt.naive_utc();
                format!(
                    "OK {} {} {}",
                    chrono::Datelike::num_days_from_ce(&n.date()),
                    chrono::Timelike::num_seconds_from_midnight(&n.time()),
                    chrono::Timelike::nanosecond(&n.time())
                )
            }
            Err(e) => format!("ERR {e:?}"),
        },
        "dt_to_inst" => {
            let Some(date) = NaiveDate::from_num_days_from_ce_opt(g(0) as i32) else {
                return "BADINPUT date".into();
            };
            let Some(time) = NaiveTime::from_num_seconds_from_midnight_opt(g(1) as u32, g(2) as u32) else {
                return "BADINPUT time".into();
            };
            let dt = date.and_time(time).and_utc();
            match Instant::try_from(dt) {
                Ok(i) => {
                    let (s, n) = instant_fields(&i);
                    format!("OK {s} {n}")
                }
                Err(e) => format!("ERR {e:?}"),
            }
        }
        _ => format!("BADINPUT unknown conversion {conv}"),
    }
}

fn main() {
    let args: Vec<String> = std::env::args().collect();
    if args.get(1).map(String::as_str) == Some("consts") {
        println!(
            "MIN_DAYS={} MAX_DAYS={} TD_MIN_SECS={} TD_MIN_NANOS={} TD_MAX_SECS={} TD_MAX_NANOS={}",
            chrono::Datelike::num_days_from_ce(&NaiveDate::MIN),
            chrono::Datelike::num_days_from_ce(&NaiveDate::MAX),
            TimeDelta::MIN.num_seconds() - if TimeDelta::MIN.subsec_nanos() < 0 { 1 } else { 0 },
            TimeDelta::MIN.subsec_nanos().rem_euclid(1_000_000_000),
            TimeDelta::MAX.num_seconds(),
            TimeDelta::MAX.subsec_nanos()
        );
        return;
    }
    std::panic::set_hook(Box::new(|_| {}));
    let stdin = std::io::stdin();
    let mut line = String::new();
    loop {
        line.clear();
        if stdin.read_line(&mut line).unwrap_or(0) == 0 {
            break;
        }
        let mut it = line.split_whitespace();
        let Some(conv) = it.next() else { continue };
        let nums: Vec<i128> = it.map(|x| x.parse::<i128>().expect("int")).collect();
        let conv = conv.to_string();
        let r = catch_unwind(AssertUnwindSafe(|| run(&conv, &nums)));
        match r {
            Ok(s) => println!("{s}"),
            Err(p) => {
                let msg = p
                    .downcast_ref::<String>()
                    .cloned()
                    .or_else(|| p.downcast_ref::<&str>().map(|s| s.to_string()))
                    .unwrap_or_else(|| "?".into());
                println!("PANIC {}", msg.replace('\n', " "));
            }
        }
    }
}
