//! Each scenario prints `<name> REAL <requests the shell saw>-><outcome> | EXPECT <by hand>`.
//! Requests are written `after(id)`, `at(id)`, `clear(id)` with ids renumbered from the first timer of the scenario (t0, t1).
use std::time::Duration;

use crux_core::{Command, Request};
use crux_time::command::{Time, TimerOutcome};
use crux_time::{TimeRequest, TimeResponse, TimerId};

enum Effect {
    Time(Request<TimeRequest>),
}
impl From<Request<TimeRequest>> for Effect {
    fn from(r: Request<TimeRequest>) -> Self {
        Effect::Time(r)
    }
}
#[derive(Debug)]
enum Event {
    Outcome(u8, TimerOutcome),
}

struct Shell {
    base: Option<usize>,
    seen: Vec<String>,
}
impl Shell {
    fn name(&mut self, id: TimerId) -> String {
        let b = *self.base.get_or_insert(id.0);
        format!("t{}", id.0.wrapping_sub(b))
    }
    fn collect(&mut self, cmd: &mut Command<Effect, Event>) -> Vec<Request<TimeRequest>> {
        let reqs: Vec<Request<TimeRequest>> = cmd.effects().map(|Effect::Time(r)| r).collect();
        for r in &reqs {
            let s = match r.operation.clone() {
                TimeRequest::NotifyAfter { id, .. } => format!("after({})", self.name(id)),
                TimeRequest::NotifyAt { id, .. } => format!("at({})", self.name(id)),
                TimeRequest::Clear { id } => format!("clear({})", self.name(id)),
                TimeRequest::Now => "now".to_string(),
            };
            self.seen.push(s);
        }
        reqs
    }
}

fn outcomes(cmd: &mut Command<Effect, Event>) -> String {
    let v: Vec<String> = cmd
        .events()
        .map(|Event::Outcome(n, o)| match o {
            TimerOutcome::Completed(_) => format!("{n}:completed"),
            TimerOutcome::Cleared => format!("{n}:cleared"),
        })
        .collect();
    v.join(",")
}

fn answer(req: &mut Request<TimeRequest>) {
    let resp = match req.operation.clone() {
        TimeRequest::NotifyAfter { id, .. } => TimeResponse::DurationElapsed { id },
        TimeRequest::NotifyAt { id, .. } => TimeResponse::InstantArrived { id },
        TimeRequest::Clear { id } => TimeResponse::Cleared { id },
        TimeRequest::Now => return,
    };
    let _ = req.resolve(resp);
}

fn scenario(name: &str) -> String {
    let r = std::panic::catch_unwind(|| {
        let mut sh = Shell { base: None, seen: Vec::new() };
        let after = name.starts_with("after");
        let (mut cmd, handle): (Command<Effect, Event>, _) = if after {
            let (b, h) = Time::<Effect, Event>::notify_after(Duration::from_secs(1));
            (b.then_send(|o| Event::Outcome(0, o)), h)
        } else {
            let (b, h) = Time::<Effect, Event>::notify_at(std::time::SystemTime::UNIX_EPOCH + Duration::from_secs(5));
            (b.then_send(|o| Event::Outcome(0, o)), h)
        };
        let mut out = Vec::new();
        match name.split('-').nth(1).unwrap_or("") {
            "fire" => {
                let mut reqs = sh.collect(&mut cmd);
                answer(&mut reqs[0]);
                out.push(outcomes(&mut cmd));
                handle.clear(); // late clear: ignored
                let more = sh.collect(&mut cmd);
                out.push(format!("late-requests={}", more.len()));
            }
            "clearfirst" => {
                handle.clear();
                let reqs = sh.collect(&mut cmd);
                out.push(format!("requests={}", reqs.len()));
                out.push(outcomes(&mut cmd));
            }
            "clearpending" => {
                let mut first = sh.collect(&mut cmd);
                handle.clear();
                let mut second = sh.collect(&mut cmd);
                out.push(format!("outcome-before-answer={}", outcomes(&mut cmd)));
                for r in second.iter_mut() {
                    answer(r);
                }
                out.push(outcomes(&mut cmd));
                // the shell fires the original timer late: ignored
                answer(&mut first[0]);
                out.push(format!("after-late-fire={}", outcomes(&mut cmd)));
            }
            "clearpendinglatefire" => {
                // cleared while pending; the original timer fires BEFORE the shell has answered the Clear: still no outcome
                // until the Clear is answered, and then it is Cleared
                let mut first = sh.collect(&mut cmd);
                handle.clear();
                let mut second = sh.collect(&mut cmd);
                answer(&mut first[0]);
                out.push(format!("after-late-fire={}", outcomes(&mut cmd)));
                let more = sh.collect(&mut cmd);
                out.push(format!("more-requests={}", more.len()));
                for r in second.iter_mut() {
                    answer(r);
                }
                out.push(outcomes(&mut cmd));
            }
            "drophandle" => {
                let mut reqs = sh.collect(&mut cmd);
                drop(handle);
                let extra = sh.collect(&mut cmd);
                answer(&mut reqs[0]);
                out.push(format!("extra={}", extra.len()));
                out.push(outcomes(&mut cmd));
            }
            "firethenclear" => {
                // the answer is already waiting when the timer next runs: completed, no clear is sent
                let mut reqs = sh.collect(&mut cmd);
                answer(&mut reqs[0]);
                handle.clear();
                out.push(outcomes(&mut cmd));
                let more = sh.collect(&mut cmd);
                out.push(format!("late-requests={}", more.len()));
            }
            _ => {
                // two timers at once: distinct ids, each its own outcome
                let (b2, h2) = Time::<Effect, Event>::notify_after(Duration::from_secs(2));
                let mut both = Command::all([cmd, b2.then_send(|o| Event::Outcome(1, o))]);
                let mut reqs = sh.collect(&mut both);
                h2.clear();
                let mut second = sh.collect(&mut both);
                for r in second.iter_mut() {
                    answer(r);
                }
                answer(&mut reqs[0]);
                let mut o = outcomes(&mut both).split(',').map(String::from).collect::<Vec<_>>();
                o.sort();
                out.push(o.join(","));
                drop(handle);
                return format!("{}->{} done={}", sh.seen.join(","), out.join(" "), both.is_done());
            }
        }
        format!("{}->{} done={}", sh.seen.join(","), out.join(" "), cmd.is_done())
    });
    r.unwrap_or_else(|_| "PANIC".to_string())
}

fn main() {
    std::panic::set_hook(Box::new(|_| {}));
    let expect = [
        ("after-fire", "after(t0)->0:completed late-requests=0 done=true"),
        ("at-fire", "at(t0)->0:completed late-requests=0 done=true"),
        ("after-clearfirst", "->requests=0 0:cleared done=true"),
        ("at-clearfirst", "->requests=0 0:cleared done=true"),
        ("after-clearpending", "after(t0),clear(t0)->outcome-before-answer= 0:cleared after-late-fire= done=true"),
        ("at-clearpending", "at(t0),clear(t0)->outcome-before-answer= 0:cleared after-late-fire= done=true"),
        ("after-clearpendinglatefire", "after(t0),clear(t0)->after-late-fire= more-requests=0 0:cleared done=true"),
        ("at-clearpendinglatefire", "at(t0),clear(t0)->after-late-fire= more-requests=0 0:cleared done=true"),
        ("after-drophandle", "after(t0)->extra=0 0:completed done=true"),
        ("after-firethenclear", "after(t0)->0:completed late-requests=0 done=true"),
        ("after-two", "after(t0),after(t1),clear(t1)->0:completed,1:cleared done=true"),
    ];
    for (name, e) in expect {
        println!("{name} REAL {} | EXPECT {e}", scenario(name));
    }
}
