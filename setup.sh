#!/bin/sh
# Build the framework from files on disk only (offline). Everything else is rebuilt by ./check from /repo.
set -e
cd "$(dirname "$0")"
export CARGO_NET_OFFLINE=true
mkdir -p evidence logs replays .target
python3 -c "import sys; sys.path.insert(0,'.'); import vlib.props, vlib.na"
for c in kani/*_harness kani/*_replay; do
  [ -f "$c/Cargo.toml" ] && cp -n /repo/Cargo.lock "$c/Cargo.lock" 2>/dev/null || true
done
command -v cargo-kani >/dev/null || command -v cargo >/dev/null
cargo kani --version
z3 --version
echo setup ok
