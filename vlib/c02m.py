"""C02 on engine M: the resolve closures that `CommandContext::request_from_shell` / `stream_from_shell` put into a
request (crux_core/src/command/context.rs), from the non-inlined MIR of crux_core.

  * one-shot: the closure hands the shell's output to the awaiting task's channel exactly once (a closed channel - the
    task was cancelled - is ignored);
  * stream: the closure hands each output to the channel exactly once and REPORTS whether the consumer is still there:
    Ok(()) iff the send succeeded, Err(()) iff it failed - that is what lets the arity state machine (Kani: C02
    harnesses) answer "finished" once the consumer has gone.
Replay: `kani/bridge_replay` (scenario stream-after-consumer-gone: a task takes two items of a stream and drops it; the
shell's three resolutions must answer Ok, Ok, Err and deliver the first two).
"""
import json
import os
import re
import time

from .c05m import dump_core_light
from .c12m import ContractsBridge, ExecB, build_bridge_replay, calls_of, native_scenarios
from .c15 import one_fn, tok
from .common import EXIT_INCONCLUSIVE, EXIT_OK, EXIT_VIOLATION, LOGS, REPLAYS, say
from .mir import Panic, State, Unsupported, venum, vopaque
from .mir_engine import cvc5_solver, z3_solver

CONTRACT_TEXT = [
    "engine M part: the output and the channel are opaque tokens; futures' UnboundedSender::unbounded_send answers Ok / Err(closed) symbolically (it fails exactly when the receiving end - the awaiting task's future or stream - has been dropped: futures-channel's contract)",
]


class ContractsResolve(ContractsBridge):
    def call(self, ex, st, callee, args):
        c = re.sub(r"\s+", " ", callee)
        if re.search(r"UnboundedSender::<.*>::unbounded_send$", c):
            self.used.add(c)
            st.notes.append(("call", "send", tok(args[0]), tok(args[1])))
            return [("(= snd 0)", venum("Result", "Ok", [vopaque("()")])), ("(= snd 1)", venum("Result", "Err", [vopaque("CLOSED")]))]
        return super().call(ex, st, callee, args)


def run_property(prop, cfg, tier, known, only=None):
    t0 = time.time()
    res = {"exit": EXIT_OK, "findings": [], "queries": 0, "decided": 0, "nontrivial": 0, "obligations": 0, "discharged": 0,
           "solver_s": 0.0, "samples": [], "notes": [], "assumptions": list(CONTRACT_TEXT), "validated_inputs": 0}
    os.makedirs(os.path.join(LOGS, prop), exist_ok=True)
    state = {"code": EXIT_OK}
    witnesses, failed = set(), []

    def inconclusive(msg):
        say("INCONCLUSIVE: " + msg)
        res["notes"].append(msg)
        if state["code"] == EXIT_OK:
            state["code"] = EXIT_INCONCLUSIVE

    ok, binp, out = build_bridge_replay(prop)
    if not ok:
        inconclusive("native driver does not build against /repo: " + " | ".join(str(out).strip().splitlines()[-4:])[-400:])
        res["exit"] = state["code"]
        return res
    mir, err, s1 = dump_core_light(prop)
    if mir is None:
        inconclusive("MIR dump of crux_core failed: " + err[-400:])
        res["exit"] = state["code"]
        return res
    z3 = z3_solver(os.path.join(LOGS, prop, "z3-m.smt2"))
    cv = cvc5_solver(os.path.join(LOGS, prop, "cvc5-m.smt2"))
    for s in (z3, cv):
        s.send("(set-logic ALL)")
        s.send("(declare-const snd Int)")
        s.send("(assert (and (>= snd 0) (<= snd 1)))")

    def ask(assertion):
        for s in (z3, cv):
            s.send("(push 1)")
            s.send(f"(assert {assertion})")
        a, b = z3.check(), cv.check()
        res["queries"] += 1
        for s in (z3, cv):
            s.send("(pop 1)")
        if (a == "unsat" and b in ("unsat", "unknown", "timeout")) or (b == "unsat" and a in ("unknown", "timeout")):
            return "unsat", (a, b)
        if (a == "sat" and b != "unsat") or (b == "sat" and a != "unsat"):
            return "sat", (a, b)
        return "other", (a, b)

    try:
        for unit, which, what in (("stream_resolve_closure", "stream_from_shell", "stream"), ("request_resolve_closure", "request_from_shell", "one-shot")):
            sample = {"unit": unit, "what": f"the resolve closure CommandContext::{which} builds ({what})", "queries": []}
            try:
                fn = one_fn(mir, r"^fn context::<impl at crux_core/src/command/context\.rs:[\d: ]+>::" + which + r"::\{closure#0\}\(_1: ", f"{which} resolve closure")
                contracts = ContractsResolve()
                ex = ExecB(fn, contracts, None)
                paths = ex.run_from(State({"_1": vopaque("CLOSURE"), "_2": vopaque("OUTPUT")}, []), "bb0")
                sample.update({"mir_function": fn.name[-70:], "paths": len(paths), "mir_steps": ex.steps})
                for pc, outcome, notes in paths:
                    cs = calls_of(notes)
                    sends = [c for c in cs if c[0] == "send"]
                    others = [c for c in cs if c[0] == "other"]
                    t = "PANIC" if isinstance(outcome, Panic) else tok(outcome)
                    once = len(sends) == 1 and sends[0][2] == "OUTPUT" and not others
                    if what == "stream":
                        goal = f"(and {'true' if once else 'false'} (=> (= snd 0) {'true' if t == 'Ok(())' else 'false'}) (=> (= snd 1) {'true' if t.startswith('Err(') else 'false'}))"
                        name = "each output is handed to the consumer's channel exactly once and the closure reports Ok iff the consumer took it, Err iff the consumer is gone"
                    else:
                        goal = "true" if once and not isinstance(outcome, Panic) else "false"
                        name = "the output is handed to the awaiting task's channel exactly once; a closed channel (cancelled task) is ignored without panic"
                    pcs = "(and true " + " ".join(pc) + ")"
                    r, ab = ask(pcs)
                    if r == "sat":
                        witnesses.add(f"{unit}: {name[:60]} [{t}]")
                    res["obligations"] += 1
                    r2, ab2 = ask(f"(and {pcs} (not {goal}))")
                    sample["queries"].append({"obligation": name, "path_feasible": r, "z3": ab2[0], "cvc5": ab2[1], "outcome": t, "calls": [c[0] for c in cs]})
                    if r2 == "unsat" or (r2 == "sat" and r == "unsat"):
                        res["decided"] += 1
                        res["discharged"] += 1
                    elif r2 == "sat":
                        res["decided"] += 1
                        failed.append(f"{unit}: {name}")
                    else:
                        inconclusive(f"{unit}: solver answered {ab2}")
            except (Unsupported, KeyError, IndexError, AttributeError, ValueError, TypeError) as u:
                failed.append(f"{unit}: not in the shape the encoding knows ({type(u).__name__}: {str(u)[:120]})")
                sample["encoder_gap"] = f"{type(u).__name__}: {u}"
            res["samples"].append(sample)
            say(f"  [{unit:>24}] paths={sample.get('paths')} obligations={len(sample['queries'])}")
        dev, n = native_scenarios(binp)
        dev = [d for d in dev if d[0].startswith("typed-")]
        res["validated_inputs"] = n
        res["notes"].append(f"native scenarios typed-*: {len(dev)} deviations")
        if failed:
            if dev:
                os.makedirs(os.path.join(REPLAYS, prop), exist_ok=True)
                rp = os.path.join(REPLAYS, prop, f"resolve-{dev[0][0]}.json")
                json.dump({"property": prop, "engine": "mir", "module": "c12m", "scenario": dev[0][0], "real": dev[0][1], "expected": dev[0][2], "obligations": failed[:4]}, open(rp, "w"), indent=1)
                say(f"VIOLATION property={prop} replay={rp}")
                say(f"  {failed[0][:200]}; scenario {dev[0][0]}: the property demands `{dev[0][2]}`, real code -> `{dev[0][1]}`")
                res["findings"].append({"known": False, "unit": "resolve_closures", "desc": failed[0][:120], "replay": rp})
                state["code"] = EXIT_VIOLATION
            else:
                inconclusive(f"{failed[0][:200]} does not hold on the MIR, but the native typed-* scenarios do not deviate")
        elif dev and state["code"] == EXIT_OK:
            inconclusive(f"scenario {dev[0][0]} deviates natively (`{dev[0][1]}` vs `{dev[0][2]}`) although every obligation was discharged")
    finally:
        errs = z3.errors + cv.errors
        res["solver_s"] += z3.time + cv.time
        z3.close()
        cv.close()
        if errs:
            inconclusive("solver error output: " + errs[0][:200])
    res["nontrivial"] = len(witnesses)
    res["witnesses"] = sorted(witnesses)
    res["exit"] = state["code"]
    res["wall"] = time.time() - t0
    return res
