"""C03 / C01 on engine M: the Core's own loop (crux_core/src/core/mod.rs), from a fresh, NON-inlined MIR dump.

Units (each a loop-free fragment of real MIR, executed symbolically; callees are contracts that record the call):
  core_process_loop   `Core::process`: prologue (run_all, then the loop head) and ONE iteration from the loop head
                      (the call of `Receiver::receive` on the event channel) back to it / to the return:
                        Some(ev): write lock -> update exactly once, with exactly ev, on the guarded model ->
                                  the guard is dropped -> the returned command is spawned -> run_all -> loop head;
                        None:     the effect channel is drained and returned; the loop ends in no other way.
  core_process_event  `Core::process_event`: write lock -> update(event argument) -> drop guard -> spawn -> process().
  core_resolve        `Core::resolve`: Request::resolve first; an error is returned without touching the core,
                      otherwise the result of process().
  update_call_sites   `<A as App>::update` is called nowhere else in crux_core's runtime (testing.rs aside).
The received event, the model, the command are opaque tokens; `receive` answers Some/None, `Request::resolve`
Ok/Err (symbolic), a callee the encoding does not know that returns bool yields a fresh symbolic bool.
Failing obligations are replayed with `kani/host_replay` (eight scripted programs, direct vs a real Core, one of
them a chain of events caused by events with its expected outcome written down by hand).
"""
import glob
import json
import os
import re
import shutil
import subprocess
import time

from .c05m import Exec05, build_host_replay, host_runs
from .c15 import Stop, find_fns, one_fn, tok
from .common import EXIT_INCONCLUSIVE, EXIT_OK, EXIT_VIOLATION, LOGS, NIGHTLY, REPLAYS, REPO, TARGET, env_offline, say
from .mir import Panic, State, Unsupported, vbool, venum, vopaque
from .mir_engine import cvc5_solver, z3_solver

from .c05m import dump_core_light  # noqa: E402

CONTRACT_TEXT = [
    "engine M part: events, the model, commands and channels are opaque tokens (dataflow identity); Receiver::receive answers Some(EV) or None, Request::resolve Ok or Err; "
    "RwLock::write(..).expect(..) yields the guard (a poisoned lock - update panicked earlier - is outside)",
    "engine M part: one loop iteration with the back edge cut (inductive step); MIR dumped with -Zmir-opt-level=1 -Zinline-mir=no so that the calls of the loop stay calls",
    "exactly-once, in-order application of events composes this step with: the capability channel being FIFO (crossbeam's contract; model validated natively), the order in which a "
    "Command hands over events (Kani, C01 harnesses) and the Core's hosting loop forwarding item by item (engine M, C05/C01 unit)",
]


class ContractsCore:
    def __init__(self):
        self.used = set()
        self.fresh = []

    def call(self, ex, st, callee, args):
        c = re.sub(r"\s+", " ", callee)
        self.used.add(c)

        def note(*a):
            st.notes.append(("call",) + a)

        if re.search(r"QueuingExecutor::run_all$", c):
            note("run_all")
            return [("true", vopaque("()"))]
        if re.search(r"channel::Receiver::<.*Event>::receive$", c):
            note("receive", tok(args[0]))
            return [("(= rcv 1)", venum("Option", "Some", [vopaque("EV")])), ("(= rcv 0)", venum("Option", "None", []))]
        if re.search(r"RwLock::<.*>::write$", c):
            note("write", tok(args[0]))
            return [("true", vopaque("LOCKRES"))]
        if re.search(r"Result::<(?:std::sync::)?RwLockWriteGuard.*>::expect$", c):
            note("expect", tok(args[0]))
            return [("true", vopaque("GUARD"))]
        if re.search(r"as DerefMut>::deref_mut$", c):
            note("deref_mut", tok(args[0]))
            return [("true", vopaque("MODEL[" + tok(args[0]) + "]"))]
        if re.search(r"^<A as App>::update$", c):
            note("update", tok(args[1]), tok(args[2]))
            return [("true", vopaque("CMD"))]
        if re.search(r"mem::drop::<(?:std::sync::)?RwLockWriteGuard", c):
            note("drop_guard", tok(args[0]))
            return [("true", vopaque("()"))]
        if re.search(r"CommandSpawner::<.*>::spawn$", c):
            note("spawn", tok(args[1]))
            return [("true", vopaque("()"))]
        if re.search(r"channel::Receiver::<.*Effect>::drain$", c):
            note("drain", tok(args[0]))
            return [("true", vopaque("DRAIN"))]
        if re.search(r"as Iterator>::collect::<", c):
            note("collect", tok(args[0]))
            return [("true", vopaque("collect(" + tok(args[0]) + ")"))]
        if re.search(r"Core::<A>::process$", c):
            note("process")
            return [("true", vopaque("PROCESS()"))]
        if re.search(r"Request::<Op>::resolve$", c):
            note("request_resolve", tok(args[0]), tok(args[1]))
            return [("(= rr 0)", venum("Result", "Ok", [vopaque("()")])), ("(= rr 1)", venum("Result", "Err", [vopaque("RESOLVE-ERR")]))]
        if re.search(r"as Try>::branch$", c):
            r0 = args[0]
            if r0.kind == "enum" and r0.variant == "Ok":
                return [("true", venum("ControlFlow", "Continue", [r0.fields[0]]))]
            if r0.kind == "enum" and r0.variant == "Err":
                return [("true", venum("ControlFlow", "Break", [venum("Result", "Err", [r0.fields[0]])]))]
            raise Unsupported("Try::branch on a value that is not a concrete Result")
        if re.search(r"as FromResidual<.*>>::from_residual$", c):
            r0 = args[0]
            if r0.kind == "enum" and r0.variant == "Err":
                return [("true", venum("Result", "Err", [r0.fields[0]]))]
            raise Unsupported("from_residual on a value that is not a concrete Err")
        if re.search(r"result::unwrap_failed|option::expect_failed|option::unwrap_failed|panicking::panic", c):
            return [("true", Panic(args[0].text.strip('"') if args and args[0].kind == "opaque" else "panic"))]
        note("other", c)
        if getattr(ex, "cur_dest_ty", None) == "bool":
            name = f"ub{len(self.fresh)}"
            self.fresh.append((name, c))
            return [("true", vbool(name))]
        return [("true", vopaque(c + "(" + ", ".join(tok(a) for a in args) + ")"))]


def calls_of(notes):
    return [n[1:] for n in notes if n[0] == "call"]


def run_units(prop, want_hosting_loop):
    t0 = time.time()
    res = {"exit": EXIT_OK, "findings": [], "queries": 0, "decided": 0, "nontrivial": 0, "obligations": 0, "discharged": 0,
           "solver_s": 0.0, "samples": [], "notes": [], "assumptions": list(CONTRACT_TEXT), "validated_inputs": 0}
    os.makedirs(os.path.join(LOGS, prop), exist_ok=True)
    state = {"code": EXIT_OK}
    witnesses = set()
    failed = []

    def inconclusive(msg):
        say("INCONCLUSIVE: " + msg)
        res["notes"].append(msg)
        if state["code"] == EXIT_OK:
            state["code"] = EXIT_INCONCLUSIVE

    ok, binp, out = build_host_replay(prop)
    if not ok:
        inconclusive("native host driver does not build against /repo: " + " | ".join(out.strip().splitlines()[-4:])[-400:])
        res["exit"] = state["code"]
        return res
    mir, err, s1 = dump_core_light(prop)
    if mir is None:
        inconclusive("MIR dump of crux_core failed: " + err[-400:])
        res["exit"] = state["code"]
        return res
    res["notes"].append(f"non-inlined MIR dump of crux_core {s1:.0f}s ({mir.count(chr(10))} lines)")
    z3 = z3_solver(os.path.join(LOGS, prop, "z3-core.smt2"))
    cv = cvc5_solver(os.path.join(LOGS, prop, "cvc5-core.smt2"))
    for s in (z3, cv):
        s.send("(set-logic ALL)")
        s.send("(declare-const rcv Int)")
        s.send("(assert (and (>= rcv 0) (<= rcv 1)))")
        s.send("(declare-const rr Int)")
        s.send("(assert (and (>= rr 0) (<= rr 1)))")
    declared = set()

    def ask(assertion):
        for s in (z3, cv):
            s.send("(push 1)")
            s.send(f"(assert {assertion})")
        a, b = z3.check(), cv.check()
        res["queries"] += 1
        for s in (z3, cv):
            s.send("(pop 1)")
        if (a == "unsat" and b in ("unsat", "unknown", "timeout")) or (b == "unsat" and a in ("unknown", "timeout")):
            return "unsat", (a, b)
        if (a == "sat" and b != "unsat") or (b == "sat" and a != "unsat"):
            return "sat", (a, b)
        return "other", (a, b)

    def oblige(unit, name, pc, goal, sample, extra=None):
        pcs = "(and true " + " ".join(pc) + ")"
        r, ab = ask(pcs)
        q = {"obligation": name, "path_feasible": r}
        if extra:
            q.update(extra)
        if r == "sat":
            witnesses.add(f"{unit}: {name}")
        res["obligations"] += 1
        r2, ab2 = ask(f"(and {pcs} (not {goal}))")
        q["z3"], q["cvc5"] = ab2
        sample["queries"].append(q)
        if r2 == "unsat" or (r2 == "sat" and r == "unsat"):
            res["decided"] += 1
            res["discharged"] += 1
        elif r2 == "sat":
            res["decided"] += 1
            failed.append(f"{unit}: {name}")
        else:
            inconclusive(f"{unit} {name}: solver answered {ab2}")

    def execute(fn, contracts, head, start, env_extra=None):
        ex = Exec05(fn, contracts, head)
        env = {}
        for p_, _ in fn.params:
            env[p_] = vopaque("ARG" + p_)
        if env_extra:
            env.update(env_extra)
        paths = ex.run_from(State(env, []), start)
        for name, _ in contracts.fresh:
            if name not in declared:
                declared.add(name)
                for s in (z3, cv):
                    s.send(f"(declare-const {name} Bool)")
        return ex, paths

    try:
        # ---- Core::process
        unit = "core_process_loop"
        sample = {"unit": unit, "what": "Core::process: prologue and one iteration of the event loop from its head", "queries": []}
        try:
            fn = one_fn(mir, r"^fn core::<impl at crux_core/src/core/mod\.rs:[\d: ]+>::process\(_1: &Core<A>\)", "Core::process")
            heads = [bb for bb, lines in fn.blocks.items() if any(re.search(r"Receiver::<.*Event>::receive\(", l) for l in lines)]
            if len(heads) != 1:
                raise Unsupported(f"expected one loop head (the call of Receiver::receive), found {heads}")
            head = heads[0]
            contracts = ContractsCore()
            ex, paths = execute(fn, contracts, head, "bb0")
            sample.update({"mir_function": fn.name, "loop_head": head, "mir_steps": ex.steps})
            # prologue: bb0 -> loop head
            for pc, outcome, notes in paths:
                seq = [c[0] for c in calls_of(notes)]
                good = isinstance(outcome, Stop) and seq == ["run_all"]
                oblige(unit, "before the first event is taken, the tasks already runnable have run (run_all), nothing else", pc, "true" if good else "false", sample, {"calls": seq})
            contracts = ContractsCore()
            ex, paths = execute(fn, contracts, head, head)
            sample["paths"] = len(paths)
            sample["mir_steps"] += ex.steps
            for i, (pc, outcome, notes) in enumerate(paths):
                cs = calls_of(notes)
                seq = [c[0] for c in cs]
                if isinstance(outcome, Panic):
                    oblige(unit, f"no panic ({outcome.msg[:40]})", pc, "false", sample, {"calls": seq})
                elif isinstance(outcome, Stop):
                    want = ["receive", "write", "expect", "deref_mut", "update", "drop_guard", "spawn", "run_all"]
                    good = seq == want
                    if good:
                        d = {c[0]: c for c in cs}
                        good = (d["update"][1] == "EV" and "GUARD" in d["update"][2] and d["drop_guard"][1] == "GUARD" and d["spawn"][1] == "CMD")
                    oblige(unit, "an event taken from the channel: update entered exactly once, with that event, on the guarded model; guard released; the returned command spawned; tasks run; next event",
                           pc, f"(and (= rcv 1) {'true' if good else 'false'})", sample, {"calls": seq})
                else:
                    good = seq == ["receive", "drain", "collect"] and tok(outcome) == "collect(DRAIN)"
                    oblige(unit, "the loop ends only when no event is left, and then hands over the drained effect channel", pc, f"(and (= rcv 0) {'true' if good else 'false'})", sample, {"calls": seq})
        except (Unsupported, KeyError, IndexError, AttributeError, ValueError, TypeError) as u:
            # the loop no longer has the shape the encoding knows: the native programs decide whether that matters
            failed.append(f"{unit}: not in the shape the encoding knows ({type(u).__name__}: {str(u)[:120]})")
            sample["encoder_gap"] = f"{type(u).__name__}: {u}"
        res["samples"].append(sample)
        say(f"  [{unit:>22}] paths={sample.get('paths')} obligations={len(sample['queries'])}")

        # ---- Core::process_event
        unit = "core_process_event"
        sample = {"unit": unit, "what": "Core::process_event: the shell's event is applied under the write guard, then process()", "queries": []}
        try:
            fn = one_fn(mir, r"^fn core::<impl at crux_core/src/core/mod\.rs:[\d: ]+>::process_event\(_1: &Core<A>, _2: ", "Core::process_event")
            contracts = ContractsCore()
            ex, paths = execute(fn, contracts, None, "bb0", {"_2": vopaque("SHELL-EVENT")})
            sample.update({"mir_function": fn.name, "paths": len(paths), "mir_steps": ex.steps})
            for pc, outcome, notes in paths:
                cs = calls_of(notes)
                seq = [c[0] for c in cs]
                if isinstance(outcome, Panic):
                    oblige(unit, f"no panic ({outcome.msg[:40]})", pc, "false", sample, {"calls": seq})
                    continue
                good = seq == ["write", "expect", "deref_mut", "update", "drop_guard", "spawn", "process"] and tok(outcome) == "PROCESS()"
                if good:
                    d = {c[0]: c for c in cs}
                    good = d["update"][1] == "SHELL-EVENT" and "GUARD" in d["update"][2] and d["drop_guard"][1] == "GUARD" and d["spawn"][1] == "CMD"
                oblige(unit, "update entered exactly once with the shell's event on the guarded model, guard released before the command is spawned and process() runs; its effects are returned", pc,
                       "true" if good else "false", sample, {"calls": seq})
        except (Unsupported, KeyError, IndexError, AttributeError, ValueError, TypeError) as u:
            inconclusive(f"{unit}: encoder gap: {type(u).__name__}: {u}")
        res["samples"].append(sample)
        say(f"  [{unit:>22}] paths={sample.get('paths')} obligations={len(sample['queries'])}")

        # ---- Core::resolve
        unit = "core_resolve"
        sample = {"unit": unit, "what": "Core::resolve: the request is resolved first; a rejected resolution returns the error and leaves the core alone", "queries": []}
        try:
            fn = one_fn(mir, r"^fn core::<impl at crux_core/src/core/mod\.rs:[\d: ]+>::resolve\(_1: &Core<A>, _2: &mut ", "Core::resolve")
            contracts = ContractsCore()
            ex, paths = execute(fn, contracts, None, "bb0", {"_2": vopaque("REQUEST"), "_3": vopaque("OUTPUT")})
            sample.update({"mir_function": fn.name, "paths": len(paths), "mir_steps": ex.steps})
            for pc, outcome, notes in paths:
                cs = calls_of(notes)
                seq = [c[0] for c in cs]
                if isinstance(outcome, Panic):
                    oblige(unit, f"no panic ({outcome.msg[:40]})", pc, "false", sample, {"calls": seq})
                    continue
                t = tok(outcome)
                ok_path = seq == ["request_resolve", "process"] and t == "Ok(PROCESS())" and cs[0][1:] == ("REQUEST", "OUTPUT")
                err_path = seq == ["request_resolve"] and t == "Err(RESOLVE-ERR)"
                oblige(unit, "accepted resolution -> process() and its effects; rejected -> the error, nothing run", pc,
                       f"(and (=> (= rr 0) {'true' if ok_path else 'false'}) (=> (= rr 1) {'true' if err_path else 'false'}))", sample, {"calls": seq, "outcome": t[:40]})
        except (Unsupported, KeyError, IndexError, AttributeError, ValueError, TypeError) as u:
            inconclusive(f"{unit}: encoder gap: {type(u).__name__}: {u}")
        res["samples"].append(sample)
        say(f"  [{unit:>22}] paths={sample.get('paths')} obligations={len(sample['queries'])}")

        # ---- call sites of App::update
        unit = "update_call_sites"
        sample = {"unit": unit, "what": "where crux_core calls <A as App>::update", "queries": []}
        sites = []
        for m in re.finditer(r"^fn (.*?)\(", mir, re.M):
            start = m.start()
            end = mir.find("\n}\n", start)
            if re.search(r"= <\w+ as App>::update\(", mir[start:end]):
                sites.append(m.group(1))
        allowed = [s_ for s_ in sites if re.search(r"core::<impl at crux_core/src/core/mod\.rs:[\d: ]+>::(process|process_event)$", s_) or s_.startswith("testing::")]
        runtime = sorted(s_.split(">::")[-1] for s_ in sites if not s_.startswith("testing::"))
        good = len(allowed) == len(sites) and runtime == ["process", "process_event"]
        oblige(unit, "update is entered only from Core::process and Core::process_event (testing.rs aside)", [], "true" if good else "false", sample, {"sites": sites})
        res["samples"].append(sample)
        say(f"  [{unit:>22}] sites={len(sites)}")

        hosting = None
        if want_hosting_loop:
            from . import c05m
            hosting = c05m.run_property(prop, {"nested": True}, "quick", [], None)
            for k in ("queries", "decided", "obligations", "discharged"):
                res[k] += hosting[k]
            res["samples"] += hosting["samples"]
            res["notes"] += hosting["notes"]
            res["findings"] += hosting["findings"]
            witnesses.update(hosting.get("witnesses", []))
            if hosting["exit"] != EXIT_OK and state["code"] == EXIT_OK:
                state["code"] = hosting["exit"]
            if hosting["exit"] == EXIT_VIOLATION:
                state["code"] = EXIT_VIOLATION

        runs = host_runs(binp)
        res["validated_inputs"] += len(runs)
        deviating = [(p_, r_) for p_, r_ in sorted(runs.items()) if r_.get("direct") != r_.get("core")]
        res["notes"].append(f"native differential run: {len(runs)} scripted programs (one a chain of events caused by events, expected outcome by hand) directly and under a real Core: {len(deviating)} deviations")
        if len(runs) < 10:
            inconclusive("native host driver produced fewer than 10 programs")
        if failed:
            if deviating:
                p_, r_ = deviating[0]
                os.makedirs(os.path.join(REPLAYS, prop), exist_ok=True)
                rp = os.path.join(REPLAYS, prop, f"core_loop-{p_}.json")
                json.dump({"property": prop, "engine": "mir", "module": "c05m", "unit": "core_loop", "program": p_, "direct": r_.get("direct"), "core": r_.get("core"),
                           "obligations": failed}, open(rp, "w"), indent=1)
                say(f"VIOLATION property={prop} replay={rp}")
                say(f"  {failed[0]}; program {p_}: the property demands `{r_.get('direct')}`, a real Core gives `{r_.get('core')}`")
                res["findings"].append({"known": False, "unit": "core_loop", "desc": failed[0], "replay": rp})
                state["code"] = EXIT_VIOLATION
            else:
                inconclusive(f"{failed[0]} does not hold on the MIR, but none of the native programs behaves differently under a real Core: encoder gap or a change these programs do not expose")
        elif deviating and state["code"] == EXIT_OK:
            inconclusive(f"program {deviating[0][0]} behaves differently under a real Core ({deviating[0][1]}) although every obligation was discharged: the difference lies outside the encoded fragments")
    finally:
        errs = z3.errors + cv.errors
        res["solver_s"] += z3.time + cv.time
        z3.close()
        cv.close()
        if errs:
            inconclusive("solver error output: " + errs[0][:200])
    res["nontrivial"] = len(witnesses)
    res["witnesses"] = sorted(witnesses)
    res["exit"] = state["code"]
    res["wall"] = time.time() - t0
    return res


def run_property(prop, cfg, tier, known, only=None):
    return run_units(prop, want_hosting_loop=bool(cfg.get("hosting_loop")))
