"""C04 on engine M: one step of each command combinator and primitive, from the non-inlined MIR of crux_core.

Kani cannot run crux's own async blocks (DESIGN section 1), but each combinator's block is a handful of calls in the MIR:
  then_sequences     `Command::then`'s async block, from its start and from both resume points: `self` is hosted first;
                     `other` is hosted only once the first hosting future has answered Ready; each exactly once; the block is
                     Ready only after both are (the hosting futures answer Pending / Ready symbolically).
  and_spawns         `Command::and`: one `spawn` on `self` of a task hosting `other`; `self` is returned.
  map_closures       the per-output closures of map_effect / map_event: the mapped kind goes through the user's function
                     exactly once, the other kind is handed on untouched.
  primitives         the tasks of `event` and `notify_shell`: exactly one send_event / notify_shell with the given value,
                     then finished.
That a hosted command's outputs reach the host unchanged and in order is C05; `all` is the C06 fact.  Replay: fifteen
expressions with hand-written expectations in kani/bridge_replay (`typed-c04-*`).
"""
import json
import os
import re
import time

from .c05m import Exec05, dump_core_light
from .c12m import build_bridge_replay, native_scenarios
from .c15 import one_fn, tok
from .common import EXIT_INCONCLUSIVE, EXIT_OK, EXIT_VIOLATION, LOGS, REPLAYS, say
from .mir import Panic, State, Unsupported, vagg, vbool, venum, vopaque
from .mir_engine import cvc5_solver, z3_solver

CONTRACT_TEXT = [
    "engine M part: commands, contexts, outputs and user functions are opaque tokens (dataflow identity); CommandStreamExt::host returns a hosting future whose poll answers Pending / Ready symbolically "
    "(what hosting does: C05); the composition of these one-step facts into the meaning of an arbitrary expression is an induction over its structure, stated, not run",
]


class ExecC(Exec05):
    def operand(self, st, s):
        s2 = s.strip()
        if not s2.startswith(("copy ", "move ", "const ", "no_retag ")):
            return vopaque(s2)
        return super().operand(st, s)

    def rvalue(self, st, r, dest_ty):
        r2 = r.strip()
        m = re.fullmatch(r"(.*) as (.*) \((Subtype|PtrToPtr|Transmute|PointerCoercion\(.*\))\)", r2)
        if m and m.group(1).startswith(("copy ", "move ")):
            return self.operand(st, m.group(1))
        m = re.fullmatch(r"CommandOutput::<.*>::(Effect|Event)\((.*)\)", r2)
        if m:
            return venum("CommandOutput", m.group(1), [self.operand(st, m.group(2))])
        m = re.fullmatch(r"(\{closure@[^}]*\}) \{ (.*) \}", r2)
        if m:
            from .mir import split_top
            return vagg([self.operand(st, re.match(r"\w+: (.*)$", f).group(1)) for f in split_top(m.group(2))], name=m.group(1))
        return super().rvalue(st, r, dest_ty)


class ContractsC:
    def __init__(self):
        self.used = set()
        self.fresh = []

    def call(self, ex, st, callee, args):
        c = re.sub(r"\s+", " ", callee)
        self.used.add(c)

        def note(*a):
            st.notes.append(("call",) + a)

        if re.search(r"as Clone>::clone$", c):
            return [("true", vopaque("clone(" + tok(args[0]) + ")"))]
        if re.search(r"as CommandStreamExt<.*>>::host$", c):
            note("host", tok(args[0]), tok(args[1]), tok(args[2]))
            return [("true", vopaque("HOSTFUT[" + tok(args[0]) + "]"))]
        if re.search(r"IntoFuture>::into_future$", c):
            return [("true", args[0])]
        if re.search(r"Pin::<.*>::new_unchecked$", c):
            return [("true", args[0])]
        if re.search(r"^<Forward<.*> as (?:futures::|futures_util::|std::future::)?Future>::poll$", c):
            k = sum(1 for n in st.notes if n[0] == "call" and n[1] == "poll") + 1
            note("poll", tok(args[0]))
            return [(f"(= p{k} 0)", venum("Poll", "Pending", [])), (f"(= p{k} 1)", venum("Poll", "Ready", [vopaque("FWD-RESULT")]))]
        if re.search(r"Command::<.*>::spawn::<", c):
            note("spawn", tok(args[0]), tok(args[1]))
            return [("true", vopaque("()"))]
        if re.search(r"^<F as Fn<⟨(Effect|Event),⟩>>::call$", c) or re.search(r"^<F as Fn<.(Effect|Event),.>>::call$", c):
            note("user_map", tok(args[0]), tok(args[1]))
            return [("true", vopaque("F(" + tok(args[1]) + ")"))]
        if re.search(r"CommandContext::<.*>::send_event$", c):
            note("send_event", tok(args[1]))
            return [("true", vopaque("()"))]
        if re.search(r"CommandContext::<.*>::notify_shell::<", c):
            note("notify_shell", tok(args[1]))
            return [("true", vopaque("()"))]
        if re.search(r"result::unwrap_failed|option::expect_failed|option::unwrap_failed|panicking::panic", c):
            return [("true", Panic(args[0].text.strip('"') if args and args[0].kind == "opaque" else "panic"))]
        note("other", c)
        if getattr(ex, "cur_dest_ty", None) == "bool":
            name = f"ub{len(self.fresh)}"
            self.fresh.append((name, c))
            return [("true", vbool(name))]
        return [("true", vopaque(c + "(" + ", ".join(tok(a) for a in args) + ")"))]


def calls_of(notes):
    return [n[1:] for n in notes if n[0] == "call"]


def coroutine_env(fn, mir):
    """pseudo-locals for the coroutine's saved state, named after the debug info; drop flags false"""
    env = {}
    for p_, _ in fn.params:
        env[p_] = vopaque("coroutine-arg")
    body = "\n".join(sum(fn.blocks.values(), []))
    for loc in set(re.findall(r"\(\*(_\d+)\)", body)):
        env.setdefault(loc, vopaque("coroutine-state"))
    seg = mir[mir.find(fn.header):mir.find(fn.header) + 12000]
    for m_ in re.finditer(r"debug (\w+) => \(\(\(\*(_\d+)\) as variant#(\d+)\)\.(\d+): ", seg):
        env.setdefault(f"_9{int(m_.group(2)[1:]):03d}{int(m_.group(3)):02d}{int(m_.group(4)):02d}", vopaque(m_.group(1).upper()))
    for m_ in re.finditer(r"debug (\w+) => \(\(\*(_\d+)\)\.(\d+): ", seg):
        env.setdefault(f"_8{int(m_.group(2)[1:]):03d}{int(m_.group(3)):02d}", vopaque(m_.group(1).upper()))
    for m_ in set(re.findall(r"\(\(\(\*(_\d+)\) as variant#(\d+)\)\.(\d+): bool\)", body)):
        env.setdefault(f"_9{int(m_[0][1:]):03d}{int(m_[1]):02d}{int(m_[2]):02d}", vbool("false"))
    for m_ in set(re.findall(r"\(\(\*(_\d+)\)\.(\d+): bool\)", body)):
        env.setdefault(f"_8{int(m_[0][1:]):03d}{int(m_[1]):02d}", vbool("false"))
    return env


def state_targets(fn):
    m = re.search(r"switchInt\(move _\d+\) -> \[(.*)\]", fn.blocks["bb0"][-1])
    out = {}
    for t in m.group(1).split(","):
        k, bb = t.strip().split(": ")
        if k != "otherwise":
            out[int(k)] = bb
    return out


def run_property(prop, cfg, tier, known, only=None):
    t0 = time.time()
    res = {"exit": EXIT_OK, "findings": [], "queries": 0, "decided": 0, "nontrivial": 0, "obligations": 0, "discharged": 0,
           "solver_s": 0.0, "samples": [], "notes": [], "assumptions": list(CONTRACT_TEXT), "validated_inputs": 0}
    os.makedirs(os.path.join(LOGS, prop), exist_ok=True)
    state = {"code": EXIT_OK}
    witnesses, failed = set(), []

    def inconclusive(msg):
        say("INCONCLUSIVE: " + msg)
        res["notes"].append(msg)
        if state["code"] == EXIT_OK:
            state["code"] = EXIT_INCONCLUSIVE

    ok, binp, out = build_bridge_replay(prop)
    if not ok:
        inconclusive("native driver does not build against /repo: " + " | ".join(str(out).strip().splitlines()[-4:])[-400:])
        res["exit"] = state["code"]
        return res
    mir, err, s1 = dump_core_light(prop)
    if mir is None:
        inconclusive("MIR dump of crux_core failed: " + err[-400:])
        res["exit"] = state["code"]
        return res
    res["notes"].append(f"non-inlined MIR dump of crux_core {s1:.0f}s")
    z3 = z3_solver(os.path.join(LOGS, prop, "z3.smt2"))
    cv = cvc5_solver(os.path.join(LOGS, prop, "cvc5.smt2"))
    for s in (z3, cv):
        s.send("(set-logic ALL)")
        for v in ("p1", "p2", "p3", "kind"):
            s.send(f"(declare-const {v} Int)")
            s.send(f"(assert (and (>= {v} 0) (<= {v} 1)))")

    def ask(assertion):
        for s in (z3, cv):
            s.send("(push 1)")
            s.send(f"(assert {assertion})")
        a, b = z3.check(), cv.check()
        res["queries"] += 1
        for s in (z3, cv):
            s.send("(pop 1)")
        if (a == "unsat" and b in ("unsat", "unknown", "timeout")) or (b == "unsat" and a in ("unknown", "timeout")):
            return "unsat", (a, b)
        if (a == "sat" and b != "unsat") or (b == "sat" and a != "unsat"):
            return "sat", (a, b)
        return "other", (a, b)

    def oblige(unit, name, pc, goal, sample, extra=None):
        pcs = "(and true " + " ".join(pc) + ")"
        r, ab = ask(pcs)
        q = {"obligation": name, "path_feasible": r}
        if extra:
            q.update(extra)
        if r == "sat":
            witnesses.add(f"{unit}: {name[:70]} {extra.get('outcome', '') if extra else ''}")
        res["obligations"] += 1
        r2, ab2 = ask(f"(and {pcs} (not {goal}))")
        q["z3"], q["cvc5"] = ab2
        sample["queries"].append(q)
        if r2 == "unsat" or (r2 == "sat" and r == "unsat"):
            res["decided"] += 1
            res["discharged"] += 1
        elif r2 == "sat":
            res["decided"] += 1
            failed.append(f"{unit}: {name}")
        else:
            inconclusive(f"{unit} {name}: solver answered {ab2}")

    IMPL = r"^fn command::<impl at crux_core/src/command/mod\.rs:[\d: ]+>::"
    try:
        # ---- then
        unit = "then_sequences"
        sample = {"unit": unit, "what": "Command::then's async block from its start and from both resume points", "queries": []}
        try:
            fn = one_fn(mir, IMPL + r"then::\{closure#0\}::\{closure#0\}\(_1: Pin<&mut \{async block", "then's async block")
            targets = state_targets(fn)
            entries = {"start": targets[0]}
            for k, bb in targets.items():
                if k >= 3:
                    entries[f"resumed at await {k - 2}"] = bb
            for label, bb in entries.items():
                contracts = ContractsC()
                ex = ExecC(fn, contracts, None)
                env = coroutine_env(fn, mir)
                if label != "start":
                    # the hosting futures already created before this resume point
                    for key, val in list(env.items()):
                        if val.kind == "opaque" and val.text == "__AWAITEE":
                            env[key] = vopaque("HOSTFUT[saved]")
                paths = ex.run_from(State(env, []), bb)
                sample["paths"] = sample.get("paths", 0) + len(paths)
                sample["mir_steps"] = sample.get("mir_steps", 0) + ex.steps
                for i, (pc, outcome, notes) in enumerate(paths):
                    cs = calls_of(notes)
                    seq = [c[0] for c in cs]
                    t = "PANIC " + outcome.msg if isinstance(outcome, Panic) else tok(outcome)
                    extra = {"entry": label, "calls": seq, "outcome": t[:20], "hosted": [c[1] for c in cs if c[0] == "host"]}
                    if isinstance(outcome, Panic):
                        oblige(unit, f"{label}: no panic", pc, "false", sample, extra)
                        continue
                    hosts = [c for c in cs if c[0] == "host"]
                    polls = [c for c in cs if c[0] == "poll"]
                    others = [c for c in cs if c[0] == "other"]
                    if label == "start":
                        shape_ok = (not others and 1 <= len(hosts) <= 2 and "SELF" in hosts[0][1] and seq.index("host") < seq.index("poll")
                                    and (len(hosts) == 1 or ("OTHER" in hosts[1][1] and seq.index("poll") < len(seq) - 1 - seq[::-1].index("host"))))
                        if len(hosts) == 1:
                            goal = f"(and {'true' if shape_ok and t.startswith('Pending') and len(polls) == 1 else 'false'} (= p1 0))"
                            name = "the first part is hosted and still running: pending, the second part not touched"
                        elif t.startswith("Pending"):
                            goal = f"(and {'true' if shape_ok and len(polls) == 2 else 'false'} (= p1 1) (= p2 0))"
                            name = "the second part is hosted only after the first hosting finished; pending while it runs"
                        else:
                            goal = f"(and {'true' if shape_ok and len(polls) == 2 and t.startswith('Ready') else 'false'} (= p1 1) (= p2 1))"
                            name = "finished exactly when both parts have finished, in that order"
                    elif label.endswith("1"):
                        # resumed while the first part was running: it is polled again, never re-hosted
                        again_ok = not others and polls and len([h for h in hosts if "SELF" in h[1]]) == 0
                        if not hosts:
                            goal = f"(and {'true' if again_ok and t.startswith('Pending') and len(polls) == 1 else 'false'} (= p1 0))"
                            name = "resumed: the first part is polled again (not hosted again), still pending"
                        elif t.startswith("Pending"):
                            goal = f"(and {'true' if again_ok and len(hosts) == 1 and 'OTHER' in hosts[0][1] and len(polls) == 2 else 'false'} (= p1 1) (= p2 0))"
                            name = "resumed: the first part finished, now the second part is hosted"
                        else:
                            goal = f"(and {'true' if again_ok and len(hosts) == 1 and 'OTHER' in hosts[0][1] and len(polls) == 2 else 'false'} (= p1 1) (= p2 1))"
                            name = "resumed: both finished"
                    else:
                        ok2 = not others and not hosts and len(polls) == 1
                        goal = f"(and {'true' if ok2 else 'false'} (or (and (= p1 0) {'true' if t.startswith('Pending') else 'false'}) (and (= p1 1) {'true' if t.startswith('Ready') else 'false'})))"
                        name = "resumed in the second part: only the second hosting future is polled, nothing is hosted again"
                    oblige(unit, name, pc, goal, sample, extra)
        except (Unsupported, KeyError, IndexError, AttributeError, ValueError, TypeError) as u:
            failed.append(f"{unit}: not in the shape the encoding knows ({type(u).__name__}: {str(u)[:120]})")
            sample["encoder_gap"] = f"{type(u).__name__}: {u}"
        res["samples"].append(sample)
        say(f"  [{unit:>18}] paths={sample.get('paths')} obligations={len(sample['queries'])}")

        # ---- and
        unit = "and_spawns"
        sample = {"unit": unit, "what": "Command::and", "queries": []}
        try:
            fn = one_fn(mir, IMPL + r"and\(_1: command::Command<Effect, Event>, _2: command::Command<Effect, Event>\)", "Command::and")
            contracts = ContractsC()
            ex = ExecC(fn, contracts, None)
            paths = ex.run_from(State({"_1": vopaque("SELF"), "_2": vopaque("OTHER")}, []), "bb0")
            for pc, outcome, notes in paths:
                cs = calls_of(notes)
                good = (not isinstance(outcome, Panic) and [c[0] for c in cs] == ["spawn"] and cs[0][1] == "&SELF" and "OTHER" in cs[0][2] and "mod.rs" in cs[0][2] and tok(outcome) == "SELF")
                oblige(unit, "one task hosting the other command is spawned on self, and self is what is returned", pc, "true" if good else "false", sample,
                       {"calls": [c[0] for c in cs], "outcome": tok(outcome)[:20] if not isinstance(outcome, Panic) else "PANIC"})
            fnc = one_fn(mir, IMPL + r"and::\{closure#0\}\(_1: \{closure@", "and's task closure")
            contracts = ContractsC()
            ex = ExecC(fnc, contracts, None)
            paths = ex.run_from(State({"_1": vagg([vopaque("OTHER")], name="closure"), "_2": vagg([vopaque("CTX-EFFECTS"), vopaque("CTX-EVENTS")], name="ctx")}, []), "bb0")
            for pc, outcome, notes in paths:
                cs = calls_of(notes)
                hosts = [c for c in cs if c[0] == "host"]
                good = not isinstance(outcome, Panic) and len(hosts) == 1 and hosts[0][1] == "OTHER" and not [c for c in cs if c[0] == "other" and "map" not in c[1]]
                oblige(unit, "that task hosts the other command on the context's channels, once", pc, "true" if good else "false", sample, {"calls": [c[0] for c in cs], "hosted": [h[1] for h in hosts]})
        except (Unsupported, KeyError, IndexError, AttributeError, ValueError, TypeError) as u:
            failed.append(f"{unit}: not in the shape the encoding knows ({type(u).__name__}: {str(u)[:120]})")
            sample["encoder_gap"] = f"{type(u).__name__}: {u}"
        res["samples"].append(sample)
        say(f"  [{unit:>18}] obligations={len(sample['queries'])}")

        # ---- map closures
        unit = "map_closures"
        sample = {"unit": unit, "what": "the per-output closures of map_effect and map_event", "queries": []}
        for which, mapped, other in (("map_effect", "Effect", "Event"), ("map_event", "Event", "Effect")):
            try:
                fn = one_fn(mir, IMPL + which + r"::\{closure#0\}::\{closure#0\}::\{closure#0\}\(_1: &mut \{closure@", f"{which} output closure")
                for kind in (mapped, other):
                    contracts = ContractsC()
                    ex = ExecC(fn, contracts, None)
                    from .mir import Val
                    paths = ex.run_from(State({"_1": Val("ref", target=vagg([vopaque("USERFN")], name="closure")), "_2": venum("CommandOutput", kind, [vopaque("X")])}, []), "bb0")
                    for pc, outcome, notes in paths:
                        cs = calls_of(notes)
                        t = "PANIC" if isinstance(outcome, Panic) else tok(outcome)
                        if kind == mapped:
                            good = [c[0] for c in cs] == ["user_map"] and "USERFN" in cs[0][1] and "X" in cs[0][2] and t.startswith(mapped + "(F(")
                            name = f"{which}: a {mapped.lower()} goes through the user's function exactly once and comes out as a {mapped.lower()}"
                        else:
                            good = not cs and t == other + "(X)"
                            name = f"{which}: a {other.lower()} is handed on untouched, the user's function is not called"
                        oblige(unit, name, pc, "true" if good else "false", sample, {"calls": [c[0] for c in cs], "outcome": t[:30]})
            except (Unsupported, KeyError, IndexError, AttributeError, ValueError, TypeError) as u:
                failed.append(f"{unit}: {which} not in the shape the encoding knows ({type(u).__name__}: {str(u)[:120]})")
                sample["encoder_gap"] = f"{type(u).__name__}: {u}"
        res["samples"].append(sample)
        say(f"  [{unit:>18}] obligations={len(sample['queries'])}")

        # ---- primitives
        unit = "primitives"
        sample = {"unit": unit, "what": "the tasks of Command::event and Command::notify_shell", "queries": []}
        for which, callname, field in (("event", "send_event", "EVENT"), ("notify_shell", "notify_shell", "OPERATION")):
            try:
                fn = one_fn(mir, IMPL + which + r"::\{closure#0\}::\{closure#0\}\(_1: Pin<&mut \{async block", f"{which}'s async block")
                contracts = ContractsC()
                ex = ExecC(fn, contracts, None)
                env = coroutine_env(fn, mir)
                paths = ex.run_from(State(env, []), state_targets(fn)[0])
                for pc, outcome, notes in paths:
                    cs = [c for c in calls_of(notes)]
                    t = "PANIC" if isinstance(outcome, Panic) else tok(outcome)
                    sent = [c for c in cs if c[0] == callname]
                    good = len(sent) == 1 and field in sent[0][1] and not [c for c in cs if c[0] == "other"] and t.startswith("Ready")
                    oblige(unit, f"{which}: exactly one {callname} with the given value, then finished", pc, "true" if good else "false", sample,
                           {"calls": [c[0] for c in cs], "sent": [c[1] for c in sent], "outcome": t[:20]})
            except (Unsupported, KeyError, IndexError, AttributeError, ValueError, TypeError) as u:
                failed.append(f"{unit}: {which} not in the shape the encoding knows ({type(u).__name__}: {str(u)[:120]})")
                sample["encoder_gap"] = f"{type(u).__name__}: {u}"
        res["samples"].append(sample)
        say(f"  [{unit:>18}] obligations={len(sample['queries'])}")

        # ---- two facts about the constructors around the steps above
        unit = "constructor_facts"
        sample = {"unit": unit, "what": "Command::then is nothing but Command::new of its async block; StreamBuilder::then_request chains with StreamExt::then (one item at a time, in order)", "queries": []}
        def fact(name, holds, detail):
            res["obligations"] += 1
            res["queries"] += 1
            res["decided"] += 1
            sample["queries"].append({"obligation": name, "holds": bool(holds), "detail": detail[:200]})
            if holds:
                res["discharged"] += 1
                witnesses.add(f"{unit}: {name[:60]}")
            else:
                failed.append(f"{unit}: {name} [{detail[:100]}]")
        mt = re.search(IMPL + r"then\(_1: command::Command<Effect, Event>, _2: command::Command<Effect, Event>\)[^\n]*\n(.*?)\n}\n", mir, re.M | re.S)
        calls = re.findall(r"^\s+_\d+ = ([^\n]*?) -> \[return", mt.group(1), re.M) if mt else []
        fact("then does nothing but wrap its two operands in Command::new of the sequencing block (no work at construction time)",
             len(calls) == 1 and "Command::<Effect, Event>::new::<{closure@crux_core/src/command/mod.rs" in calls[0], "; ".join(c[:80] for c in calls) or "then not found")
        mb = re.search(r"^fn builder::<impl at crux_core/src/command/builder\.rs:2\d\d:[\d: ]+>::then_request::\{closure#0\}\([^\n]*\n(.*?)\n}\n", mir, re.M | re.S)
        chain = [c for c in re.findall(r"= ([^\n]*?)\((?:move|copy)", mb.group(1)) if re.search(r"StreamExt>::|flat|then", c)] if mb else []
        fact("a stream's then_request feeds each item to the next request with StreamExt::then: one at a time, in item order",
             len(chain) == 1 and re.search(r"as StreamExt>::then::<", chain[0]) is not None, "; ".join(c[-70:] for c in chain) or "not found")
        res["samples"].append(sample)
        say(f"  [{unit:>18}] facts={len(sample['queries'])}")

        dev, n = native_scenarios(binp)
        dev = [d for d in dev if d[0].startswith("typed-c04-")]
        res["validated_inputs"] = n
        res["notes"].append(f"native typed-c04-* scenarios (15 expressions with hand-written expectations, 17 in all): {len(dev)} deviations")
        if failed:
            if dev:
                os.makedirs(os.path.join(REPLAYS, prop), exist_ok=True)
                rp = os.path.join(REPLAYS, prop, f"c04-{dev[0][0]}.json")
                json.dump({"property": prop, "engine": "mir", "module": "c12m", "scenario": dev[0][0], "real": dev[0][1], "expected": dev[0][2], "obligations": failed[:4]}, open(rp, "w"), indent=1)
                say(f"VIOLATION property={prop} replay={rp}")
                say(f"  {failed[0][:200]}; scenario {dev[0][0]}: the property demands `{dev[0][2]}`, real code -> `{dev[0][1]}`")
                res["findings"].append({"known": False, "unit": "combinators", "desc": failed[0][:120], "replay": rp})
                state["code"] = EXIT_VIOLATION
            else:
                inconclusive(f"{failed[0][:200]} does not hold on the MIR, but none of the native typed-c04-* scenarios deviates: encoder gap or a change the scenarios do not expose")
        elif dev and state["code"] == EXIT_OK:
            inconclusive(f"scenario {dev[0][0]} deviates natively (`{dev[0][1]}` vs `{dev[0][2]}`) although every obligation was discharged: the difference lies outside the encoded steps")
    finally:
        errs = z3.errors + cv.errors
        res["solver_s"] += z3.time + cv.time
        z3.close()
        cv.close()
        if errs:
            inconclusive("solver error output: " + errs[0][:200])
    res["nontrivial"] = len(witnesses)
    res["witnesses"] = sorted(witnesses)
    res["exit"] = state["code"]
    res["wall"] = time.time() - t0
    return res
