"""C05 / C01 on engine M: the loop with which the Core hosts a command returned from `update`
(`CommandSpawner::spawn`'s async block, crux_core/src/capability/mod.rs) — one iteration, from a fresh MIR dump.

The coroutine's MIR is entered at the loop head (the block that asks the hosted command for its next
item) and executed until it returns or comes back to the loop head (the back edge is cut there: one
inductive step).  The nested `Next` future is a contract answering Pending / Ready(None) /
Ready(Some(Effect(EFF))) / Ready(Some(Event(EV))); a callee the encoding does not know that returns a
`bool` yields a fresh symbolic bool (both branches are explored), any other unknown callee an opaque token.
Decided per path (solver: the path condition implies the goal):
  * the hosted command is polled before anything else is consulted;
  * Pending -> the host's poll returns Pending, nothing forwarded;
  * Some(Effect(e)) -> exactly one send of e on the effect channel, then the loop head again (same poll call);
  * Some(Event(v))  -> exactly one send of v on the event channel, then the loop head again;
  * None -> Ready(()), nothing forwarded;  and the loop ends ONLY then.
A failing obligation is replayed natively: `kani/host_replay` runs six scripted programs directly and
under a real Core and the first program whose two hosts disagree is the reported counterexample.
"""
import glob
import json
import os
import re
import shutil
import subprocess
import time

from .c15 import MIR_FLAGS, Exec15, Stop, _StopPath, one_fn, tok
from .common import EXIT_INCONCLUSIVE, EXIT_OK, EXIT_VIOLATION, LOGS, NIGHTLY, REPLAYS, REPO, STABLE, TARGET, VERIF, env_offline, match_known, run, say
from .mir import Panic, State, Unsupported, Val, vbool, venum, vopaque
from .mir_engine import cvc5_solver, z3_solver

CONTRACT_TEXT = [
    "engine M part: the hosted command, its outputs and the channels are opaque tokens (dataflow identity); `StreamExt::next` / `Next::poll` by contract "
    "(answers: Pending, Ready(None), Ready(Some(Effect)), Ready(Some(Event))): what the hosted command itself does is decided by the Kani harnesses",
    "engine M part: one loop iteration (the back edge to the loop head is cut): an inductive step, not a bounded unrolling",
    "engine M part: capability::channel::Sender::send is the unbounded channel's send (its FIFO behaviour is the crossbeam model's contract)",
]


def dump_core(prop):
    tdir = os.path.join(TARGET, "mir05")
    for f in glob.glob(os.path.join(tdir, "debug", ".fingerprint", "crux_core-*")):
        shutil.rmtree(f, ignore_errors=True)
    cmd = ["cargo", "rustc", "--offline", "--lib", "--target-dir", tdir, "--"] + MIR_FLAGS
    t0 = time.time()
    p = subprocess.run(cmd, cwd=os.path.join(REPO, "crux_core"), env=env_offline({"RUSTUP_TOOLCHAIN": NIGHTLY}), capture_output=True, text=True, timeout=1800)
    os.makedirs(os.path.join(LOGS, prop), exist_ok=True)
    open(os.path.join(LOGS, prop, "mir-dump-crux_core.log"), "w").write(p.stderr)
    if p.returncode != 0 or "\nfn " not in p.stdout:
        return None, p.stderr[-600:], time.time() - t0
    open(os.path.join(TARGET, "crux_core.mir"), "w").write(p.stdout)
    return p.stdout, "", time.time() - t0


LIGHT_FLAGS = ["-Zunpretty=mir", "-Zmir-opt-level=1", "-Zinline-mir=no", "-C", "debug-assertions=off", "-C", "overflow-checks=on"]


def dump_core_light(prop):
    tdir = os.path.join(TARGET, "mir03")
    for f in glob.glob(os.path.join(tdir, "debug", ".fingerprint", "crux_core-*")):
        shutil.rmtree(f, ignore_errors=True)
    cmd = ["cargo", "rustc", "--offline", "--lib", "--target-dir", tdir, "--"] + LIGHT_FLAGS
    t0 = time.time()
    p = subprocess.run(cmd, cwd=os.path.join(REPO, "crux_core"), env=env_offline({"RUSTUP_TOOLCHAIN": NIGHTLY}), capture_output=True, text=True, timeout=1800)
    os.makedirs(os.path.join(LOGS, prop), exist_ok=True)
    open(os.path.join(LOGS, prop, "mir-dump-crux_core-light.log"), "w").write(p.stderr)
    if p.returncode != 0 or "\nfn " not in p.stdout:
        return None, p.stderr[-600:], time.time() - t0
    open(os.path.join(TARGET, "crux_core_light.mir"), "w").write(p.stdout)
    return p.stdout, "", time.time() - t0


def nested_host_facts(light):
    """how commands host commands (then / and / all / map_*): every call of `host` goes to the provided method of
    CommandStreamExt, whose body is `self.map(Ok).forward(CommandSink::new(effects, events))` and nothing else.
    -> list of (fact, holds, detail)"""
    facts = []
    sites = re.findall(r"= ([^=\n]*?::host)\((?:move|copy)", light)
    trait_form = [c for c in sites if re.search(r"as CommandStreamExt<", c)]
    facts.append(("every nested command is hosted through CommandStreamExt::host (no other host function)", len(sites) >= 5 and len(trait_form) == len(sites),
                  f"{len(sites)} call sites, {len(trait_form)} through the trait: " + "; ".join(sorted(set(c[-60:] for c in sites if c not in trait_form)))[:200]))
    defs = re.findall(r"^fn (\S*host)\(", light, re.M)
    facts.append(("CommandStreamExt::host is the only function named host", defs == ["CommandStreamExt::host"], str(defs)))
    m = re.search(r"^fn CommandStreamExt::host\(_1: Self, _2: [^\n]*\n(.*?)\n}\n", light, re.M | re.S)
    if not m:
        facts.append(("CommandStreamExt::host has the expected signature", False, "not found"))
        return facts
    body = m.group(1)
    calls = [c for c in re.findall(r"^\s+(_\d+) = ([^\n]*?) -> \[return", body, re.M) if "(cleanup)" not in c[1]]
    shape = (len(calls) == 3 and re.match(r"<Self as StreamExt>::map::<.*Result::<.*>::Ok\}?>?\(copy _1, ", calls[0][1]) is not None
             and re.match(r"CommandSink::<Effect, Event>::new\(move _\d+, move _\d+\)", calls[1][1]) is not None
             and re.search(r"as StreamExt>::forward::<CommandSink<Effect, Event>>\(move " + calls[0][0] + r", move " + calls[1][0] + r"\)", calls[2][1]) is not None
             and calls[2][0] == "_0")
    facts.append(("host is exactly self.map(Ok).forward(CommandSink::new(effects, events))", bool(shape), " | ".join(c[1][:70] for c in calls)[:260]))
    return facts


class Contracts05:
    def __init__(self):
        self.used = set()
        self.fresh = []

    def call(self, ex, st, callee, args):
        c = re.sub(r"\s+", " ", callee)
        self.used.add(c)
        if re.search(r"as StreamExt>::next$", c):
            st.notes.append(("call", "next", tok(args[0])))
            return [("true", vopaque("next(" + tok(args[0]) + ")"))]
        if re.search(r"IntoFuture>::into_future$", c):
            return [("true", args[0])]
        if re.search(r"Pin::<.*>::new_unchecked$", c):
            return [("true", args[0])]
        if re.search(r"^<Next<.*> as (?:futures::|futures_util::|std::future::)?Future>::poll$", c):
            st.notes.append(("call", "poll", tok(args[0])))
            return [("(= pollres 0)", venum("Poll", "Pending", [])),
                    ("(= pollres 1)", venum("Poll", "Ready", [venum("Option", "None", [])])),
                    ("(= pollres 2)", venum("Poll", "Ready", [venum("Option", "Some", [venum("CommandOutput", "Effect", [vopaque("EFF")])])])),
                    ("(= pollres 3)", venum("Poll", "Ready", [venum("Option", "Some", [venum("CommandOutput", "Event", [vopaque("EV")])])]))]
        m = re.search(r"channel::Sender::<(\w+)>::send$", c)
        if m:
            st.notes.append(("call", "send", m.group(1), tok(args[0]), tok(args[1])))
            return [("true", vopaque("()"))]
        if re.search(r"result::unwrap_failed|option::expect_failed|option::unwrap_failed|panicking::panic", c):
            return [("true", Panic(args[0].text.strip('"') if args and args[0].kind == "opaque" else "panic"))]
        st.notes.append(("call", "other", c))
        if getattr(ex, "cur_dest_ty", None) == "bool":
            name = f"ub{len(self.fresh)}"
            self.fresh.append((name, c))
            return [("true", vbool(name))]
        return [("true", vopaque(c + "(" + ", ".join(tok(a) for a in args) + ")"))]


class Exec05(Exec15):
    """one loop iteration: entering `head` a second time ends the path with Stop('loop-head')"""

    def __init__(self, fn, contracts, head):
        super().__init__(fn, contracts, {})
        self.head = head
        self.cur_dest_ty = None
        self._entered = False

    def const(self, c):
        if c == "()":
            return vopaque("()")
        return super().const(c)

    def discriminant_of(self, v):
        return None

    def rvalue(self, st, r, dest_ty):
        m = re.fullmatch(r"discriminant\((.*)\)", r.strip())
        if m:
            v = self.read_place(st, m.group(1))
            if v.kind == "enum" and v.name == "CommandOutput":
                from .mir import vint
                return vint({"Effect": 0, "Event": 1}[v.variant], "isize")
        return super().rvalue(st, r, dest_ty)

    def term(self, st, line, depth):
        m = re.match(r"(_\d+) = ", line.strip())
        self.cur_dest_ty = self.fn.locals.get(m.group(1)) if m else None
        return super().term(st, line, depth)

    def _block(self, st, bb, depth):
        if bb == self.head and depth > 0:
            self.finish(st, Stop("loop-head", None))
            return
        return super()._block(st, bb, depth)


def build_host_replay(prop):
    d = os.path.join(VERIF, "kani", "host_replay")
    if not os.path.exists(os.path.join(d, "Cargo.lock")):
        shutil.copy(os.path.join(REPO, "Cargo.lock"), os.path.join(d, "Cargo.lock"))
    tdir = os.path.join(TARGET, "host_replay")
    rc, out, wall, _ = run(["cargo", "build", "--offline", "--target-dir", tdir], cwd=d, env=env_offline({"RUSTUP_TOOLCHAIN": STABLE}),
                           timeout=1200, log=os.path.join(LOGS, prop, "build-host_replay.log"))
    binp = os.path.join(tdir, "debug", "host_replay")
    return rc == 0 and os.path.exists(binp), binp, out


def host_runs(binp):
    p = subprocess.run([binp], capture_output=True, text=True, timeout=300)
    runs = {}
    for ln in p.stdout.strip().split("\n"):
        m = re.match(r"(P\d+) (direct|core) (.*)$", ln)
        if m:
            runs.setdefault(m.group(1), {})[m.group(2)] = m.group(3)
    return runs


def run_property(prop, cfg, tier, known, only=None):
    t0 = time.time()
    res = {"exit": EXIT_OK, "findings": [], "queries": 0, "decided": 0, "nontrivial": 0, "obligations": 0, "discharged": 0,
           "solver_s": 0.0, "samples": [], "notes": [], "assumptions": list(CONTRACT_TEXT), "validated_inputs": 0}
    os.makedirs(os.path.join(LOGS, prop), exist_ok=True)
    state = {"code": EXIT_OK}

    def inconclusive(msg):
        say("INCONCLUSIVE: " + msg)
        res["notes"].append(msg)
        if state["code"] == EXIT_OK:
            state["code"] = EXIT_INCONCLUSIVE

    ok, binp, out = build_host_replay(prop)
    if not ok:
        inconclusive("native host driver does not build against /repo: " + " | ".join(out.strip().splitlines()[-4:])[-400:])
        res["exit"] = state["code"]
        return res
    mir, err, s1 = dump_core(prop)
    if mir is None:
        inconclusive("MIR dump of crux_core failed: " + err[-400:])
        res["exit"] = state["code"]
        return res
    res["notes"].append(f"MIR dump of crux_core {s1:.0f}s ({mir.count(chr(10))} lines)")
    unit = "core_hosting_loop"
    sample = {"unit": unit, "what": "CommandSpawner::spawn's async block (how the Core hosts a command returned from update): one loop iteration from the loop head", "queries": []}
    witnesses = set()
    z3 = cv = None
    try:
        fn = one_fn(mir, r"^fn capability::<impl at crux_core/src/capability/mod\.rs:[\d: ]+>::spawn::\{closure#0\}\(_1: Pin<&mut \{async block", "CommandSpawner::spawn async block")
        heads = [bb for bb, lines in fn.blocks.items() if any(re.search(r"as StreamExt>::next\(", l) for l in lines)]
        if len(heads) != 1:
            raise Unsupported(f"expected one loop-head block (the call of StreamExt::next), found {heads}")
        head = heads[0]
        contracts = Contracts05()
        ex = Exec05(fn, contracts, head)
        env = {}
        for p_, _ in fn.params:
            env[p_] = vopaque("coroutine-arg")
        text = "\n".join(sum(fn.blocks.values(), []))
        for loc in set(re.findall(r"\(\*(_\d+)\)", text)):
            env.setdefault(loc, vopaque("coroutine-state"))
        for m_ in set(re.findall(r"\(\(\*(_\d+)\)\.(\d+): ", text)):
            env.setdefault(f"_8{int(m_[0][1:]):03d}{int(m_[1]):02d}", vopaque(f"STATE{m_[1]}"))
        paths = ex.run_from(State(env, []), head)
        sample.update({"mir_function": fn.name, "loop_head": head, "paths": len(paths), "mir_steps": ex.steps,
                       "fresh_symbolic_bools_for_unknown_callees": [c for _, c in contracts.fresh]})
        z3 = z3_solver(os.path.join(LOGS, prop, "z3-m.smt2"))
        cv = cvc5_solver(os.path.join(LOGS, prop, "cvc5-m.smt2"))
        for s in (z3, cv):
            s.send("(set-logic ALL)")
            s.send("(declare-const pollres Int)")
            s.send("(assert (and (>= pollres 0) (<= pollres 3)))")
            for name, _ in contracts.fresh:
                s.send(f"(declare-const {name} Bool)")

        def ask(assertion):
            for s in (z3, cv):
                s.send("(push 1)")
                s.send(f"(assert {assertion})")
            a, b = z3.check(), cv.check()
            res["queries"] += 1
            for s in (z3, cv):
                s.send("(pop 1)")
            if (a == "unsat" and b in ("unsat", "unknown", "timeout")) or (b == "unsat" and a in ("unknown", "timeout")):
                return "unsat", (a, b)
            if (a == "sat" and b != "unsat") or (b == "sat" and a != "unsat"):
                return "sat", (a, b)
            return "other", (a, b)

        failed = []
        for i, (pc, outcome, notes) in enumerate(paths):
            calls = [n for n in notes if n[0] == "call"]
            sends = [c for c in calls if c[1] == "send"]
            others = [c for c in calls if c[1] == "other"]
            first = calls[0] if calls else None
            polled = any(c[1] == "poll" for c in calls)
            t = "loop-head" if isinstance(outcome, Stop) else ("PANIC " + outcome.msg if isinstance(outcome, Panic) else tok(outcome))
            # what this path must satisfy, as a formula over the poll answer
            head_ok = first is not None and first[1] == "next" and not any(c[1] == "other" for c in calls[:next((k for k, c in enumerate(calls) if c[1] == "poll"), len(calls))])
            if isinstance(outcome, Panic):
                goal, name = "false", f"path {i}: no panic ({outcome.msg[:40]})"
            elif t == "loop-head":
                eff = len(sends) == 1 and sends[0][2] == "Effect" and sends[0][4] == "EFF"
                ev = len(sends) == 1 and sends[0][2] == "Event" and sends[0][4] == "EV"
                goal = f"(and {'true' if head_ok and polled and not others else 'false'} (=> (= pollres 2) {'true' if eff else 'false'}) (=> (= pollres 3) {'true' if ev else 'false'}) (or (= pollres 2) (= pollres 3)))"
                name = f"path {i}: an item is forwarded exactly once on its channel, then the hosted command is asked again"
            elif t.startswith("Pending"):
                goal = f"(and {'true' if head_ok and polled and not sends and not others else 'false'} (= pollres 0))"
                name = f"path {i}: the host is pending exactly when the hosted command is, nothing forwarded"
            elif t.startswith("Ready"):
                goal = f"(and {'true' if head_ok and polled and not sends and not others else 'false'} (= pollres 1))"
                name = f"path {i}: the hosting loop ends only when the hosted command's stream has ended"
            else:
                raise Unsupported(f"unexpected outcome {t}")
            pcs = "(and true " + " ".join(pc) + ")"
            r, ab = ask(pcs)
            q = {"obligation": name, "path_feasible": r, "outcome": t[:40], "calls": [" ".join(c[1:3]) for c in calls][:8]}
            if r == "sat":
                witnesses.add(f"{unit}: {re.sub(r'^path [0-9]+: ', '', name)}")
            res["obligations"] += 1
            r2, ab2 = ask(f"(and {pcs} (not {goal}))")
            q["z3"], q["cvc5"] = ab2
            sample["queries"].append(q)
            if r2 == "unsat":
                res["decided"] += 1
                res["discharged"] += 1
            elif r2 == "sat" and r == "sat":
                res["decided"] += 1
                failed.append(name)
            elif r2 == "sat":
                res["decided"] += 1
                res["discharged"] += 1  # infeasible path
            else:
                inconclusive(f"{unit} {name}: solver answered {ab2}")
        kinds = {("loop-head" if isinstance(o, Stop) else tok(o)[:7]) for _, o, _ in paths if not isinstance(o, Panic)}
        if not {"loop-head", "Pending", "Ready(("} <= kinds and not failed:
            inconclusive(f"{unit}: expected paths to the loop head, to Pending and to Ready, found {sorted(kinds)}")
        if not cfg.get("nested"):
            light, lerr, ls = dump_core_light(prop)
            if light is None:
                inconclusive("non-inlined MIR dump of crux_core failed: " + lerr[-300:])
            else:
                nsample = {"unit": "nested_host", "what": "how then / and / all / map_* host a nested command", "queries": []}
                for fact, holds, detail in nested_host_facts(light):
                    res["obligations"] += 1
                    res["queries"] += 1
                    res["decided"] += 1
                    nsample["queries"].append({"obligation": fact, "holds": holds, "detail": detail})
                    if holds:
                        res["discharged"] += 1
                        witnesses.add("nested_host: " + fact)
                    else:
                        failed.append("nested_host: " + fact + " [" + detail[:120] + "]")
                res["samples"].append(nsample)
                say(f"  [{'nested_host':>22}] facts={len(nsample['queries'])}")
        runs = host_runs(binp)
        res["validated_inputs"] = len(runs)
        deviating = [(p_, r_) for p_, r_ in sorted(runs.items()) if r_.get("direct") != r_.get("core")]
        res["notes"].append(f"native differential run: {len(runs)} scripted programs inspected directly and hosted by a real Core: {len(deviating)} deviations")
        if len(runs) < 10:
            inconclusive("native host driver produced fewer than 10 programs")
        if failed:
            if deviating:
                p_, r_ = deviating[0]
                os.makedirs(os.path.join(REPLAYS, prop), exist_ok=True)
                rp = os.path.join(REPLAYS, prop, f"{unit}-{p_}.json")
                json.dump({"property": prop, "engine": "mir", "module": "c05m", "unit": unit, "program": p_, "direct": r_.get("direct"), "core": r_.get("core"),
                           "obligations": failed}, open(rp, "w"), indent=1)
                say(f"VIOLATION property={prop} replay={rp}")
                say(f"  {unit}: {failed[0]}; program {p_}: inspected directly `{r_.get('direct')}`, hosted by the Core `{r_.get('core')}`")
                res["findings"].append({"known": False, "unit": unit, "desc": failed[0], "replay": rp})
                state["code"] = EXIT_VIOLATION
            else:
                inconclusive(f"{unit}: {failed[0]} does not hold on the MIR, but none of the native programs behaves differently under the Core: encoder gap or a change these programs do not expose")
        elif deviating and state["code"] == EXIT_OK and not cfg.get("nested"):
            inconclusive(f"program {deviating[0][0]} behaves differently under the Core ({deviating[0][1]}) although every obligation on the hosting loop was discharged: the difference lies outside the encoded loop")
    except (Unsupported, KeyError, IndexError, AttributeError, ValueError, TypeError) as u:
        # the loop no longer has the shape the encoding knows: the native programs decide whether that matters
        gap = f"{unit}: not in the shape the encoding knows ({type(u).__name__}: {str(u)[:120]})"
        sample["encoder_gap"] = gap
        try:
            runs = host_runs(binp)
            deviating = [(p_, r_) for p_, r_ in sorted(runs.items()) if r_.get("direct") != r_.get("core")]
        except Exception:  # noqa
            deviating = []
        if deviating and not cfg.get("nested"):
            p_, r_ = deviating[0]
            os.makedirs(os.path.join(REPLAYS, prop), exist_ok=True)
            rp = os.path.join(REPLAYS, prop, f"{unit}-{p_}.json")
            json.dump({"property": prop, "engine": "mir", "module": "c05m", "unit": unit, "program": p_, "direct": r_.get("direct"), "core": r_.get("core"),
                       "obligations": [gap]}, open(rp, "w"), indent=1)
            say(f"VIOLATION property={prop} replay={rp}")
            say(f"  {gap}; program {p_}: inspected directly `{r_.get('direct')}`, hosted by the Core `{r_.get('core')}`")
            res["findings"].append({"known": False, "unit": unit, "desc": gap, "replay": rp})
            state["code"] = EXIT_VIOLATION
        else:
            inconclusive(gap)
    finally:
        if z3 is not None:
            errs = z3.errors + cv.errors
            res["solver_s"] = z3.time + cv.time
            z3.close()
            cv.close()
            if errs:
                inconclusive("solver error output: " + errs[0][:200])
    res["samples"].append(sample)
    say(f"  [{unit:>22}] paths={sample.get('paths')} obligations={len(sample['queries'])}")
    res["nontrivial"] = len(witnesses)
    res["witnesses"] = sorted(witnesses)
    res["exit"] = state["code"]
    res["wall"] = time.time() - t0
    return res


def replay_file(path):
    rec = json.load(open(path))
    ok, binp, out = build_host_replay(rec["property"])
    if not ok:
        say("native host driver does not build")
        return EXIT_INCONCLUSIVE
    r = host_runs(binp).get(rec["program"], {})
    say(f"program {rec['program']}: inspected directly `{r.get('direct')}`, hosted by the Core `{r.get('core')}` (recorded: `{rec['core']}`)")
    return EXIT_VIOLATION if r.get("direct") != r.get("core") else EXIT_OK
