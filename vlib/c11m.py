"""C11 on engine M (facts) + native: the two places where crux's observable values depend on a randomly seeded hash map.

  request_header_order   crux_http `into_protocol_request` (the async block's MIR): the header list handed to the shell is
                         put into one order (sorted) after it was collected from the request's hash-map-backed headers.
  response_equality      crux_http `impl PartialEq for Response`: headers are compared as maps, not by zipping the two maps'
                         iteration orders.
Each fact is paired with native scenarios of kani/determinism_replay (the same request described 40 times in one process
must have ONE wire form; responses compare equal exactly when their contents are equal, 20 trials each - every HashMap
gets its own seed, so one process suffices to see the dependence).  A failing fact is reported only if its scenarios deviate.
"""
import json
import os
import re
import shutil
import subprocess
import time

from .c04m import ExecC
from .c15 import one_fn, tok
from .c16m import dump_http_light
from .mir import Panic, State, Unsupported, Val, vagg, vint, vopaque
from .mir_engine import cvc5_solver, z3_solver
from .common import EXIT_INCONCLUSIVE, EXIT_OK, EXIT_VIOLATION, LOGS, REPLAYS, REPO, STABLE, TARGET, VERIF, env_offline, match_known, run, say

CONTRACT_TEXT = ["engine M part (comparator): the closure handed to sort_by is executed symbolically on two/three arbitrary headers; String's order is abstracted as the order of integer keys (an order embedding: any total order on names), <String as Ord>::cmp answers by that order; "
                 "z3 and cvc5 decide antisymmetry, transitivity and `a tie means equal names` for every key assignment - together with the stable sort this makes the list a function of the header contents alone (same-name values keep the order of their value list)",
                 "engine M part (facts): call lists read off the non-inlined MIR of crux_http; the deciding observation for a failing fact is the native scenario (std's RandomState gives every HashMap its own seed, so repeated construction in one process samples iteration orders)",
                 "that the runtime consults no clock or randomness elsewhere, and cross-process replay of whole histories, are NOT covered"]


def build_driver(prop):
    d = os.path.join(VERIF, "kani", "determinism_replay")
    if not os.path.exists(os.path.join(d, "Cargo.lock")):
        shutil.copy(os.path.join(REPO, "Cargo.lock"), os.path.join(d, "Cargo.lock"))
    tdir = os.path.join(TARGET, "determinism_replay")
    rc, out, wall, _ = run(["cargo", "build", "--offline", "--target-dir", tdir], cwd=d, env=env_offline({"RUSTUP_TOOLCHAIN": STABLE}),
                           timeout=1200, log=os.path.join(LOGS, prop, "build-determinism_replay.log"))
    binp = os.path.join(tdir, "debug", "determinism_replay")
    return rc == 0 and os.path.exists(binp), binp, out


def native(binp):
    p = subprocess.run([binp], capture_output=True, text=True, timeout=300)
    dev, n = [], 0
    for ln in p.stdout.strip().split("\n"):
        m = re.match(r"(\S+) REAL (.*) \| EXPECT (.*)$", ln)
        if m:
            n += 1
            if m.group(2) != m.group(3):
                dev.append((m.group(1), m.group(2), m.group(3)))
    return dev, n


def fn_body(mir, header_re):
    m = re.search(r"^fn " + header_re + r"[^\n]*\n(.*?)\n}\n", mir, re.M | re.S)
    return m.group(1) if m else None


class ContractsCmp:
    def call(self, ex, st, callee, args):
        c = re.sub(r"\s+", " ", callee)
        if re.search(r"^<(?:std::string::)?String as (?:std::cmp::)?Ord>::cmp$", c) and all(a.kind == "ref" and a.target.kind == "int" for a in args):
            x, y = args[0].target.term, args[1].target.term
            return [("true", vint(f"(ite (< {x} {y}) (- 1) (ite (= {x} {y}) 0 1))", "i8"))]
        if re.search(r"^<(?:std::cmp::)?Ordering>::reverse$|^Ordering::reverse$", c) and args[0].kind == "int":
            return [("true", vint(f"(- {args[0].term})", "i8"))]
        raise Unsupported(f"comparator calls {c}")


def comparator_total_order(prop, mir, res, stable=True):
    fn = one_fn(mir, r"^fn protocol::<impl at crux_http/src/protocol\.rs:[\d: ]+>::into_protocol_request::\{closure#0\}::\{closure#\d+\}\(_1: &mut \{closure@[^}]*\}, "
                     r"_2: &(?:protocol::)?HttpHeader, _3: &(?:protocol::)?HttpHeader\) -> (?:std::cmp::)?Ordering", "the closure handed to sort_by")

    def run(a, b):
        ex = ExecC(fn, ContractsCmp(), None)
        hdr = lambda k: Val("ref", target=vagg([vint("n" + k, "u64"), vint("v" + k, "u64")]))
        paths = ex.run_from(State({"_1": vopaque("CL"), "_2": hdr(a), "_3": hdr(b)}, []), "bb0")
        if len(paths) != 1 or isinstance(paths[0][1], Panic) or paths[0][1].kind != "int":
            raise Unsupported(f"comparator has {len(paths)} paths / a non-integer outcome")
        return paths[0][1].term

    z3 = z3_solver(os.path.join(LOGS, prop, "z3.smt2"))
    cv = cvc5_solver(os.path.join(LOGS, prop, "cvc5.smt2"))
    for s_ in (z3, cv):
        s_.send("(set-logic ALL)")
        for v in ("na", "nb", "nc", "va", "vb", "vc"):
            s_.send(f"(declare-const {v} Int)")
    r = {k: run(*k) for k in ("ab", "ba", "bc", "ac", "aa")}
    goals = [("antisymmetric: cmp(a,b) = -cmp(b,a)", f"(= {r['ab']} (- {r['ba']}))"),
             ("reflexive: cmp(a,a) = Equal", f"(= {r['aa']} 0)"),
             ("transitive: a<=b and b<=c imply a<=c", f"(=> (and (<= {r['ab']} 0) (<= {r['bc']} 0)) (<= {r['ac']} 0))"),
             ("a tie means the two headers have the same name", f"(=> (= {r['ab']} 0) (= na nb))")]
    if not stable:
        # an unstable sort may permute elements that compare equal according to its input order (the hash map's): then no two
        # different headers may tie at all
        goals.append(("the sort is unstable, so a tie must mean the same header (name and value)", f"(=> (= {r['ab']} 0) (and (= na nb) (= va vb)))"))
    bad = []
    for name, goal in goals:
        for s_ in (z3, cv):
            s_.send("(push 1)")
            s_.send(f"(assert (not {goal}))")
        a, b = z3.check(), cv.check()
        for s_ in (z3, cv):
            s_.send("(pop 1)")
        res["queries"] += 1
        res["obligations"] += 1
        if a == "unsat" and b == "unsat":
            res["decided"] += 1
            res["discharged"] += 1
        else:
            if "sat" in (a, b):
                res["decided"] += 1
            bad.append(f"{name} ({a}/{b})")
    for name, w in (("comparator can answer Less", f"(= {r['ab']} (- 1))"), ("comparator can answer Equal for two different headers", f"(and (= {r['ab']} 0) (not (= va vb)))"), ("comparator can answer Greater", f"(= {r['ab']} 1)")):
        for s_ in (z3, cv):
            s_.send("(push 1)")
            s_.send(f"(assert {w})")
        a, b = z3.check(), cv.check()
        for s_ in (z3, cv):
            s_.send("(pop 1)")
        res["queries"] += 1
        res["decided"] += 1
        if a == "sat" and b == "sat":
            res.setdefault("cmp_witnesses", []).append(name)
    res["samples"].append({"unit": "sort comparator", "what": "closure handed to sort_by on symbolic headers", "queries": [{"obligation": n, "term": g[:160]} for n, g in goals]})
    return (not bad), ("total order on names" if not bad else "fails: " + "; ".join(bad))


def run_property(prop, cfg, tier, known, only=None):
    t0 = time.time()
    res = {"exit": EXIT_OK, "findings": [], "queries": 0, "decided": 0, "nontrivial": 0, "obligations": 0, "discharged": 0,
           "solver_s": 0.0, "samples": [], "notes": [], "assumptions": list(CONTRACT_TEXT), "validated_inputs": 0}
    os.makedirs(os.path.join(LOGS, prop), exist_ok=True)
    state = {"code": EXIT_OK}

    def inconclusive(msg):
        say("INCONCLUSIVE: " + msg)
        res["notes"].append(msg)
        if state["code"] == EXIT_OK:
            state["code"] = EXIT_INCONCLUSIVE

    ok, binp, out = build_driver(prop)
    if not ok:
        inconclusive("native driver does not build against /repo: " + " | ".join(str(out).strip().splitlines()[-4:])[-400:])
        res["exit"] = state["code"]
        return res
    mir, err, s1 = dump_http_light(prop)
    if mir is None:
        inconclusive("MIR dump of crux_http failed: " + err[-400:])
        res["exit"] = state["code"]
        return res
    dev, n = native(binp)
    res["validated_inputs"] = n
    res["notes"].append(f"native determinism scenarios: {n}, deviations: {len(dev)}")
    witnesses = []

    body = fn_body(mir, r"protocol::<impl at crux_http/src/protocol\.rs:[\d: ]+>::into_protocol_request::\{closure#0\}\(_1: Pin<&mut \{async block")
    calls = re.findall(r"= ([^\n]*?)\((?:move|copy|const)", body) if body else []
    collected = any(re.search(r"as Iterator>::collect::<Vec<(?:protocol::)?HttpHeader>>", c) for c in calls)
    sorts = [c for c in calls if re.search(r"slice::<impl \[(?:protocol::)?HttpHeader\]>::sort(_by_cached_key|_by_key|_by|_unstable_by_key|_unstable_by|_unstable)?::<|slice::<impl \[(?:protocol::)?HttpHeader\]>::sort(_unstable)?$", c)]
    ordered = bool(sorts)
    stable = ordered and not any("sort_unstable" in c for c in sorts)
    units = [("request_header_order", "the header list handed to the shell is put into one order after being collected from the hash-map-backed request headers",
              bool(body) and ordered, f"collected={collected} ordered={ordered} stable-sort={stable}", "request-", None)]
    body2 = fn_body(mir, r"response::response::<impl at crux_http/src/response/response\.rs:[\d: ]+>::eq\(_1: &response::response::Response<Body>")
    calls2 = re.findall(r"= ([^\n]*?)\((?:move|copy|const)", body2) if body2 else []
    zips = [c for c in calls2 if re.search(r"as Iterator>::zip::<", c) and "headers" in c]
    units.append(("response_equality", "responses compare their headers as maps (equal contents <=> equal), not by zipping the iteration orders of two hash maps",
                  bool(body2) and not zips, f"zips over header iterators: {len(zips)}", "response-eq-", "hash-order-and-surplus"))
    # ---- the comparator handed to sort_by, executed symbolically and decided by the solvers
    cmp_ok, cmp_detail = False, "no comparator closure found"
    if ordered:
        try:
            cmp_ok, cmp_detail = comparator_total_order(prop, mir, res, stable)
        except (Unsupported, KeyError, AttributeError, IndexError) as e:
            cmp_ok, cmp_detail = False, f"not in the shape the encoding knows: {e}"
        name, text0, holds0, detail0, prefix0, role0 = units[0]
        units[0] = (name, text0 + "; the order is a total order on names for every pair/triple of headers (solver)", holds0 and cmp_ok, detail0 + " comparator: " + cmp_detail, prefix0, role0)
    for unit, text, holds, detail, prefix, known_role in units:
        res["obligations"] += 1
        res["queries"] += 1
        res["decided"] += 1
        hits = [d for d in dev if d[0].startswith(prefix)]
        sample = {"unit": unit, "what": text, "queries": [{"obligation": text, "holds": holds, "detail": detail, "native_deviations": [f"{d[0]}: {d[1]}" for d in hits]}]}
        res["samples"].append(sample)
        say(f"  [{unit:>22}] holds={holds} native deviations={len(hits)}")
        if holds:
            res["discharged"] += 1
            witnesses.append(f"{unit}: holds")
            if hits and state["code"] == EXIT_OK:
                inconclusive(f"{unit} holds on the MIR but {hits[0][0]} deviates natively (`{hits[0][1]}`): the dependence lies elsewhere")
            continue
        if not hits:
            inconclusive(f"{unit}: does not hold on the MIR ({detail}) but none of its native scenarios deviates")
            continue
        os.makedirs(os.path.join(REPLAYS, prop), exist_ok=True)
        rp = os.path.join(REPLAYS, prop, f"determinism-{hits[0][0]}.json")
        json.dump({"property": prop, "engine": "mir", "module": "c11m", "scenario": hits[0][0], "real": hits[0][1], "expected": hits[0][2], "obligations": [unit + ": " + detail]}, open(rp, "w"), indent=1)
        k = match_known(known, prop, unit, known_role) if known_role else None
        if k:
            say(f"KNOWN-FINDING: property={prop} {k['what']} [{'; '.join(d[0] + ': ' + d[1] for d in hits)[:200]}]")
            res["findings"].append({"known": True, "unit": unit, "desc": known_role, "replay": rp})
        else:
            say(f"VIOLATION property={prop} replay={rp}")
            say(f"  {unit}: {text} does not hold ({detail}); scenario {hits[0][0]}: the property demands `{hits[0][2]}`, real code -> `{hits[0][1]}`")
            res["findings"].append({"known": False, "unit": unit, "desc": text[:100], "replay": rp})
            state["code"] = EXIT_VIOLATION
    witnesses += res.pop("cmp_witnesses", [])
    res["nontrivial"] = len(witnesses)
    res["witnesses"] = witnesses
    res["exit"] = state["code"]
    res["wall"] = time.time() - t0
    return res


def replay_file(path):
    rec = json.load(open(path))
    ok, binp, out = build_driver(rec["property"])
    if not ok:
        say("native driver does not build")
        return EXIT_INCONCLUSIVE
    dev, n = native(binp)
    hit = [d for d in dev if d[0] == rec["scenario"]]
    say(f"scenario {rec['scenario']}: " + (f"real `{hit[0][1]}` vs expected `{hit[0][2]}`" if hit else "no deviation now"))
    return EXIT_VIOLATION if hit else EXIT_OK
