"""C12 / C09 on engine M: `BridgeWithSerializer::process` (crux_core/src/bridge/mod.rs) — what the bridge does with a
message from the shell, from the non-inlined MIR of crux_core.

The function is loop-free at this level (deserialising, the registry, the core and the serializer are calls).  It is
executed with symbolic outcomes for deserialize (Ok/Err), ResolveRegistry::resume (Ok/Err) and the serializer (Ok/Err):
  * a malformed event is answered with Err(DeserializeEvent(..)) and NOTHING else happens: the core is not entered,
    nothing is registered, nothing is serialized;
  * a rejected response (unknown arity, malformed payload, ...) returns resume's error unchanged and the core is not run;
  * otherwise the core runs exactly once (process_event with exactly the decoded event / process), every effect it returns
    goes through `ResolveRegistry::register` exactly once (the closure of the map is a single call of register on its
    argument) and the whole batch is serialized once into the shell's serializer; a serializer error is returned as
    SerializeRequests.
Replay: `kani/bridge_replay` drives a real BridgeWithSerializer over JSON (malformed events, malformed responses, the
scripted programs of host_replay) and compares with direct inspection.
"""
import json
import os
import re
import shutil
import subprocess
import time

from .c05m import Exec05, dump_core_light
from .c15 import one_fn, tok
from .common import EXIT_INCONCLUSIVE, EXIT_OK, EXIT_VIOLATION, LOGS, REPLAYS, REPO, STABLE, TARGET, VERIF, env_offline, run, say
from .mir import Panic, State, Unsupported, vbool, venum, vopaque
from .mir_engine import cvc5_solver, z3_solver

CONTRACT_TEXT = [
    "engine M part: messages, events, effects, the registry and the serializer are opaque tokens (dataflow identity); erased_serde::deserialize, ResolveRegistry::resume and erased_serialize "
    "answer Ok/Err symbolically; Result::map_err / Try::branch / from_residual by their std meaning; the iterator pipeline into_iter().map(f).collect() is taken to apply f to every element once (std's contract)",
    "engine M part: what ResolveRegistry::resume / register do is decided by the Kani harnesses (C09/C12/C13); what Core::process does by the C01/C03 units",
]


class ExecB(Exec05):
    def operand(self, st, s):
        s2 = s.strip()
        if not s2.startswith(("copy ", "move ", "const ", "no_retag ")):
            return vopaque(s2)  # a function item passed by name (e.g. BridgeError::DeserializeEvent)
        return super().operand(st, s)


class ContractsBridge:
    def __init__(self):
        self.used = set()
        self.fresh = []

    def call(self, ex, st, callee, args):
        c = re.sub(r"\s+", " ", callee)
        self.used.add(c)

        def note(*a):
            st.notes.append(("call",) + a)

        if re.search(r"ResolveRegistry::resume$", c):
            note("resume", tok(args[1]), tok(args[2]))
            return [("(= res 0)", venum("Result", "Ok", [vopaque("()")])), ("(= res 1)", venum("Result", "Err", [vopaque("RESUME-ERR")]))]
        if re.search(r"^erased_serde::deserialize::<", c):
            note("deserialize_event", tok(args[0]))
            return [("(= de 0)", venum("Result", "Ok", [vopaque("EVENT")])), ("(= de 1)", venum("Result", "Err", [vopaque("DE-ERR")]))]
        if re.search(r"Result::<.*>::map_err::<", c):
            r0 = args[0]
            if r0.kind == "enum" and r0.variant == "Ok":
                return [("true", r0)]
            if r0.kind == "enum" and r0.variant == "Err":
                return [("true", venum("Result", "Err", [vopaque(tok(args[1]).split("::")[-1] + "(" + tok(r0.fields[0]) + ")")]))]
            raise Unsupported("map_err on a value that is not a concrete Result")
        if re.search(r"as Try>::branch$", c):
            r0 = args[0]
            if r0.kind == "enum" and r0.variant == "Ok":
                return [("true", venum("ControlFlow", "Continue", [r0.fields[0]]))]
            if r0.kind == "enum" and r0.variant == "Err":
                return [("true", venum("ControlFlow", "Break", [venum("Result", "Err", [r0.fields[0]])]))]
            raise Unsupported("Try::branch on a value that is not a concrete Result")
        if re.search(r"as FromResidual<.*>>::from_residual$", c):
            r0 = args[0]
            if r0.kind == "enum" and r0.variant == "Err":
                return [("true", venum("Result", "Err", [r0.fields[0]]))]
            if r0.kind == "opaque" and "::Err(" in r0.text:
                return [("true", venum("Result", "Err", [vopaque("()")]))]  # a constant Err(..) residual
            raise Unsupported("from_residual on a value that is not a concrete Err")
        if re.search(r"Core::<A>::process_event$", c):
            note("core_process_event", tok(args[1]))
            return [("true", vopaque("EFFECTS"))]
        if re.search(r"Core::<A>::process$", c):
            note("core_process")
            return [("true", vopaque("EFFECTS"))]
        if re.search(r"as IntoIterator>::into_iter$", c):
            return [("true", vopaque("iter(" + tok(args[0]) + ")"))]
        if re.search(r"as Iterator>::map::<", c):
            note("map", tok(args[0]), tok(args[1]))
            return [("true", vopaque("map(" + tok(args[0]) + ")"))]
        if re.search(r"as Iterator>::collect::<", c):
            return [("true", vopaque("collect(" + tok(args[0]) + ")"))]
        if re.search(r"as erased_serde::Serialize>::erased_serialize$", c):
            note("serialize", tok(args[0]), tok(args[1]))
            return [("(= ser 0)", venum("Result", "Ok", [vopaque("()")])), ("(= ser 1)", venum("Result", "Err", [vopaque("SER-ERR")]))]
        if re.search(r"ResolveRegistry::register::<", c):
            note("register", tok(args[1]))
            return [("true", vopaque("REQUEST[" + tok(args[1]) + "]"))]
        if re.search(r"result::unwrap_failed|option::expect_failed|option::unwrap_failed|panicking::panic", c):
            return [("true", Panic(args[0].text.strip('"') if args and args[0].kind == "opaque" else "panic"))]
        note("other", c)
        if getattr(ex, "cur_dest_ty", None) == "bool":
            name = f"ub{len(self.fresh)}"
            self.fresh.append((name, c))
            return [("true", vbool(name))]
        return [("true", vopaque(c + "(" + ", ".join(tok(a) for a in args) + ")"))]


def bincode_bridge_facts(light):
    """the bincode `Bridge` wrapper: which options and which reader it uses, and that it only delegates
    -> list of (fact, holds, detail)"""
    facts = []

    def calls(fname):
        m = re.search(r"^fn bridge::<impl at crux_core/src/bridge/mod\.rs:[\d: ]+>::" + fname + r"\([^\n]*\n(.*?)\n}\n", light, re.M | re.S)
        if not m:
            return None
        return [c for c in re.findall(r"^\s+_\d+ = ([^\n]*?) -> \[return", m.group(1), re.M)]

    opt = calls("bincode_options")
    names = [re.sub(r"\(.*", "", c).split("::")[-1] for c in (opt or [])]
    facts.append(("the bridge's bincode options are DefaultOptions with fixed-width integers and trailing bytes allowed, nothing else (no size limit)",
                  names == ["new", "with_fixint_encoding", "allow_trailing_bytes"], str(names)))
    want_ty = "WithOtherTrailing<WithOtherIntEncoding<DefaultOptions, FixintEncoding>, AllowTrailing>"
    for fname, inner in (("process_event", "process_event"), ("handle_response", "handle_response")):
        cs = calls(fname)
        if cs is None:
            facts.append((f"Bridge::{fname} found", False, "not found"))
            continue
        short = [re.sub(r"::<.*", "", re.sub(r"\(.*", "", c)) for c in cs]
        shape = (len(cs) == 7 and "from_residual" in cs[6] and "bincode_options" in cs[0]
                 and cs[1].startswith("bincode::Deserializer::<SliceReader<'_>, " + want_ty + ">::from_slice(copy _")
                 and cs[2].startswith("Vec::<u8>::new(") and cs[3].startswith("bincode::Serializer::<&mut Vec<u8>, " + want_ty + ">::new(")
                 and cs[4].startswith("BridgeWithSerializer::<A>::" + inner + "::<") and "as Try>::branch" in cs[5])
        facts.append((f"Bridge::{fname} decodes the shell's bytes with a slice reader and those options, encodes the requests with the same options, and only delegates to BridgeWithSerializer::{inner}",
                      bool(shape), " | ".join(short)[:240]))
    return facts


def calls_of(notes):
    return [n[1:] for n in notes if n[0] == "call"]


def build_bridge_replay(prop):
    d = os.path.join(VERIF, "kani", "bridge_replay")
    if not os.path.exists(os.path.join(d, "Cargo.toml")):
        return False, None, "kani/bridge_replay missing"
    if not os.path.exists(os.path.join(d, "Cargo.lock")):
        shutil.copy(os.path.join(REPO, "Cargo.lock"), os.path.join(d, "Cargo.lock"))
    tdir = os.path.join(TARGET, "bridge_replay")
    rc, out, wall, _ = run(["cargo", "build", "--offline", "--target-dir", tdir], cwd=d, env=env_offline({"RUSTUP_TOOLCHAIN": STABLE}),
                           timeout=1200, log=os.path.join(LOGS, prop, "build-bridge_replay.log"))
    binp = os.path.join(tdir, "debug", "bridge_replay")
    return rc == 0 and os.path.exists(binp), binp, out


def native_scenarios(binp):
    p = subprocess.run([binp], capture_output=True, text=True, timeout=300)
    dev, n = [], 0
    for ln in p.stdout.strip().split("\n"):
        m = re.match(r"(\S+) REAL (.*) \| EXPECT (.*)$", ln)
        if not m:
            continue
        n += 1
        if m.group(2) != m.group(3):
            dev.append((m.group(1), m.group(2), m.group(3)))
    return dev, n


def run_property(prop, cfg, tier, known, only=None):
    t0 = time.time()
    res = {"exit": EXIT_OK, "findings": [], "queries": 0, "decided": 0, "nontrivial": 0, "obligations": 0, "discharged": 0,
           "solver_s": 0.0, "samples": [], "notes": [], "assumptions": list(CONTRACT_TEXT), "validated_inputs": 0}
    os.makedirs(os.path.join(LOGS, prop), exist_ok=True)
    state = {"code": EXIT_OK}
    witnesses, failed = set(), []

    def inconclusive(msg):
        say("INCONCLUSIVE: " + msg)
        res["notes"].append(msg)
        if state["code"] == EXIT_OK:
            state["code"] = EXIT_INCONCLUSIVE

    ok, binp, out = build_bridge_replay(prop)
    if not ok:
        inconclusive("native bridge driver does not build against /repo: " + " | ".join(str(out).strip().splitlines()[-4:])[-400:])
        res["exit"] = state["code"]
        return res
    mir, err, s1 = dump_core_light(prop)
    if mir is None:
        inconclusive("MIR dump of crux_core failed: " + err[-400:])
        res["exit"] = state["code"]
        return res
    res["notes"].append(f"non-inlined MIR dump of crux_core {s1:.0f}s ({mir.count(chr(10))} lines)")
    z3 = z3_solver(os.path.join(LOGS, prop, "z3-m.smt2"))
    cv = cvc5_solver(os.path.join(LOGS, prop, "cvc5-m.smt2"))
    for s in (z3, cv):
        s.send("(set-logic ALL)")
        for v in ("de", "res", "ser"):
            s.send(f"(declare-const {v} Int)")
            s.send(f"(assert (and (>= {v} 0) (<= {v} 1)))")

    def ask(assertion):
        for s in (z3, cv):
            s.send("(push 1)")
            s.send(f"(assert {assertion})")
        a, b = z3.check(), cv.check()
        res["queries"] += 1
        for s in (z3, cv):
            s.send("(pop 1)")
        if (a == "unsat" and b in ("unsat", "unknown", "timeout")) or (b == "unsat" and a in ("unknown", "timeout")):
            return "unsat", (a, b)
        if (a == "sat" and b != "unsat") or (b == "sat" and a != "unsat"):
            return "sat", (a, b)
        return "other", (a, b)

    def oblige(unit, name, pc, goal, sample, extra=None):
        pcs = "(and true " + " ".join(pc) + ")"
        r, ab = ask(pcs)
        q = {"obligation": name, "path_feasible": r}
        if extra:
            q.update(extra)
        if r == "sat":
            witnesses.add(f"{unit}: {name}")
        res["obligations"] += 1
        r2, ab2 = ask(f"(and {pcs} (not {goal}))")
        q["z3"], q["cvc5"] = ab2
        sample["queries"].append(q)
        if r2 == "unsat" or (r2 == "sat" and r == "unsat"):
            res["decided"] += 1
            res["discharged"] += 1
        elif r2 == "sat":
            res["decided"] += 1
            failed.append(f"{unit}: {name}")
        else:
            inconclusive(f"{unit} {name}: solver answered {ab2}")

    try:
        unit = "bridge_process"
        sample = {"unit": unit, "what": "BridgeWithSerializer::process: a message from the shell (event or response), for every outcome of decoding, of the registry and of the serializer", "queries": []}
        try:
            fn = one_fn(mir, r"^fn bridge::<impl at crux_core/src/bridge/mod\.rs:[\d: ]+>::process\(_1: &BridgeWithSerializer<A>, _2: std::option::Option<EffectId>", "BridgeWithSerializer::process")
            for kind, idval in (("event", venum("Option", "None", [])), ("response", venum("Option", "Some", [vopaque("ID")]))):
                contracts = ContractsBridge()
                ex = ExecB(fn, contracts, None)
                paths = ex.run_from(State({"_1": vopaque("BRIDGE"), "_2": idval, "_3": vopaque("DATA"), "_4": vopaque("OUT")}, []), "bb0")
                sample["paths"] = sample.get("paths", 0) + len(paths)
                sample["mir_steps"] = sample.get("mir_steps", 0) + ex.steps
                for i, (pc, outcome, notes) in enumerate(paths):
                    cs = calls_of(notes)
                    seq = [c[0] for c in cs]
                    t = "PANIC " + outcome.msg if isinstance(outcome, Panic) else tok(outcome)
                    extra = {"calls": seq, "outcome": t[:60]}
                    if isinstance(outcome, Panic):
                        oblige(unit, f"{kind}: no panic", pc, "false", sample, extra)
                        continue
                    core_calls = [c for c in cs if c[0].startswith("core_")]
                    pipeline_ok = (seq[-2:] == ["map", "serialize"] and cs[-2][1] == "iter(EFFECTS)" and "BRIDGE" in cs[-2][2]
                                   and cs[-1][1] == "&collect(map(iter(EFFECTS)))" and cs[-1][2] == "OUT") if len(cs) >= 2 else False
                    if kind == "event":
                        bad = seq == ["deserialize_event"] and t == "Err(DeserializeEvent(DE-ERR))"
                        good_core = len(core_calls) == 1 and core_calls[0] == ("core_process_event", "EVENT") and seq[0] == "deserialize_event" and len(seq) == 4
                        goal = (f"(and (=> (= de 1) {'true' if bad else 'false'}) "
                                f"(=> (and (= de 0) (= ser 0)) {'true' if good_core and pipeline_ok and t == 'Ok(())' else 'false'}) "
                                f"(=> (and (= de 0) (= ser 1)) {'true' if good_core and pipeline_ok and t == 'Err(SerializeRequests(SER-ERR))' else 'false'}))")
                        name = "event: malformed -> error and nothing else; well-formed -> the core runs once with it, every effect registered, the batch serialized once"
                    else:
                        bad = seq == ["resume"] and t == "Err(RESUME-ERR)" and cs[0][1] == "ID" and cs[0][2] == "DATA"
                        good_core = len(core_calls) == 1 and core_calls[0] == ("core_process",) and seq[0] == "resume" and cs[0][1] == "ID" and len(seq) == 4
                        goal = (f"(and (=> (= res 1) {'true' if bad else 'false'}) "
                                f"(=> (and (= res 0) (= ser 0)) {'true' if good_core and pipeline_ok and t == 'Ok(())' else 'false'}) "
                                f"(=> (and (= res 0) (= ser 1)) {'true' if good_core and pipeline_ok and t == 'Err(SerializeRequests(SER-ERR))' else 'false'}))")
                        name = "response: rejected by the registry -> its error, the core is not run; accepted -> the core runs once, every effect registered, the batch serialized once"
                    oblige(unit, name, pc, goal, sample, extra)
            # the closure of the map: exactly one register call on its argument
            fnc = one_fn(mir, r"^fn bridge::<impl at crux_core/src/bridge/mod\.rs:[\d: ]+>::process::\{closure#0\}\(", "process's map closure")
            contracts = ContractsBridge()
            ex = ExecB(fnc, contracts, None)
            paths = ex.run_from(State({"_1": vopaque("CLOSURE"), "_2": vopaque("EFFECT")}, []), "bb0")
            for pc, outcome, notes in paths:
                cs = calls_of(notes)
                good = [c[0] for c in cs] == ["register"] and cs[0][1] == "EFFECT" and tok(outcome) == "REQUEST[EFFECT]"
                oblige(unit, "each effect goes through ResolveRegistry::register exactly once and the request it returns is what is serialized", pc, "true" if good else "false", sample,
                       {"calls": [c[0] for c in cs]})
        except (Unsupported, KeyError, IndexError, AttributeError, ValueError, TypeError) as u:
            failed.append(f"{unit}: not in the shape the encoding knows ({type(u).__name__}: {str(u)[:120]})")
            sample["encoder_gap"] = f"{type(u).__name__}: {u}"
        res["samples"].append(sample)
        say(f"  [{unit:>22}] paths={sample.get('paths')} obligations={len(sample['queries'])}")

        bsample = {"unit": "bincode_bridge", "what": "the bincode Bridge wrapper around BridgeWithSerializer", "queries": []}
        for fact, holds, detail in bincode_bridge_facts(mir):
            res["obligations"] += 1
            res["queries"] += 1
            res["decided"] += 1
            bsample["queries"].append({"obligation": fact, "holds": holds, "detail": detail})
            if holds:
                res["discharged"] += 1
                witnesses.add("bincode_bridge: " + fact[:80])
            else:
                failed.append("bincode_bridge: " + fact + " [" + detail[:120] + "]")
        res["samples"].append(bsample)
        say(f"  [{'bincode_bridge':>22}] facts={len(bsample['queries'])}")

        dev, n = native_scenarios(binp)
        dev = [d for d in dev if not d[0].startswith("typed-")]  # the typed scenarios belong to other properties' units
        res["validated_inputs"] = n
        res["notes"].append(f"native bridge scenarios: {n} (malformed events, malformed / misdirected responses, the scripted programs through the JSON bridge vs direct inspection): {len(dev)} deviations")
        if n < 8:
            inconclusive(f"native bridge driver produced only {n} scenarios")
        if failed:
            if dev:
                os.makedirs(os.path.join(REPLAYS, prop), exist_ok=True)
                rp = os.path.join(REPLAYS, prop, f"bridge-{dev[0][0]}.json")
                json.dump({"property": prop, "engine": "mir", "module": "c12m", "scenario": dev[0][0], "real": dev[0][1], "expected": dev[0][2], "obligations": failed[:4]}, open(rp, "w"), indent=1)
                say(f"VIOLATION property={prop} replay={rp}")
                say(f"  {failed[0][:220]}; scenario {dev[0][0]}: the property demands `{dev[0][2][:120]}`, real code -> `{dev[0][1][:120]}`")
                res["findings"].append({"known": False, "unit": "bridge_process", "desc": failed[0][:120], "replay": rp})
                state["code"] = EXIT_VIOLATION
            else:
                inconclusive(f"{failed[0][:220]} does not hold on the MIR, but none of the {n} native scenarios deviates: encoder gap or a change the scenarios do not expose")
        elif dev and state["code"] == EXIT_OK:
            inconclusive(f"scenario {dev[0][0]} deviates natively (`{dev[0][1][:100]}` vs `{dev[0][2][:100]}`) although every obligation was discharged: the difference lies outside the encoded function")
    finally:
        errs = z3.errors + cv.errors
        res["solver_s"] += z3.time + cv.time
        z3.close()
        cv.close()
        if errs:
            inconclusive("solver error output: " + errs[0][:200])
    res["nontrivial"] = len(witnesses)
    res["witnesses"] = sorted(witnesses)
    res["exit"] = state["code"]
    res["wall"] = time.time() - t0
    return res


def replay_file(path):
    rec = json.load(open(path))
    ok, binp, out = build_bridge_replay(rec["property"])
    if not ok:
        say("native bridge driver does not build")
        return EXIT_INCONCLUSIVE
    dev, n = native_scenarios(binp)
    hit = [d for d in dev if d[0] == rec["scenario"]]
    say(f"scenario {rec['scenario']}: " + (f"real `{hit[0][1]}` vs expected `{hit[0][2]}`" if hit else "no deviation now"))
    return EXIT_VIOLATION if hit else EXIT_OK
