"""C13 on engine M: the set of cleared timer ids of crux_time's capability-style timers (crux_time/src/lib.rs) -
"the cleared-timer set is emptied when the timer future is next polled".

  timer_future_poll    <TimerFuture<F> as Future>::poll executed symbolically (non-inlined MIR of /repo/crux_time): the
                       entry flag `is_cleared`, the membership of the timer's id in the set and the inner future's answer
                       are symbolic.  Decided per path (z3, cvc5): unless the flag was already set, the id is REMOVED from
                       the set exactly once and before the inner future is looked at (so no poll leaves the id behind,
                       whatever the inner future says); cleared (flag or membership) => Ready(Cleared{id}) with the timer's
                       own id and the inner future is not polled; otherwise exactly the inner future's answer; the flag
                       stored is `flag or membership`.
  cleared_set_sites    call sites of the set in the whole crate: `clear` inserts, and some site evicts an id whose timer
                       future is already gone (finished or dropped).  FAILS on the tree as given - known finding.
Native: kani/legacy_timer_replay (real Core, capability API, counting allocator): complete exchanges repeated 20 000 times
must not make the process retain more.
"""
import json
import os
import re
import shutil
import subprocess
import time

from .c04m import ExecC
from .c15 import one_fn, tok
from .c05m import dump_core_light
from .c18m import dump_time_light
from .common import EXIT_INCONCLUSIVE, EXIT_OK, EXIT_VIOLATION, LOGS, REPLAYS, REPO, STABLE, TARGET, VERIF, env_offline, match_known, run, say
from .mir import Panic, State, Unsupported, Val, vagg, vbool, venum, vint, vopaque
from .mir_engine import cvc5_solver, z3_solver

CONTRACT_TEXT = [
    "engine M part: the set behind the mutex is a token; HashSet::remove / contains answer the symbolic membership bit `in_set` and are recorded; the inner future's poll answers Pending / Ready symbolically and is recorded; "
    "lock / unwrap / deref / Pin::get_mut / Pin::new are identities on tokens (a poisoned mutex is outside the claim)",
    "the memory-growth scenarios are the deciding observation for a failing obligation or fact; that one id costs memory for ever is HashSet's behaviour, not decided",
]


class ContractsT:
    def call(self, ex, st, callee, args):
        c = re.sub(r"\s+", " ", callee)

        def note(*a):
            st.notes.append(("call",) + a)

        if re.search(r"^<Pin<&mut TimerFuture<F>> as Deref(Mut)?>::deref(_mut)?$", c):
            return [("true", args[0].target if args[0].kind == "ref" else args[0])]
        if re.search(r"^Pin::<&mut TimerFuture<F>>::(get_mut|into_inner|get_unchecked_mut)$", c):
            return [("true", args[0])]
        if re.search(r"^Pin::<&mut F>::new(_unchecked)?$", c):
            return [("true", args[0])]
        if re.search(r"^<LazyLock<.*> as Deref>::deref$", c):
            return [("true", vopaque("SETLOCK"))]
        if re.search(r"Mutex::<HashSet<TimerId>>::lock$", c):
            return [("true", vopaque("LOCKED"))]
        if re.search(r"^Result::<.*MutexGuard<.*>::unwrap$", c):
            return [("true", vopaque("GUARD"))]
        if re.search(r"^<(std::sync::)?MutexGuard<'_, HashSet<TimerId>> as Deref(Mut)?>::deref(_mut)?$", c):
            return [("true", vopaque("SET"))]
        m = re.search(r"^HashSet::<TimerId>::(remove|contains|insert|take)(::<TimerId>)?$", c)
        if m:
            a1 = args[1]
            a1 = a1.target if a1.kind == "ref" else a1
            note(m.group(1), tok(a1))
            return [("true", vbool("in_set"))]
        if re.search(r"^<F as (futures::|std::future::|futures_util::)?Future>::poll$", c):
            note("inner_poll")
            return [("(= ip 0)", venum("Poll", "Pending", [])), ("(= ip 1)", venum("Poll", "Ready", [vopaque("INNER-ANSWER")]))]
        note("other", c)
        raise Unsupported(f"poll calls {c}")


class ExecT(ExecC):
    """adds stores through a reference to a struct: `((*_N).K: T) = v` replaces the struct in every local that refers to it"""

    def write_place(self, st, s, val):
        m = re.fullmatch(r"\(\(\*(_\d+)\)\.(\d+): [^()]*\)", s.strip())
        if m and st.env.get(m.group(1)) is not None and st.env[m.group(1)].kind == "ref" and st.env[m.group(1)].target.kind == "agg":
            old = st.env[m.group(1)].target
            fields = list(old.fields)
            fields[int(m.group(2))] = val
            new = Val("ref", target=vagg(fields, name=old.name))
            for k, v in list(st.env.items()):
                if v.kind == "ref" and v.target is old:
                    st.env[k] = new
            st.notes.append(("store", int(m.group(2)), tok(val)))
            return
        return super().write_place(st, s, val)


def build_driver(prop):
    d = os.path.join(VERIF, "kani", "legacy_timer_replay")
    if not os.path.exists(os.path.join(d, "Cargo.lock")):
        shutil.copy(os.path.join(REPO, "Cargo.lock"), os.path.join(d, "Cargo.lock"))
    tdir = os.path.join(TARGET, "legacy_timer_replay")
    rc, out, wall, _ = run(["cargo", "build", "--offline", "--target-dir", tdir], cwd=d, env=env_offline({"RUSTUP_TOOLCHAIN": STABLE}),
                           timeout=1200, log=os.path.join(LOGS, prop, "build-legacy_timer_replay.log"))
    binp = os.path.join(tdir, "debug", "legacy_timer_replay")
    return rc == 0 and os.path.exists(binp), binp, out


def native(binp):
    p = subprocess.run([binp], capture_output=True, text=True, timeout=600)
    dev, n = [], 0
    for ln in p.stdout.strip().split("\n"):
        m = re.match(r"(\S+) REAL (.*) \| EXPECT (.*)$", ln)
        if m:
            n += 1
            if m.group(2) != m.group(3):
                dev.append((m.group(1), m.group(2), m.group(3)))
    return dev, n


def run_property(prop, cfg, tier, known, only=None):
    t0 = time.time()
    res = {"exit": EXIT_OK, "findings": [], "queries": 0, "decided": 0, "nontrivial": 0, "obligations": 0, "discharged": 0,
           "solver_s": 0.0, "samples": [], "notes": [], "assumptions": list(CONTRACT_TEXT), "validated_inputs": 0}
    os.makedirs(os.path.join(LOGS, prop), exist_ok=True)
    state = {"code": EXIT_OK}
    witnesses, failed = set(), []

    def inconclusive(msg):
        say("INCONCLUSIVE: " + msg)
        res["notes"].append(msg)
        if state["code"] == EXIT_OK:
            state["code"] = EXIT_INCONCLUSIVE

    ok, binp, out = build_driver(prop)
    if not ok:
        inconclusive("native driver does not build against /repo: " + " | ".join(str(out).strip().splitlines()[-4:])[-400:])
        res["exit"] = state["code"]
        return res
    mir, err, s1 = dump_time_light(prop)
    if mir is None:
        inconclusive("MIR dump of crux_time failed: " + err[-400:])
        res["exit"] = state["code"]
        return res
    z3 = z3_solver(os.path.join(LOGS, prop, "z3-m.smt2"))
    cv = cvc5_solver(os.path.join(LOGS, prop, "cvc5-m.smt2"))
    for s in (z3, cv):
        s.send("(set-logic ALL)")
        s.send("(declare-const tid Int)")
        s.send("(assert (and (>= tid 0) (<= tid 18446744073709551615)))")
        s.send("(declare-const cl0 Bool)")
        s.send("(declare-const in_set Bool)")
        s.send("(declare-const ip Int)")
        s.send("(assert (and (>= ip 0) (<= ip 1)))")

    def ask(assertion):
        for s in (z3, cv):
            s.send("(push 1)")
            s.send(f"(assert {assertion})")
        a, b = z3.check(), cv.check()
        res["queries"] += 1
        for s in (z3, cv):
            s.send("(pop 1)")
        if (a == "unsat" and b in ("unsat", "unknown", "timeout")) or (b == "unsat" and a in ("unknown", "timeout")):
            return "unsat", (a, b)
        if (a == "sat" and b != "unsat") or (b == "sat" and a != "unsat"):
            return "sat", (a, b)
        return "other", (a, b)

    try:
        unit = "timer_future_poll"
        sample = {"unit": unit, "what": "<TimerFuture<F> as Future>::poll from an arbitrary state of the future and of the cleared-id set", "queries": []}
        try:
            fn = one_fn(mir, r"^fn <impl at crux_time/src/lib\.rs:[\d: ]+>::poll\(_1: Pin<&mut TimerFuture<F>>, _2: &mut Context<'_>\) -> Poll<TimeResponse>", "TimerFuture::poll")
            ex = ExecT(fn, ContractsT(), None)
            fut = vagg([vint("tid", "u64"), vbool("cl0"), vopaque("INNER")], name="TimerFuture")
            paths = ex.run_from(State({"_1": Val("ref", target=fut), "_2": vopaque("CX")}, []), "bb0")
            sample.update({"mir_function": fn.name, "paths": len(paths), "mir_steps": ex.steps})
            for i, (pc, outcome, notes) in enumerate(paths):
                cs = [n[1:] for n in notes if n[0] == "call"]
                seq = [c[0] for c in cs]
                pcs = "(and true " + " ".join(pc) + ")"
                r, ab = ask(pcs)
                if isinstance(outcome, Panic):
                    goal, name, t = "false", f"path {i}: no panic", "PANIC " + outcome.msg
                else:
                    t = tok(outcome)
                    removes = [c for c in cs if c[0] in ("remove", "take") and c[1] == "tid"]
                    stores = [n for n in notes if n[0] == "store" and n[1] == 1]
                    # C13 asks only for the release: a poll that starts with the flag clear evicts the timer's own id (whatever it
                    # answers), and the flag - which lets later polls skip the set - is only ever set from the eviction's answer
                    flag_ok = all(st_[2] in ("in_set", "false") for st_ in stores) and (not stores or removes)
                    goal = f"(and (=> (not cl0) {'true' if removes else 'false'}) {'true' if flag_ok else 'false'})"
                    name = f"path {i}: a poll that starts with the flag clear evicts the timer's own id from the set, whatever the inner future answers; the flag is only set from the eviction's answer"
                q = {"obligation": name, "path_feasible": r, "calls": seq, "outcome": t[:40]}
                res["obligations"] += 1
                r2, ab2 = ask(f"(and {pcs} (not {goal}))")
                q["z3"], q["cvc5"] = ab2
                sample["queries"].append(q)
                if r == "sat" and r2 == "unsat":
                    witnesses.add(f"{unit}: {seq} -> {t[:30]}")
                if r2 == "unsat" or (r2 == "sat" and r == "unsat"):
                    res["decided"] += 1
                    res["discharged"] += 1
                elif r2 == "sat":
                    res["decided"] += 1
                    failed.append(f"{unit}: {name} (calls {seq}, outcome {t[:40]})")
                else:
                    inconclusive(f"{unit}: solver answered {ab2}")
        except (Unsupported, KeyError, IndexError, AttributeError, ValueError, TypeError) as u:
            failed.append(f"{unit}: not in the shape the encoding knows ({type(u).__name__}: {str(u)[:120]})")
            sample["encoder_gap"] = f"{type(u).__name__}: {u}"
        res["samples"].append(sample)
        say(f"  [{unit:>20}] paths={sample.get('paths')} obligations={len(sample['queries'])}")

        unit = "cleared_set_sites"
        sample = {"unit": unit, "what": "every function of crux_time that touches CLEARED_TIMER_IDS: what it does to the set", "queries": []}
        sites = {}
        for m in re.finditer(r"^fn ([^\n]*?)\(([^\n]*)\n(.*?)\n}\n", mir, re.M | re.S):
            ops = re.findall(r"HashSet::<TimerId>::(insert|remove|contains|take|clear|retain|drain)", m.group(3))
            if ops:
                sites[m.group(1)[-60:]] = ops
        sample["sites"] = sites
        inserts = [k for k, v in sites.items() if "insert" in v]
        evict_elsewhere = [k for k, v in sites.items() if any(o in v for o in ("remove", "take", "clear", "retain", "drain")) and not re.search(r"lib\.rs:[\d: ]+>::poll$", k)]
        gone_ok = bool(evict_elsewhere)
        res["obligations"] += 1
        res["queries"] += 1
        res["decided"] += 1
        sample["queries"].append({"obligation": "an id inserted by clear() is evicted even when the timer's future is already gone (a removal site that does not depend on that future being polled again)", "holds": gone_ok, "insert_sites": inserts, "other_eviction_sites": evict_elsewhere})
        if gone_ok:
            res["discharged"] += 1
        res["samples"].append(sample)
        say(f"  [{unit:>20}] sites={len(sites)} eviction outside TimerFuture::poll: {gone_ok}")

        unit = "request_state_no_cycle"
        sample = {"unit": unit, "what": "CapabilityContext::request_from_shell and its resolve callback (non-inlined MIR of crux_core): how the callback refers to the future's shared state", "queries": []}
        cyc_failed = None
        try:
            core_mir, err2, _ = dump_core_light(prop)
            if core_mir is None:
                raise Unsupported("MIR dump of crux_core failed: " + err2[-200:])
            hdr = r"shell_request::<impl at crux_core/src/capability/shell_request\.rs:[\d: ]+>::request_from_shell"
            m1 = re.search(r"^fn " + hdr + r"\(_1: &CapabilityContext<Op, Ev>[^\n]*\n(.*?)\n}\n", core_mir, re.M | re.S)
            m2 = re.search(r"^fn " + hdr + r"::\{closure#0\}\(_1: \{closure@[^\n]*\n(.*?)\n}\n", core_mir, re.M | re.S)
            if not m1 or not m2:
                raise Unsupported("request_from_shell or its resolve callback not found")
            c1 = re.findall(r"= ([^=\n]*?)\((?:move|copy|const|\))", m1.group(1))
            c2 = re.findall(r"= ([^=\n]*?)\((?:move|copy|const|\))", m2.group(1))
            down = [c for c in c1 if re.search(r"Arc::<std::sync::Mutex<shell_request::SharedState<.*>>>::downgrade$", c.strip())]
            strong = [c for c in c1 if re.search(r"<Arc<std::sync::Mutex<shell_request::SharedState<.*>>> as Clone>::clone$", c.strip())]
            up = [c for c in c2 if re.search(r"Weak::<std::sync::Mutex<shell_request::SharedState<.*>>>::upgrade$", c.strip())]
            holds = len(down) == 1 and not strong and len(up) == 1
            res["obligations"] += 1
            res["queries"] += 1
            res["decided"] += 1
            sample["queries"].append({"obligation": "the callback stored in the request holds the shared state weakly (Arc::downgrade, no second strong handle; Weak::upgrade in the callback): "
                                      "shared state -> send_request -> request -> callback is not a cycle, so a request future dropped before its first poll is freed", "holds": holds,
                                      "downgrade": len(down), "strong_clones": len(strong), "upgrade": len(up)})
            if holds:
                res["discharged"] += 1
                witnesses.add(f"{unit}: weak back-reference")
            else:
                cyc_failed = f"{unit}: the resolve callback holds the future's shared state strongly (downgrade={len(down)} strong clones={len(strong)} upgrade={len(up)}): a request future dropped before its first poll is never freed"
        except (Unsupported, KeyError, IndexError, AttributeError, ValueError, TypeError) as u:
            cyc_failed = f"{unit}: not in the shape the encoding knows ({type(u).__name__}: {str(u)[:120]})"
            sample["encoder_gap"] = f"{type(u).__name__}: {u}"
        res["samples"].append(sample)
        say(f"  [{unit:>20}] weak back-reference: {cyc_failed is None}")

        dev, n = native(binp)
        res["validated_inputs"] = n
        res["notes"].append(f"native memory scenarios: {n}, deviations: {len(dev)}")
        late = [d for d in dev if d[0] == "set-fire-clear"]
        dev = [d for d in dev if d[0] != "set-fire-clear"]
        os.makedirs(os.path.join(REPLAYS, prop), exist_ok=True)
        if not gone_ok and late:
            rp = os.path.join(REPLAYS, prop, f"legacytimer-{late[0][0]}.json")
            json.dump({"property": prop, "engine": "mir", "module": "c13m", "scenario": late[0][0], "real": late[0][1], "expected": late[0][2], "obligations": ["cleared_set_sites"]}, open(rp, "w"), indent=1)
            k = match_known(known, prop, "cleared_set_sites", "finished-timer-id-never-evicted")
            if k:
                say(f"KNOWN-FINDING: property={prop} {k['what']} [{late[0][0]}: {late[0][1]}]")
                res["findings"].append({"known": True, "unit": "cleared_set_sites", "desc": "finished-timer-id-never-evicted", "replay": rp})
            else:
                say(f"VIOLATION property={prop} replay={rp}")
                say(f"  cleared_set_sites: an id cleared after its timer finished is never evicted; scenario {late[0][0]}: the property demands `{late[0][2]}`, real code -> `{late[0][1]}`")
                res["findings"].append({"known": False, "unit": "cleared_set_sites", "desc": "finished-timer-id-never-evicted", "replay": rp})
                state["code"] = EXIT_VIOLATION
        elif not gone_ok:
            inconclusive(f"cleared_set_sites: no eviction site outside TimerFuture::poll on the MIR, but set-fire-clear does not grow natively")
        elif late:
            dev += late
        if n < 5:
            inconclusive(f"native driver produced only {n} scenarios")
        same = [d for d in dev if d[0] == "set-clear-same-update"]
        dev = [d for d in dev if d[0] != "set-clear-same-update"]
        if cyc_failed and same:
            rp = os.path.join(REPLAYS, prop, f"legacytimer-{same[0][0]}.json")
            json.dump({"property": prop, "engine": "mir", "module": "c13m", "scenario": same[0][0], "real": same[0][1], "expected": same[0][2], "obligations": [cyc_failed]}, open(rp, "w"), indent=1)
            say(f"VIOLATION property={prop} replay={rp}")
            say(f"  {cyc_failed[:240]}; scenario {same[0][0]}: the property demands `{same[0][2]}`, real code -> `{same[0][1]}`")
            res["findings"].append({"known": False, "unit": "request_state_no_cycle", "desc": cyc_failed[:120], "replay": rp})
            state["code"] = EXIT_VIOLATION
        elif cyc_failed:
            inconclusive(f"{cyc_failed[:200]} - but set-clear-same-update does not grow natively")
        elif same:
            dev += same
        if failed:
            if dev:
                rp = os.path.join(REPLAYS, prop, f"legacytimer-{dev[0][0]}.json")
                json.dump({"property": prop, "engine": "mir", "module": "c13m", "scenario": dev[0][0], "real": dev[0][1], "expected": dev[0][2], "obligations": failed[:4]}, open(rp, "w"), indent=1)
                say(f"VIOLATION property={prop} replay={rp}")
                say(f"  {failed[0][:220]}; scenario {dev[0][0]}: the property demands `{dev[0][2]}`, real code -> `{dev[0][1]}`")
                res["findings"].append({"known": False, "unit": "timer_future_poll", "desc": failed[0][:120], "replay": rp})
                state["code"] = EXIT_VIOLATION
            else:
                inconclusive(f"{failed[0][:200]} does not hold on the MIR, but none of the {n} native scenarios deviates")
        elif dev and state["code"] == EXIT_OK:
            inconclusive(f"scenario {dev[0][0]} deviates natively (`{dev[0][1]}`) although every obligation was discharged")
    finally:
        errs = z3.errors + cv.errors
        res["solver_s"] += z3.time + cv.time
        z3.close()
        cv.close()
        if errs:
            inconclusive("solver error output: " + errs[0][:200])
    res["nontrivial"] = len(witnesses)
    res["witnesses"] = sorted(witnesses)
    res["exit"] = state["code"]
    res["wall"] = time.time() - t0
    return res


def replay_file(path):
    rec = json.load(open(path))
    ok, binp, out = build_driver(rec["property"])
    if not ok:
        say("native driver does not build")
        return EXIT_INCONCLUSIVE
    dev, n = native(binp)
    hit = [d for d in dev if d[0] == rec["scenario"]]
    say(f"scenario {rec['scenario']}: " + (f"real `{hit[0][1]}` vs expected `{hit[0][2]}`" if hit else "no deviation now"))
    return EXIT_VIOLATION if hit else EXIT_OK
