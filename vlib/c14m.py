"""C14 on engine M: `into_protocol_request` (crux_http/src/protocol.rs) - the one function both APIs use to turn the described
request into what the shell receives - from the non-inlined MIR of /repo/crux_http.

  into_protocol_request   the async block executed from its start and from its resume point: `is_empty()` answers None / Some(false) /
                          Some(true), the body future Pending / Ok(bytes) / Err symbolically.  Decided per path (z3, cvc5): the body is
                          read (take_body -> into_bytes, awaited once) unless is_empty() = Some(true) - in particular for a body of unknown
                          length (None) - and only a body known to be empty is replaced by a new empty Vec without being touched; a failed body read is the error outcome and no request is produced; the
                          produced HttpRequest is { method: to_string(method(self)), url: to_string(url(self)), headers: the list collected
                          from iter(self) through the two header closures (and ordered, see C11), body: exactly the bytes read / the empty
                          Vec } - nothing else flows into it.
  header_closures         the flat_map closure maps every value of an entry (HeaderValues::iter of THAT entry) with a closure capturing THAT
                          entry's name; the map closure builds HttpHeader { name: to_string(name), value: to_string(value) }.
  request_setters_delegate  crux_http::Request's set_body / insert_header / append_header / set_content_type hand their arguments to the
                          same-named http-types method and do nothing else; body_string / body_json / body_form / body_bytes make the body
                          with http-types' constructor and install it with set_body, nothing else (so content types are http-types' own).
  sent_once               the command API's build() block calls into_protocol_request once and request_from_shell once.
Native: kani/request_replay - ten requests described through the command API and through the capability API (URL with query,
escapes and fragment, unicode URL, mixed-case and multi-valued headers, string / JSON / bytes / form bodies, query struct, content-type
override, empty POST) against hand-written wire forms.
"""
import json
import os
import re
import shutil
import subprocess
import time

from .c04m import ContractsC, ExecC, calls_of, coroutine_env, state_targets
from .c15 import one_fn, tok
from .c16m import dump_http_light
from .common import EXIT_INCONCLUSIVE, EXIT_OK, EXIT_VIOLATION, LOGS, REPLAYS, REPO, STABLE, TARGET, VERIF, env_offline, run, say
from .mir import Panic, State, Unsupported, Val, vagg, vbool, venum, vopaque
from .mir_engine import cvc5_solver, z3_solver

CONTRACT_TEXT = [
    "engine M part: the request, its method / url / header map, closures and byte vectors are opaque tokens (dataflow identity); Request::is_empty answers None / Some(false) / Some(true); the body future answers "
    "Pending / Ready(Ok(bytes)) / Ready(Err); `?` is Try::branch + from_residual; http-types' builders (header / body_* / query / content type) and url::Url are NOT encoded - their effect is observed only through the native scenarios",
]


class Contracts14(ContractsC):
    mir = ""

    def promoted(self, v):
        """a promoted constant `...::promoted[N]` of type &Option<bool>: read its one-assignment body from the dump"""
        if v.kind != "opaque":
            return v
        m = re.search(r"into_protocol_request(?:::<'_>)?::\{closure#0\}::promoted\[(\d+)\]$", v.text)
        if not m:
            return v
        b = re.search(r"^const [^\n]*into_protocol_request::\{closure#0\}::promoted\[" + m.group(1) + r"\]: &(?:std::option::)?Option<bool> = \{\n(.*?)\n\}", self.mir, re.M | re.S)
        if not b:
            raise Unsupported("promoted constant not found in the dump")
        a = re.search(r"_1 = (?:std::option::)?Option::<bool>::(Some\(const (true|false)\)|None);", b.group(1))
        if not a:
            raise Unsupported("promoted constant is not a plain Option<bool>")
        return venum("Option", "None", []) if a.group(1) == "None" else venum("Option", "Some", [vbool(a.group(2))])

    def call(self, ex, st, callee, args):
        c = re.sub(r"\s+", " ", callee)

        def note(*a):
            st.notes.append(("call",) + a)

        if re.search(r"\{async fn body of Body::into_bytes[^}]*\} as (futures_util::|futures::|std::future::)?Future>::poll$", c):
            note("body_poll", tok(args[0]))
            return [("(= bp 0)", venum("Poll", "Pending", [])), ("(= bp 1)", venum("Poll", "Ready", [venum("Result", "Ok", [vopaque("BODYBYTES")])])),
                    ("(= bp 2)", venum("Poll", "Ready", [venum("Result", "Err", [vopaque("BODYERR")])]))]
        if re.search(r"as Try>::branch$", c) and args[0].kind == "enum":
            a = args[0]
            return [("true", venum("ControlFlow", "Continue", [a.fields[0]]) if a.variant == "Ok" else venum("ControlFlow", "Break", [venum("Result", "Err", [a.fields[0]])]))]
        if re.search(r"as FromResidual<.*>>::from_residual$", c):
            a = args[0]
            return [("true", venum("Result", "Err", [vopaque("from(" + tok(a.fields[0] if a.kind == "enum" and a.fields else a) + ")")]))]
        if re.search(r"Request::is_empty$", c):
            note("is_empty")
            return [("(= ie 0)", venum("Option", "None", [])), ("(= ie 1)", venum("Option", "Some", [vbool("false")])), ("(= ie 2)", venum("Option", "Some", [vbool("true")]))]
        if re.search(r"^<(std::option::)?Option<bool> as PartialEq>::eq$", c):
            a, b = [self.promoted(x.target if x.kind == "ref" else x) for x in args]
            if a.kind == "enum" and b.kind == "enum":
                same = a.variant == b.variant and (a.variant == "None" or (a.fields[0].kind == "bool" and b.fields[0].kind == "bool" and a.fields[0].term == b.fields[0].term))
                return [("true", vbool("true" if same else "false"))]
            raise Unsupported("Option<bool> comparison of non-enum values")
        if re.search(r"Request::take_body$", c):
            note("take_body", tok(args[0]))
            return [("true", vopaque("BODY-OF(" + tok(args[0]) + ")"))]
        if re.search(r"Body::into_bytes$", c):
            note("into_bytes", tok(args[0]))
            return [("true", vopaque("INTO-BYTES(" + tok(args[0]) + ")"))]
        if re.search(r"^Vec::<u8>::new$", c):
            return [("true", vopaque("EMPTY-VEC"))]
        if re.search(r"IntoFuture>::into_future$|Pin::<.*>::new_unchecked$", c):
            return [("true", args[0])]
        note("other", c)
        return [("true", vopaque(re.sub(r"^<.* as (\w+)(<.*>)?>::", r"\1::", c).split("::<")[0][-60:] + "(" + ", ".join(tok(a) for a in args) + ")"))]


def build_driver(prop):
    d = os.path.join(VERIF, "kani", "request_replay")
    if not os.path.exists(os.path.join(d, "Cargo.lock")):
        shutil.copy(os.path.join(REPO, "Cargo.lock"), os.path.join(d, "Cargo.lock"))
    tdir = os.path.join(TARGET, "request_replay")
    rc, out, wall, _ = run(["cargo", "build", "--offline", "--target-dir", tdir], cwd=d, env=env_offline({"RUSTUP_TOOLCHAIN": STABLE}),
                           timeout=1200, log=os.path.join(LOGS, prop, "build-request_replay.log"))
    binp = os.path.join(tdir, "debug", "request_replay")
    return rc == 0 and os.path.exists(binp), binp, out


def native(binp):
    p = subprocess.run([binp], capture_output=True, text=True, timeout=300)
    dev, n = [], 0
    for ln in p.stdout.strip().split("\n"):
        m = re.match(r"(\S+) REAL (.*) \| EXPECT (.*)$", ln)
        if m:
            n += 1
            if m.group(2) != m.group(3):
                dev.append((m.group(1), m.group(2), m.group(3)))
    return dev, n


def run_property(prop, cfg, tier, known, only=None):
    t0 = time.time()
    res = {"exit": EXIT_OK, "findings": [], "queries": 0, "decided": 0, "nontrivial": 0, "obligations": 0, "discharged": 0,
           "solver_s": 0.0, "samples": [], "notes": [], "assumptions": list(CONTRACT_TEXT), "validated_inputs": 0}
    os.makedirs(os.path.join(LOGS, prop), exist_ok=True)
    state = {"code": EXIT_OK}
    witnesses, failed = set(), []

    def inconclusive(msg):
        say("INCONCLUSIVE: " + msg)
        res["notes"].append(msg)
        if state["code"] == EXIT_OK:
            state["code"] = EXIT_INCONCLUSIVE

    ok, binp, out = build_driver(prop)
    if not ok:
        inconclusive("native driver does not build against /repo: " + " | ".join(str(out).strip().splitlines()[-4:])[-400:])
        res["exit"] = state["code"]
        return res
    mir, err, s1 = dump_http_light(prop)
    if mir is None:
        inconclusive("MIR dump of crux_http failed: " + err[-400:])
        res["exit"] = state["code"]
        return res
    Contracts14.mir = mir
    z3 = z3_solver(os.path.join(LOGS, prop, "z3.smt2"))
    cv = cvc5_solver(os.path.join(LOGS, prop, "cvc5.smt2"))
    for s in (z3, cv):
        s.send("(set-logic ALL)")
        for v, hi in (("ie", 2), ("bp", 2)):
            s.send(f"(declare-const {v} Int)")
            s.send(f"(assert (and (>= {v} 0) (<= {v} {hi})))")
        for i in range(8):
            s.send(f"(declare-const ub{i} Bool)")

    def ask(assertion):
        for s in (z3, cv):
            s.send("(push 1)")
            s.send(f"(assert {assertion})")
        a, b = z3.check(), cv.check()
        res["queries"] += 1
        for s in (z3, cv):
            s.send("(pop 1)")
        if (a == "unsat" and b in ("unsat", "unknown", "timeout")) or (b == "unsat" and a in ("unknown", "timeout")):
            return "unsat", (a, b)
        if (a == "sat" and b != "unsat") or (b == "sat" and a != "unsat"):
            return "sat", (a, b)
        return "other", (a, b)

    def oblige(unit, name, pc, goal, sample, extra=None):
        pcs = "(and true " + " ".join(pc) + ")"
        r, ab = ask(pcs)
        q = {"obligation": name, "path_feasible": r}
        if extra:
            q.update(extra)
        res["obligations"] += 1
        r2, ab2 = ask(f"(and {pcs} (not {goal}))")
        q["z3"], q["cvc5"] = ab2
        sample["queries"].append(q)
        if r == "sat" and r2 == "unsat":
            witnesses.add(f"{unit}: {name[:60]} {(extra or {}).get('outcome', '')[:24]}")
        if r2 == "unsat" or (r2 == "sat" and r == "unsat"):
            res["decided"] += 1
            res["discharged"] += 1
        elif r2 == "sat":
            res["decided"] += 1
            failed.append(f"{unit}: {name}")
        else:
            inconclusive(f"{unit} {name}: solver answered {ab2}")

    IPR = r"^fn protocol::<impl at crux_http/src/protocol\.rs:[\d: ]+>::into_protocol_request::\{closure#0\}"
    try:
        unit = "into_protocol_request"
        sample = {"unit": unit, "what": "the async block of into_protocol_request from its start and from its resume point", "queries": []}
        try:
            fn = one_fn(mir, IPR + r"\(_1: Pin<&mut \{async block", "into_protocol_request's async block")
            targets = state_targets(fn)
            entries = {"start": targets[0]}
            for k, bb in targets.items():
                if k >= 3:
                    entries[f"resumed at await {k - 2}"] = bb
            for label, bb in entries.items():
                ex = ExecC(fn, Contracts14(), None)
                env = coroutine_env(fn, mir)
                paths = ex.run_from(State(env, []), bb)
                sample["paths"] = sample.get("paths", 0) + len(paths)
                sample["mir_steps"] = sample.get("mir_steps", 0) + ex.steps
                for i, (pc, outcome, notes) in enumerate(paths):
                    cs = calls_of(notes)
                    seq = [c[0] for c in cs]
                    if isinstance(outcome, Panic):
                        oblige(unit, f"{label} path {i}: no panic", pc, "false", sample, {"calls": seq, "outcome": "PANIC " + outcome.msg[:30]})
                        continue
                    t = tok(outcome)
                    extra = {"entry": label, "calls": [c for c in seq if c != "other"], "outcome": t[:60]}
                    reads = seq.count("take_body")
                    polls = seq.count("body_poll")
                    self_tok = "SELF" if label == "start" else "__SELF"
                    if t.startswith("Ready(Ok(HttpRequest{"):
                        inner = t[len("Ready(Ok(HttpRequest{"):]
                        from .mir import split_top
                        fields = split_top(inner[:inner.rindex("}")])
                        f_ok = (len(fields) == 4 and "to_string(&request::Request::method(&" + self_tok in fields[0].replace("<Method as ToString>::", "").replace("ToString::", "") + ""
                                or len(fields) == 4 and re.search(r"to_string\(&?request::Request::method\(&" + self_tok + r"\)\)$", fields[0]) is not None)
                        m_ok = len(fields) == 4 and re.search(r"to_string\(&?request::Request::method\(&" + self_tok + r"\)\)$", fields[0]) is not None
                        u_ok = len(fields) == 4 and re.search(r"to_string\(&?request::Request::url\(&" + self_tok + r"\)\)$", fields[1]) is not None
                        h_ok = len(fields) == 4 and "request::Request::iter(&" + self_tok + ")" in fields[2] and "collect" in fields[2] and "flat_map" in fields[2]
                        others = [c[1] for c in cs if c[0] == "other"]
                        # nothing but the four sources flows into the request: every other callee is one of the known plumbing calls
                        plumbing = all(re.search(r"Request::(iter|method|url)$|as Iterator>::(flat_map|collect)::<|as ToString>::to_string$|as DerefMut>::deref_mut$|as Deref>::deref$|::sort(_unstable)?(_by|_by_key|_by_cached_key)?::<|Option<bool> as PartialEq>::eq$", o) for o in others)
                        if label == "start" and not reads:
                            body_ok = fields[3] == "EMPTY-VEC" if len(fields) == 4 else False
                            goal = f"(and {'true' if m_ok and u_ok and h_ok and body_ok and plumbing and polls == 0 else 'false'} (= ie 2))"
                            name = "the body is known to be empty: the request carries the method, the url, the collected headers and a new empty body; the body is not touched"
                        else:
                            body_ok = fields[3] == "BODYBYTES" if len(fields) == 4 else False
                            want_read = (reads == 1 and seq.index("take_body") < seq.index("into_bytes") < seq.index("body_poll")) if label == "start" else reads == 0
                            goal = f"(and {'true' if m_ok and u_ok and h_ok and body_ok and plumbing and polls == 1 and want_read else 'false'} (= bp 1){' (not (= ie 2))' if label == 'start' else ''})"
                            name = "a body may be present (length non-zero or unknown): it is taken and read once, and the request carries the method, the url, the collected headers and exactly the bytes read"
                        extra["fields_ok"] = {"method": m_ok, "url": u_ok, "headers": h_ok, "body": body_ok, "plumbing_only": plumbing}
                    elif t.startswith("Pending"):
                        goal = f"(and {'true' if polls == 1 else 'false'} (= bp 0){' (not (= ie 2))' if label == 'start' else ''})"
                        name = "pending exactly while the body read is"
                    elif t.startswith("Ready(Err("):
                        goal = f"(and {'true' if polls == 1 and 'BODYERR' in t else 'false'} (= bp 2){' (not (= ie 2))' if label == 'start' else ''})"
                        name = "a failed body read is the error outcome; no request is produced"
                    else:
                        goal, name = "false", f"unexpected outcome {t[:40]}"
                    oblige(unit, f"{label}: {name}", pc, goal, sample, extra)
        except (Unsupported, KeyError, IndexError, AttributeError, ValueError, TypeError) as u:
            failed.append(f"{unit}: not in the shape the encoding knows ({type(u).__name__}: {str(u)[:120]})")
            sample["encoder_gap"] = f"{type(u).__name__}: {u}"
        res["samples"].append(sample)
        say(f"  [{unit:>22}] paths={sample.get('paths')} obligations={len(sample['queries'])}")

        unit = "header_closures"
        sample = {"unit": unit, "what": "the flat_map closure over (name, values) entries and the map closure over one entry's values", "queries": []}
        try:
            fnF = one_fn(mir, IPR + r"::\{closure#\d+\}\(_1: &mut \{closure@[^}]*\}, _2: \(&(?:[\w:]+::)?HeaderName, &(?:[\w:]+::)?HeaderValues\)\)", "the flat_map closure")
            exF = ExecC(fnF, Contracts14(), None)
            pathsF = exF.run_from(State({"_1": vopaque("CL"), "_2": vagg([vopaque("NAME"), vopaque("VALUES")])}, []), "bb0")
            for i, (pc, outcome, notes) in enumerate(pathsF):
                t = "PANIC" if isinstance(outcome, Panic) else tok(outcome)
                # exactly map(iter(values of this entry), closure{this entry's name}): no filter / take / skip in between
                good = (not isinstance(outcome, Panic)) and re.fullmatch(r"Iterator::map\(HeaderValues::iter\(VALUES\), ?\{closure@[^}]*\}\{NAME\}\)", t) is not None
                oblige(unit, "every value of THIS entry is mapped with a closure that captured THIS entry's name", pc, "true" if good else "false", sample, {"outcome": t[:120]})
            fnM = one_fn(mir, IPR + r"::\{closure#\d+\}::\{closure#\d+\}\(_1: &mut \{closure@[^}]*\}, _2: &(?:[\w:]+::)?HeaderValue\)", "the map closure")
            exM = ExecC(fnM, Contracts14(), None)
            pathsM = exM.run_from(State({"_1": Val("ref", target=vagg([vopaque("NAME")])), "_2": vopaque("VALUE")}, []), "bb0")
            for i, (pc, outcome, notes) in enumerate(pathsM):
                t = "PANIC" if isinstance(outcome, Panic) else tok(outcome)
                good = re.fullmatch(r"HttpHeader\{[^,]*to_string\(NAME\),[^,]*to_string\(VALUE\)\}", t) is not None
                oblige(unit, "one header line = { name: to_string(the entry's name), value: to_string(the value) }", pc, "true" if good else "false", sample, {"outcome": t[:120]})
            sample["paths"] = len(pathsF) + len(pathsM)
        except (Unsupported, KeyError, IndexError, AttributeError, ValueError, TypeError) as u:
            failed.append(f"{unit}: not in the shape the encoding knows ({type(u).__name__}: {str(u)[:120]})")
            sample["encoder_gap"] = f"{type(u).__name__}: {u}"
        res["samples"].append(sample)
        say(f"  [{unit:>22}] paths={sample.get('paths')} obligations={len(sample['queries'])}")

        unit = "sent_once"
        sample = {"unit": unit, "what": "the command API's RequestBuilder::build async block: call list", "queries": []}
        try:
            fnB = one_fn(mir, r"^fn command::<impl at crux_http/src/command\.rs:[\d: ]+>::build::\{closure#0\}::\{closure#0\}\(_1: Pin<&mut \{async block", "command RequestBuilder::build async block")
            body = "\n".join(sum(fnB.blocks.values(), []))
            conv = len(re.findall(r"= [^\n=]*::into_protocol_request(?:::<'_>)?\(", body))
            sent = len(re.findall(r"= [^\n=]*::request_from_shell::<(?:protocol::)?HttpRequest>\(", body))
            holds = conv == 1 and sent == 1
            oblige(unit, "the described request is converted once and handed to the shell once", [], "true" if holds else "false", sample, {"conversions": conv, "requests": sent})
        except (Unsupported, KeyError, IndexError, AttributeError, ValueError, TypeError) as u:
            failed.append(f"{unit}: not in the shape the encoding knows ({type(u).__name__}: {str(u)[:120]})")
            sample["encoder_gap"] = f"{type(u).__name__}: {u}"
        res["samples"].append(sample)
        say(f"  [{unit:>22}] obligations={len(sample['queries'])}")

        unit = "request_setters_delegate"
        sample = {"unit": unit, "what": "crux_http::Request's setters and body helpers (non-inlined MIR): call lists", "queries": []}
        try:
            RQ = r"^fn request::<impl at crux_http/src/request\.rs:[\d: ]+>::"

            def calls_in(name):
                m_ = re.search(RQ + name + r"(?:::<[^\n(]*>)?\(_1: &mut request::Request[^\n]*\n(.*?)\n}\n", mir, re.M | re.S)
                if not m_:
                    raise Unsupported(f"Request::{name} not found")
                raw = [c.strip() for c in re.findall(r"= ([^=\n]*?)\((?:move|copy|const|\))", m_.group(1))]
                raw = [c for c in raw if not re.search(r"as Try>::branch$|as FromResidual<.*>>::from_residual$|as AsRef<\[u8\]>>::as_ref$|as From<.*Error>>::from$|^(std::result::)?Result::<.*>::(Ok|Err)$|^<?(std::result::)?Result(::)?<$", c)]
                return [c if c.startswith("<") else re.sub(r"::<.*$", "", c) for c in raw]

            HT = r"(?:http_types_red_badger_temporary_fork::|http_types::)?"
            thin = {"set_body": "Request::set_body", "insert_header": "Request::insert_header", "append_header": "Request::append_header", "set_content_type": "Request::set_content_type"}
            for name, target in thin.items():
                cl = calls_in(name)
                holds = len(cl) == 1 and re.fullmatch(HT + target, cl[0]) is not None
                oblige(unit, f"Request::{name} hands its arguments to http-types' {target} and does nothing else", [], "true" if holds else "false", sample, {"calls": [c[-60:] for c in cl]})
            makers = {"body_string": "Body::from_string", "body_json": "Body::from_json", "body_form": "Body::from_form", "body_bytes": "<Body as From<&[u8]>>::from"}
            for name, maker in makers.items():
                cl = [c for c in calls_in(name) if not re.search(r"as Try>::branch$|as FromResidual<.*>>::from_residual$|as AsRef<\[u8\]>>::as_ref$|as From<.*Error>>::from$", c)]
                holds = len(cl) == 2 and cl[0].endswith(maker.split("::<")[0]) and re.fullmatch(r"(?:request::)?Request::set_body", cl[1]) is not None
                oblige(unit, f"Request::{name} makes the body with http-types' {maker} and installs it with set_body, nothing else", [], "true" if holds else "false", sample, {"calls": [c[-60:] for c in cl]})
        except (Unsupported, KeyError, IndexError, AttributeError, ValueError, TypeError) as u:
            failed.append(f"{unit}: not in the shape the encoding knows ({type(u).__name__}: {str(u)[:120]})")
            sample["encoder_gap"] = f"{type(u).__name__}: {u}"
        res["samples"].append(sample)
        say(f"  [{unit:>22}] obligations={len(sample['queries'])}")

        dev, n = native(binp)
        res["validated_inputs"] = n
        res["notes"].append(f"native request scenarios: {n} (14 requests x 2 APIs), deviations: {len(dev)}")
        if n < 28:
            inconclusive(f"native driver produced only {n} scenarios")
        if failed:
            if dev:
                os.makedirs(os.path.join(REPLAYS, prop), exist_ok=True)
                rp = os.path.join(REPLAYS, prop, f"request-{dev[0][0]}.json")
                json.dump({"property": prop, "engine": "mir", "module": "c14m", "scenario": dev[0][0], "real": dev[0][1], "expected": dev[0][2], "obligations": failed[:4]}, open(rp, "w"), indent=1)
                say(f"VIOLATION property={prop} replay={rp}")
                say(f"  {failed[0][:220]}; scenario {dev[0][0]}: the app described `{dev[0][2]}`, the shell received `{dev[0][1]}`")
                res["findings"].append({"known": False, "unit": failed[0].split(":")[0], "desc": failed[0][:120], "replay": rp})
                state["code"] = EXIT_VIOLATION
            else:
                inconclusive(f"{failed[0][:200]} does not hold on the MIR, but none of the {n} native scenarios deviates")
        elif dev and state["code"] == EXIT_OK:
            inconclusive(f"scenario {dev[0][0]} deviates natively (`{dev[0][1]}` vs `{dev[0][2]}`) although every obligation was discharged: the difference lies in http-types' builders or the url crate, outside the encoded functions")
    finally:
        errs = z3.errors + cv.errors
        res["solver_s"] += z3.time + cv.time
        z3.close()
        cv.close()
        if errs:
            inconclusive("solver error output: " + errs[0][:200])
    res["nontrivial"] = len(witnesses)
    res["witnesses"] = sorted(witnesses)
    res["exit"] = state["code"]
    res["wall"] = time.time() - t0
    return res


def replay_file(path):
    rec = json.load(open(path))
    ok, binp, out = build_driver(rec["property"])
    if not ok:
        say("native driver does not build")
        return EXIT_INCONCLUSIVE
    dev, n = native(binp)
    hit = [d for d in dev if d[0] == rec["scenario"]]
    say(f"scenario {rec['scenario']}: " + (f"real `{hit[0][1]}` vs expected `{hit[0][2]}`" if hit else "no deviation now"))
    return EXIT_VIOLATION if hit else EXIT_OK
