"""C15 on engine M: the status-code kernels of the HTTP response path, decided over the full u16 range.

Encoded from fresh optimised-MIR dumps of /repo/crux_http and of the http-types fork it links:
  A  http_types   <StatusCode as TryFrom<u16>>::try_from            (which codes the response model accepts)
  B  http_types   StatusCode::is_{client,server}_error, ...          (classification predicates)
  C  crux_http    <ResponseAsync as From<HttpResponse>>::from        (prefix: up to the point where the status
                                                                      has been accepted or the conversion panicked)
  D  crux_http    Response::<Body>::new  (async fn, coroutine MIR)   (continuation after its only await returned
                                                                      Ok(body): success vs HttpError::Http)
The discriminants of `enum StatusCode` are read from the crate's source file (MIR prints variant names).

Specification (from the property, independent of the code): for a shell response with status n
  100 <= n <= 399  -> exactly one success outcome carrying status n (and the body)
  400 <= n <= 599  -> exactly one HttpError::Http carrying code n (and the body)
  any n            -> no panic.
"""
import glob
import json
import os
import re
import shutil
import subprocess
import time

from .common import (EXIT_INCONCLUSIVE, EXIT_OK, EXIT_VIOLATION, LOGS, NIGHTLY, REPLAYS, REPO, STABLE, TARGET, VERIF,
                     env_offline, match_known, run, say)
from .mir import INT_BITS, Executor, Fn, Panic, State, Unsupported, Val, lit, split_top, vagg, vbool, vint, vopaque
from .mir_engine import cvc5_solver, parse_values, z3_solver

PKG = "http-types-red-badger-temporary-fork"
MIR_FLAGS = ["-Zunpretty=mir", "-Zmir-opt-level=3", "-Zinline-mir", "-Zinline-mir-threshold=1000",
             "-Zinline-mir-hint-threshold=1000", "-C", "debug-assertions=off", "-C", "overflow-checks=on"]

CONTRACT_TEXT = [
    "glue contract: the StatusCode accepted inside From<HttpResponse> (stored by http_types::Response::new) is the value ResponseAsync::status() "
    "returns later (struct field moves through Response::new / ResponseAsync::new and two getters; validated natively for every status on every run)",
    "glue contract: ResponseAsync::body_bytes().await yields the body set from HttpResponse.body (validated natively: body length and content compared)",
    "uninterpreted (opaque tokens, identity only): headers, version, the error message string, anyhow error construction on the rejection path of try_from",
    "enum StatusCode discriminants are read from the http-types source file named in the MIR dump (MIR prints variant names only)",
    "the coroutine of the async fn Response::new is entered at the block that follows its only await point with Ready(Ok(body)); "
    "the await failing (Err passed through from_residual) is outside the encoding",
]


# ---------------------------------------------------------------- MIR dumps
def dump(crate_dir, pkg, out_name, prop, fingerprint):
    tdir = os.path.join(TARGET, "mir15")
    for f in glob.glob(os.path.join(tdir, "debug", ".fingerprint", fingerprint + "-*")):
        shutil.rmtree(f, ignore_errors=True)
    cmd = ["cargo", "rustc", "--offline", "--lib", "--target-dir", tdir] + (["-p", pkg] if pkg else []) + ["--"] + MIR_FLAGS
    t0 = time.time()
    p = subprocess.run(cmd, cwd=crate_dir, env=env_offline({"RUSTUP_TOOLCHAIN": NIGHTLY}), capture_output=True, text=True, timeout=1800)
    os.makedirs(os.path.join(LOGS, prop), exist_ok=True)
    open(os.path.join(LOGS, prop, f"mir-dump-{out_name}.log"), "w").write(p.stderr)
    if p.returncode != 0 or "\nfn " not in p.stdout:
        return None, p.stderr[-600:], time.time() - t0
    open(os.path.join(TARGET, out_name + ".mir"), "w").write(p.stdout)
    return p.stdout, "", time.time() - t0


def find_fns(text, header_re):
    """MIR functions whose header line matches; parsed lazily (the http-types dump has ~400k lines)"""
    out = []
    for m in re.finditer(r"^fn (.*) \{$", text, re.M):
        head = m.group(0)
        if not re.search(header_re, head):
            continue
        end = text.find("\n}\n", m.end())
        body = text[m.end() + 1:end]
        hm = re.match(r"fn (.*?)\((.*)\) -> (.*) \{$", head)
        if not hm:
            continue
        params = []
        for p in split_top(hm.group(2)):
            pm = re.match(r"(_\d+): (.*)$", p)
            if pm:
                params.append((pm.group(1), pm.group(2)))
        out.append(Fn(head, hm.group(1), params, hm.group(3), body))
    return out


def one_fn(text, header_re, what):
    c = find_fns(text, header_re)
    if len(c) != 1:
        raise Unsupported(f"{what}: expected exactly one MIR function matching /{header_re}/, found {len(c)}")
    return c[0]


def status_table(http_mir):
    m = re.search(r"impl at (\S+/src/status_code\.rs):", http_mir)
    if not m:
        raise Unsupported("cannot locate status_code.rs of the http-types fork from the MIR dump")
    src = open(m.group(1)).read()
    em = re.search(r"pub enum StatusCode \{(.*?)\n\}", src, re.S)
    if not em:
        raise Unsupported("enum StatusCode not found in " + m.group(1))
    table = {}
    for vm in re.finditer(r"^\s*(\w+) = (\d+),", em.group(1), re.M):
        table[vm.group(1)] = int(vm.group(2))
    if len(table) < 10 or len(set(table.values())) != len(table):
        raise Unsupported(f"implausible StatusCode table ({len(table)} variants)")
    return table, m.group(1)


# ---------------------------------------------------------------- executor extensions
def canon_state(s, state_locals=None):
    """fields of a coroutine's saved state, `(((*_40) as variant#5).0: T)` and `((*_40).2: T)`, become
    pseudo-locals `_40v5f0` / `_40f2` (the state object is only ever reached through that one pointer)"""
    while True:
        m = re.search(r"\(\(\(\*(_\d+)\) as variant#(\d+)\)\.(\d+): ", s)
        if not m:
            # direct fields only of the coroutine's own state pointer (other `(*_n).f` places are ordinary)
            for m2 in re.finditer(r"\(\(\*(_\d+)\)\.(\d+): ", s):
                if state_locals is None or m2.group(1) in state_locals:
                    m = m2
                    break
        if not m:
            return s
        depth, i = 0, m.start()
        while i < len(s):
            if s[i] == "(":
                depth += 1
            elif s[i] == ")":
                depth -= 1
                if depth == 0:
                    break
            i += 1
        g = m.groups()
        n = int(g[0][1:])
        name = f"_9{n:03d}{int(g[1]):02d}{int(g[2]):02d}" if len(g) == 3 else f"_8{n:03d}{int(g[1]):02d}"
        s = s[:m.start()] + name + s[i + 1:]


def vcenum(term, name="StatusCode"):
    return Val("cenum", term=str(term), name=name)


class Stop:
    """outcome of a path that was cut at a stated point (not a return, not a panic)"""

    def __init__(self, what, value):
        self.what, self.value = what, value


class Exec15(Executor):
    def __init__(self, fn, contracts, table, stop_re=None):
        super().__init__(fn, contracts, None)
        self.table = table
        self.stop_re = stop_re
        # the local(s) through which a coroutine reaches its saved state: `_N = copy (_1.0: &mut {async ..})`
        self.state_locals = set(re.findall(r"(_\d+) = copy \(_1\.0: &mut \{", "\n".join(fn.blocks.get("bb0", []))))

    def run_from(self, st0, bb):
        self._block(st0, bb, 0)
        return self.paths

    def const(self, c):
        m = re.fullmatch(r"(?:[\w:]+::)?StatusCode::(\w+)", c)
        if m:
            if m.group(1) not in self.table:
                raise Unsupported(f"StatusCode variant {m.group(1)} not in the table read from the source")
            return vcenum(lit(self.table[m.group(1)]))
        return super().const(c)

    def parse_place(self, s):
        # coroutine state variants are printed as `variant#3`
        return super().parse_place(canon_state(s, self.state_locals).replace("variant#", "variantN"))

    def read_place(self, st, s):
        s = canon_state(s, self.state_locals)
        base = re.match(r"[\(\*]*(_\d+)", s.strip())
        if base and base.group(1) not in st.env and re.fullmatch(r"_[89]\d{5,7}", base.group(1)):
            # a field of the coroutine's saved state that these paths never wrote: not interpreted
            st.env[base.group(1)] = vopaque("state-field" + base.group(1))
        return super().read_place(st, s)

    def operand(self, st, s):
        s = s.strip()
        if s.startswith("no_retag "):
            s = s[len("no_retag "):]
        return super().operand(st, s)

    def rvalue(self, st, r, dest_ty):
        r = r.strip()
        if r.startswith("no_retag "):
            r = r[len("no_retag "):]
        m = re.fullmatch(r"discriminant\((.*)\)", r)
        if m:
            v = self.read_place(st, m.group(1))
            if v.kind == "cenum":
                return vint(v.term, dest_ty if dest_ty in INT_BITS else "isize")
        m = re.fullmatch(r"(.*) as (.*?) \((\w+)(?:\(.*\))?\)", r)
        if m and m.group(3) == "IntToInt" and m.group(1).startswith(("copy ", "move ")):
            v = self.operand(st, m.group(1))
            if v.kind == "cenum":
                return self.cast(st, vint(v.term, "u16"), m.group(2).strip(), "IntToInt")
        m = re.fullmatch(r"(\{closure@[^}]*\}) \{ (.*) \}", r)
        if m:
            fields = []
            for f in split_top(m.group(2)):
                fields.append(self.operand(st, re.match(r"\w+: (.*)$", f).group(1)))
            return vagg(fields, name=m.group(1))
        m = re.fullmatch(r"([\w:<>,\s&'\(\)\[\]\{\}]*?)::(Ready|Pending)(?:\((.*)\))?", r)
        if m:
            from .mir import venum
            return venum("Poll", m.group(2), [self.operand(st, x) for x in split_top(m.group(3))] if m.group(3) else [])
        return super().rvalue(st, r, dest_ty)

    def binop(self, st, op, a, b):
        if a.kind == "cenum":
            a = vint(a.term, "u16")
        if b.kind == "cenum":
            b = vint(b.term, "u16")
        return super().binop(st, op, a, b)

    def stmt(self, st, line):
        l = line.rstrip(";")
        if re.fullmatch(r"discriminant\(\(\*_\d+\)\) = \d+", l):
            return  # coroutine state bookkeeping
        if l.startswith("// DBG") or l.startswith("//"):
            return
        line = canon_state(line, self.state_locals)
        l = canon_state(l, self.state_locals)
        super().stmt(st, line)
        if self.stop_re and re.search(self.stop_re, l):
            dest = l.split(" = ")[0].strip()
            raise _StopPath(Stop("accepted", st.env.get(dest)))

    @staticmethod
    def _sanitize_call(line):
        """calls whose callee path itself contains parentheses (`<dyn Fn(A, B) -> C as Fn<(A, B)>>::call(..)`):
        find the argument list as the last balanced group before ` -> ` and neutralise the callee's own parens"""
        m = re.match(r"^((?:\S+ = )?)(.*)\) -> (\[.*\]|bb\d+|unwind .*)$", line)
        if not m or line.startswith(("switchInt", "assert(", "drop(", "goto", "return", "resume", "unreachable")):
            return line
        head, prefix, cont = m.groups()
        depth, i = 1, len(prefix) - 1
        in_str = False
        while i >= 0:
            ch = prefix[i]
            if ch == '"':
                in_str = not in_str
            elif not in_str:
                if ch == ")":
                    depth += 1
                elif ch == "(":
                    depth -= 1
                    if depth == 0:
                        break
            i -= 1
        if i <= 0:
            return line
        callee, args = prefix[:i], prefix[i + 1:]
        if "(" not in callee:
            return line
        callee = callee.replace("(", "\u27e8").replace(")", "\u27e9")
        return f"{head}{callee}({args}) -> {cont}"

    def term(self, st, line, depth):
        # `{async fn body of X::new()}` / unit types inside a callee path would end the callee at their `(`
        line = canon_state(line.rstrip(";"), self.state_locals).replace("()}", "}").replace("<(), ", "<Unit, ").replace("<()>", "<Unit>").replace(", ()>", ", Unit>")
        return super().term(st, self._sanitize_call(line), depth)

    def _block(self, st, bb, depth):
        if depth > 300:
            raise Unsupported("CFG too deep / cyclic")
        lines = self.fn.blocks[bb]
        try:
            for line in lines[:-1]:
                self.stmt(st, line)
        except _StopPath as sp:
            self.finish(st, sp.outcome)
            return
        self.term(st, lines[-1], depth)


class _StopPath(Exception):
    def __init__(self, outcome):
        self.outcome = outcome


class Contracts15:
    """callees of the encoded functions: interprocedural execution of the http-types kernels, stated glue
    contracts, opaque tokens for values the property part decided here does not depend on"""

    def __init__(self, http_mir, table):
        self.http_mir, self.table = http_mir, table
        self.used = set()
        self.opaque_calls = set()
        self._cache = {}

    def _http_fn(self, header_re, what):
        if header_re not in self._cache:
            self._cache[header_re] = one_fn(self.http_mir, header_re, what)
        return self._cache[header_re]

    def _inline(self, fn, args):
        sub = Exec15(fn, self, self.table)
        env = {p: a for (p, _), a in zip(fn.params, args)}
        alts = []
        for pc, outcome, notes in sub.run(State(env, [])):
            cond = "(and " + " ".join(pc) + ")" if pc else "true"
            alts.append((cond, outcome))
        return alts

    def call(self, ex, st, callee, args):
        c = re.sub(r"\s+", " ", callee)
        self.used.add(c)
        if re.fullmatch(r"<(?:[\w:]+::)?StatusCode as (?:std::convert::)?TryFrom<u16>>::try_from", c):
            return self._inline(self._http_fn(r"::try_from\(_1: u16\) -> std::result::Result<(?:status_code::)?StatusCode, error::Error>", "StatusCode::try_from"), args)
        m = re.fullmatch(r"(?:[\w:]+::)?StatusCode::(is_\w+)", c)
        if m:
            return self._inline(self._http_fn(r"status_code\.rs:\d+:\d+: \d+:\d+>::" + m.group(1) + r"\(_1: &(?:status_code::)?StatusCode\) -> bool", "StatusCode::" + m.group(1)), args)
        if re.search(r"result::unwrap_failed|option::expect_failed|option::unwrap_failed|panicking::panic", c):
            msg = args[0].text.strip('"') if args and args[0].kind == "opaque" else "panic"
            return [("true", Panic(msg))]
        if re.fullmatch(r"(?:[\w:]+::)?ResponseAsync::status", c):
            return [("true", vcenum("st"))]
        if re.search(r"as (?:std::future::)?IntoFuture>::into_future$", c):
            return [("true", args[0])]
        if re.search(r"Response(?:::)?<Vec<u8>>::new\} as (?:futures_util::|std::future::)?Future>::poll$", c):
            from .mir import venum
            fut = tok(args[0])
            return [("(= pollres 0)", venum("Poll", "Pending", [])),
                    ("(= pollres 1)", venum("Poll", "Ready", [venum("Result", "Ok", [vopaque("CLASSIFIED-OK[" + fut + "]")])])),
                    ("(= pollres 2)", venum("Poll", "Ready", [venum("Result", "Err", [vopaque("CLASSIFIED-ERR[" + fut + "]")])]))]
        if re.search(r"Result::<.*>::and_then::<", c):
            from .mir import venum
            r0 = args[0]
            if r0.kind == "enum" and r0.variant == "Err":
                return [("true", r0)]
            if r0.kind == "enum" and r0.variant == "Ok":
                return [("true", vopaque("decode(" + tok(r0.fields[0]) + ", " + tok(args[1]) + ")"))]
            raise Unsupported("and_then on a value that is not a concrete Result")
        # values the decided part does not depend on: opaque tokens that remember how they were made
        self.opaque_calls.add(c)
        return [("true", vopaque(c + "(" + ", ".join(tok(a) for a in args) + ")"))]


def tok(v):
    if v is None:
        return "?"
    if v.kind == "opaque":
        return v.text
    if v.kind == "ref":
        return "&" + tok(v.target)
    if v.kind in ("int", "bool", "cenum"):
        return v.term
    if v.kind == "agg":
        return (v.name or "") + "{" + ",".join(tok(f) for f in v.fields) + "}"
    if v.kind == "enum":
        return v.variant + "(" + ",".join(tok(f) for f in v.fields) + ")"
    return "?"


# ---------------------------------------------------------------- native side
def build_http_replay(prop):
    d = os.path.join(VERIF, "kani", "http_replay")
    lock = os.path.join(d, "Cargo.lock")
    if not os.path.exists(lock):
        shutil.copy(os.path.join(REPO, "Cargo.lock"), lock)
    tdir = os.path.join(TARGET, "http_replay")
    rc, out, wall, _ = run(["cargo", "build", "--offline", "--target-dir", tdir], cwd=d, env=env_offline({"RUSTUP_TOOLCHAIN": STABLE}),
                           timeout=1200, log=os.path.join(LOGS, prop, "build-http_replay.log"))
    binp = os.path.join(tdir, "debug", "http_replay")
    return rc == 0 and os.path.exists(binp), binp, out


def native_one(binp, n, body_len=1):
    p = subprocess.run([binp], input=f"{n} {body_len}\n", capture_output=True, text=True, timeout=120)
    return p.stdout.strip() or "?"


def spec_expect(n):
    if 100 <= n <= 399:
        return "success"
    if 400 <= n <= 599:
        return "http-error"
    return "no-panic"


def native_deviates(n, line, body_len=1):
    """does the real outcome differ from what the property demands for status n?"""
    e = spec_expect(n)
    if line.startswith("PANIC") or line.startswith("NOEVENT") or "BODYCHANGED" in line:
        return True
    if e == "success":
        return line != f"OK {n} {body_len}"
    if e == "http-error":
        return line != f"ERRHTTP {n} {body_len}"
    return False


# ---------------------------------------------------------------- main
def run_property(prop, cfg, tier, known, only=None):
    t0 = time.time()
    res = {"exit": EXIT_OK, "findings": [], "queries": 0, "decided": 0, "nontrivial": 0, "obligations": 0, "discharged": 0,
           "solver_s": 0.0, "samples": [], "notes": [], "assumptions": list(CONTRACT_TEXT), "validated_inputs": 0}
    os.makedirs(os.path.join(LOGS, prop), exist_ok=True)
    state = {"code": EXIT_OK}

    def inconclusive(msg):
        say("INCONCLUSIVE: " + msg)
        res["notes"].append(msg)
        if state["code"] == EXIT_OK:
            state["code"] = EXIT_INCONCLUSIVE

    ok, binp, out = build_http_replay(prop)
    if not ok:
        inconclusive("native driver does not build against /repo/crux_http: " + " | ".join(out.strip().splitlines()[-4:])[-400:])
        res["exit"] = state["code"]
        return res
    http_mir, err, s1 = dump(os.path.join(REPO, "crux_http"), PKG, "http_types", prop, PKG)
    crux_mir, err2, s2 = dump(os.path.join(REPO, "crux_http"), None, "crux_http", prop, "crux_http")
    if http_mir is None or crux_mir is None:
        inconclusive("MIR dump failed: " + (err or err2)[-400:])
        res["exit"] = state["code"]
        return res
    try:
        table, src = status_table(http_mir)
    except Unsupported as u:
        inconclusive(str(u))
        res["exit"] = state["code"]
        return res
    res["notes"].append(f"MIR dumps: http-types {s1:.0f}s ({http_mir.count(chr(10))} lines), crux_http {s2:.0f}s ({crux_mir.count(chr(10))} lines); "
                        f"StatusCode table: {len(table)} variants from {src}")
    codes = sorted(table.values())
    in_table = lambda t: "(or " + " ".join(f"(= {t} {c})" for c in codes) + ")"  # noqa: E731

    z3 = z3_solver(os.path.join(LOGS, prop, "z3.smt2"))
    cv = cvc5_solver(os.path.join(LOGS, prop, "cvc5.smt2"))
    for s in (z3, cv):
        s.send("(set-option :produce-models true)")
        s.send("(set-logic ALL)")
        s.send("(declare-const n Int)")
        s.send("(assert (and (>= n 0) (<= n 65535)))")
        s.send("(declare-const st Int)")
        s.send(f"(define-fun in_table ((x Int)) Bool {in_table('x')})")
        s.send("(assert (in_table st))")  # type invariant of a live StatusCode value
        s.send("(declare-const d Int)")
        s.send("(assert (and (>= d 0) (<= d 65535)))")

    def ask(assertion):
        """-> ('unsat'|'sat'|'other', model-or-None); both solvers, disagreement = other"""
        for s in (z3, cv):
            s.send("(push 1)")
            s.send(f"(assert {assertion})")
        a, b = z3.check(), cv.check()
        res["queries"] += 1
        model = None
        if a == "sat" or (b == "sat" and a != "unsat"):
            src_s = z3 if a == "sat" else cv
            model = parse_values(src_s.ask("(get-value (n st d))"))
        for s in (z3, cv):
            s.send("(pop 1)")
        if a == "unsat" and b in ("unsat", "unknown", "timeout") or (b == "unsat" and a in ("unknown", "timeout")):
            return "unsat", None, (a, b)
        if (a == "sat" and b != "unsat") or (b == "sat" and a != "unsat"):
            return "sat", model, (a, b)
        return "other", None, (a, b)

    contracts = Contracts15(http_mir, table)
    witnesses = set()

    def oblige(unit, name, pcs, goal, var, sample, spec_region=None):
        """obligation: (and pcs) => goal for every value; returns True if discharged (possibly after known regions)"""
        pc = "(and true " + " ".join(pcs) + ")"
        # vacuity twin
        r, _, ab = ask(pc)
        feasible = r == "sat"
        q = {"obligation": name, "path_feasible": r, "solvers_feasibility": ab}
        if r == "other":
            inconclusive(f"{unit} {name}: feasibility query answered {ab}")
        if feasible:
            witnesses.add(f"{unit}: {name}")
        excluded = []
        while True:
            res["obligations"] += 1
            r, model, ab = ask(f"(and {pc} (not {goal})" + "".join(f" (not {x})" for x in excluded) + ")")
            q["z3"], q["cvc5"] = ab
            q["excluded_known_regions"] = len(excluded)
            if r == "unsat":
                res["decided"] += 1
                res["discharged"] += 1
                sample["queries"].append(q)
                return True
            if r == "other":
                inconclusive(f"{unit} {name}: solver answered {ab}")
                sample["queries"].append(q)
                return False
            res["decided"] += 1
            if var == "shellerr":
                # obligations about a shell-reported error: the counterexample is the error kind, replayed natively
                bad = None
                for kind in ("io", "url", "timeout"):
                    p_ = subprocess.run([binp], input=f"E {kind}\n", capture_output=True, text=True, timeout=120)
                    ln = p_.stdout.strip()
                    got, _, sent = ln.partition(" | SENT ")
                    if got != "APPERR " + sent:
                        bad = (kind, ln)
                        break
                q["native"] = bad[1] if bad else "every shell error kind is passed through natively"
                sample["queries"].append(q)
                if not bad:
                    inconclusive(f"{unit} {name}: does not hold on the MIR but the real API passes every shell error through: encoder or contract is wrong")
                    return False
                os.makedirs(os.path.join(REPLAYS, prop), exist_ok=True)
                rp = os.path.join(REPLAYS, prop, f"{unit}-shell-error-{bad[0]}.json")
                json.dump({"property": prop, "engine": "mir", "module": "c15", "unit": unit, "shell_error": bad[0], "native": bad[1], "obligation": name}, open(rp, "w"), indent=1)
                say(f"VIOLATION property={prop} replay={rp}")
                say(f"  {unit}: {name}: the shell reported `{bad[0]}`; real code -> {bad[1]}")
                res["findings"].append({"known": False, "unit": unit, "desc": name, "replay": rp})
                state["code"] = EXIT_VIOLATION
                return False
            val = model.get(var)
            q["counterexample"] = {var: val}
            nline = native_one(binp, val) if var == "n" else None
            q["native"] = nline
            if var != "n":
                # kernels over st / d have no direct native entry point: find a status the whole path maps to it
                nline = native_one(binp, val) if 0 <= val <= 65535 else "?"
                q["native"] = nline
            dev = native_deviates(val, nline)
            if not dev:
                inconclusive(f"{unit} {name}: counterexample {q['counterexample']} does not reproduce natively (real outcome `{nline}` "
                             f"is what the property demands): encoder or contract is wrong")
                sample["queries"].append(q)
                return False
            os.makedirs(os.path.join(REPLAYS, prop), exist_ok=True)
            rp = os.path.join(REPLAYS, prop, f"{unit}-{re.sub(r'[^a-z0-9]+', '_', name.lower())[:40]}-{len(excluded)}.json")
            json.dump({"property": prop, "engine": "mir", "module": "c15", "unit": unit, "status": val, "expected": spec_expect(val),
                       "native": nline, "obligation": name}, open(rp, "w"), indent=1)
            q["replay_file"] = rp
            region = None
            if spec_region:
                rname, rterm = spec_region
                k = match_known(known, prop, unit, rname)
                if k:
                    inr, _, _ = ask(f"(and (= {var} {val}) {rterm})")
                    if inr == "sat" and rterm not in excluded:
                        region = (rname, rterm, k)
            if region:
                say(f"KNOWN-FINDING: property={prop} {region[2]['what']} [{unit}: status {val} -> {nline}]")
                res["findings"].append({"known": True, "unit": unit, "desc": region[0], "replay": rp})
                excluded.append(region[1])
                continue
            say(f"VIOLATION property={prop} replay={rp}")
            say(f"  {unit}: {name}: status {val}: the property demands {spec_expect(val)}, real code -> {nline}")
            res["findings"].append({"known": False, "unit": unit, "desc": name, "replay": rp})
            state["code"] = EXIT_VIOLATION
            sample["queries"].append(q)
            return False

    try:
        # ---- A: which codes the response model accepts, and that it carries them exactly
        unit = "status_try_from"
        sample = {"unit": unit, "what": "http-types StatusCode::try_from(u16): accepts exactly the table, carries the code unchanged", "queries": []}
        try:
            fnA = one_fn(http_mir, r"::try_from\(_1: u16\) -> std::result::Result<(?:status_code::)?StatusCode, error::Error>", "StatusCode::try_from")
            exA = Exec15(fnA, contracts, table)
            pathsA = exA.run(State({"_1": vint("n", "u16")}, []))
            sample.update({"mir_function": fnA.name[-60:], "paths": len(pathsA), "mir_steps": exA.steps})
            n_ok = 0
            for pc, outcome, notes in pathsA:
                if isinstance(outcome, Panic):
                    oblige(unit, "no panic in try_from", pc, "false", "n", sample)
                elif outcome.kind == "enum" and outcome.variant == "Ok":
                    n_ok += 1
                    t = outcome.fields[0]
                    oblige(unit, f"accepted code is carried unchanged ({t.term})", pc, f"(and (= {t.term} n) (in_table n))", "n", sample)
                elif outcome.kind == "enum" and outcome.variant == "Err":
                    oblige(unit, "only codes outside the table are rejected", pc, "(not (in_table n))", "n", sample)
                else:
                    raise Unsupported(f"unexpected outcome {tok(outcome)}")
            if n_ok != len(table):
                inconclusive(f"{unit}: {n_ok} accepting paths but {len(table)} variants in the source table")
        except (Unsupported, KeyError, IndexError, AttributeError, ValueError, TypeError) as u:
            inconclusive(f"{unit}: encoder gap: {type(u).__name__}: {u}")
        res["samples"].append(sample)
        say(f"  [{unit:>22}] paths={sample.get('paths')} obligations={len(sample['queries'])}")

        # ---- B: classification predicates
        for pred, lo, hi in (("is_client_error", 400, 500), ("is_server_error", 500, 600), ("is_success", 200, 300),
                             ("is_redirection", 300, 400), ("is_informational", 100, 200)):
            unit = "status_" + pred
            sample = {"unit": unit, "what": f"http-types StatusCode::{pred} <=> {lo} <= code < {hi}, for every discriminant", "queries": []}
            try:
                fnB = one_fn(http_mir, r"status_code\.rs:\d+:\d+: \d+:\d+>::" + pred + r"\(_1: &(?:status_code::)?StatusCode\) -> bool", pred)
                exB = Exec15(fnB, contracts, table)
                pathsB = exB.run(State({"_1": Val("ref", target=vcenum("d"))}, []))
                sample.update({"mir_function": fnB.name[-40:], "paths": len(pathsB), "mir_steps": exB.steps})
                for i, (pc, outcome, notes) in enumerate(pathsB):
                    if isinstance(outcome, Panic) or outcome.kind != "bool":
                        raise Unsupported(f"unexpected outcome {outcome}")
                    oblige(unit, f"path {i}: result <=> {lo} <= code < {hi}", pc, f"(= {outcome.term} (and (>= d {lo}) (< d {hi})))", "d", sample)
            except (Unsupported, KeyError, IndexError, AttributeError, ValueError, TypeError) as u:
                inconclusive(f"{unit}: encoder gap: {type(u).__name__}: {u}")
            res["samples"].append(sample)
            say(f"  [{unit:>22}] paths={sample.get('paths')} obligations={len(sample['queries'])}")

        # ---- C: From<HttpResponse> for ResponseAsync, up to acceptance of the status
        unit = "http_response_from"
        sample = {"unit": unit, "what": "crux_http From<HttpResponse> for ResponseAsync: the shell's status is handed to the response model unchanged; the conversion must not panic", "queries": []}
        try:
            fnC = one_fn(crux_mir, r"^fn protocol::<impl at crux_http/src/protocol\.rs:[\d: ]+>::from\(_1: HttpResponse\) -> ResponseAsync", "From<HttpResponse>")
            stop = r"= move \(\(_\d+ as Ok\)\.0: [\w:]*StatusCode\)$"
            exC = Exec15(fnC, contracts, table, stop_re=stop)
            inp = vagg([vint("n", "u16"), vopaque("HEADERS"), vopaque("BODY")], name="HttpResponse")
            pathsC = exC.run(State({"_1": inp}, []))
            sample.update({"mir_function": fnC.name, "paths": len(pathsC), "mir_steps": exC.steps})
            acc = 0
            for pc, outcome, notes in pathsC:
                if isinstance(outcome, Panic):
                    oblige(unit, f"no panic ({outcome.msg[:50]})", pc, "false", "n", sample,
                           spec_region=("status-outside-table", "(not (in_table n))"))
                elif isinstance(outcome, Stop):
                    acc += 1
                    t = outcome.value
                    if t is None or t.kind != "cenum":
                        raise Unsupported(f"accepted status is not a StatusCode value: {tok(t)}")
                    oblige(unit, f"accepted status equals the shell's status ({t.term})", pc, f"(= {t.term} n)", "n", sample)
                else:
                    raise Unsupported(f"path returned before the status was accepted: {tok(outcome)}")
            if acc == 0:
                inconclusive(f"{unit}: no accepting path (vacuous encoding?)")
        except (Unsupported, KeyError, IndexError, AttributeError, ValueError, TypeError) as u:
            inconclusive(f"{unit}: encoder gap: {type(u).__name__}: {u}")
        res["samples"].append(sample)
        say(f"  [{unit:>22}] paths={sample.get('paths')} obligations={len(sample['queries'])}")

        # ---- D: Response::new after its await: success vs HttpError::Http
        unit = "response_new_classify"
        sample = {"unit": unit, "what": "crux_http Response::new (continuation after body_bytes().await = Ok(body)): 1xx-3xx -> Ok carrying status and body, 4xx/5xx -> HttpError::Http carrying code and body", "queries": []}
        try:
            fnD = one_fn(crux_mir, r"^fn response::response::<impl at crux_http/src/response/response\.rs:[\d: ]+>::new::\{closure#0\}\(_1: Pin<&mut \{async fn body", "Response::new coroutine")
            # entry: the unique block that moves the Continue payload (the body) out of the Try::branch result
            entry = [bb for bb, lines in fnD.blocks.items() if any(re.search(r"= move \(\(_\d+ as Continue\)\.0: std::vec::Vec<u8>\)", l) for l in lines)]
            if len(entry) != 1:
                raise Unsupported(f"expected one continuation block after the await, found {entry}")
            first = fnD.blocks[entry[0]][0]
            src_local = re.search(r"move \(\((_\d+) as Continue\)", first).group(1)
            from .mir import venum
            env = {src_local: venum("ControlFlow", "Continue", [vopaque("BODY")])}
            for p, _ in fnD.params:
                env[p] = vopaque("coroutine-arg")
            for loc in re.findall(r"\(\*(_\d+)\)", "\n".join(sum(fnD.blocks.values(), []))):
                env.setdefault(loc, vopaque("coroutine-state"))
            exD = Exec15(fnD, contracts, table)
            pathsD = exD.run_from(State(env, []), entry[0])
            sample.update({"mir_function": "Response::<Body>::new::{closure#0}", "entry_block": entry[0], "paths": len(pathsD), "mir_steps": exD.steps})
            kinds = set()
            for pc, outcome, notes in pathsD:
                if isinstance(outcome, Panic):
                    oblige(unit, f"no panic ({outcome.msg[:40]})", pc, "false", "st", sample)
                    continue
                if not (outcome.kind == "enum" and outcome.variant == "Ready" and outcome.fields and outcome.fields[0].kind == "enum"):
                    raise Unsupported(f"unexpected outcome {tok(outcome)}")
                r = outcome.fields[0]
                payload = r.fields[0]
                if r.variant == "Err":
                    kinds.add("err")
                    if not (payload.kind == "agg" and "HttpError::Http" in (payload.name or "") and len(payload.fields) == 3):
                        raise Unsupported(f"error outcome is not HttpError::Http: {tok(payload)}")
                    code, _msg, body = payload.fields
                    body_ok = body.kind == "enum" and body.variant == "Some" and tok(body.fields[0]) == "BODY"
                    code_eq = f"(= {code.term} st)" if code.kind in ("int", "cenum") else "false"
                    oblige(unit, "HttpError::Http only for 4xx/5xx, carrying the status", pc,
                           f"(and (>= st 400) (<= st 599) {code_eq} {'true' if body_ok else 'false'})", "st", sample)
                else:
                    kinds.add("ok")
                    if not (payload.kind == "agg" and "Response" in (payload.name or "") and len(payload.fields) == 4):
                        raise Unsupported(f"success outcome is not a Response: {tok(payload)}")
                    _version, status, headers, body = payload.fields
                    body_ok = body.kind == "enum" and body.variant == "Some" and tok(body.fields[0]) == "BODY"
                    hdr_ok = "Clone>::clone" in tok(headers) and "as_ref" in tok(headers)
                    sample["headers_dataflow"] = tok(headers)[:160]
                    status_eq = f"(= {status.term} st)" if status.kind in ("int", "cenum") else "false"
                    oblige(unit, "success only for 1xx-3xx, carrying the status, the body and a clone of the response's headers", pc,
                           f"(and (>= st 100) (<= st 399) {status_eq} {'true' if body_ok and hdr_ok else 'false'})", "st", sample)
            if kinds != {"ok", "err"}:
                inconclusive(f"{unit}: expected a success path and an error path, found {sorted(kinds)}")
            # the table lies inside 100..=599, so the two classes cover every representable status
            oblige(unit, "every representable status is 1xx-5xx", [], "(and (>= st 100) (<= st 599))", "st", sample)
        except (Unsupported, KeyError, IndexError, AttributeError, ValueError, TypeError) as u:
            inconclusive(f"{unit}: encoder gap: {type(u).__name__}: {u}")
        res["samples"].append(sample)
        say(f"  [{unit:>22}] paths={sample.get('paths')} obligations={len(sample['queries'])}")

        # ---- E: the command API's builder future, from the shell's answer to the value handed to the app
        unit = "command_send_result"
        sample = {"unit": unit, "what": "crux_http command API (RequestBuilder::build's async block, entered where the shell's HttpResult arrives): a shell error is handed to the app unchanged and nothing else happens; an Ok response goes through From<HttpResponse> and Response::new exactly once, an HttpError::Http from the classification is handed on unchanged, a success goes to the body expectation's decode", "queries": []}
        try:
            fnE = one_fn(crux_mir, r"^fn command::<impl at crux_http/src/command\.rs:[\d: ]+>::build::\{closure#0\}::\{closure#0\}\(_1: Pin<&mut \{async block", "RequestBuilder::build async block")
            entry = [bb for bb, lines in fnE.blocks.items() if any(re.search(r"= move \(\((_\d+) as Ready\)\.0: protocol::HttpResult\)", l) for l in lines)]
            if len(entry) != 1:
                raise Unsupported(f"expected one block receiving the shell's HttpResult, found {entry}")
            src_local = re.search(r"move \(\((_\d+) as Ready\)", "\n".join(fnE.blocks[entry[0]])).group(1)
            from .mir import venum
            for s_ in (z3, cv):
                s_.send("(declare-const pollres Int)")
                s_.send("(assert (and (>= pollres 0) (<= pollres 2)))")
            for shell, payload in (("Err", "SHELLERR"), ("Ok", "SHELLRESP")):
                env = {src_local: venum("Poll", "Ready", [venum("HttpResult", shell, [vopaque(payload)])])}
                for p_, _ in fnE.params:
                    env[p_] = vopaque("coroutine-arg")
                text = "\n".join(sum(fnE.blocks.values(), []))
                for loc in set(re.findall(r"\(\*(_\d+)\)", text)):
                    env.setdefault(loc, vopaque("coroutine-state"))
                # fields of the saved state that are read before being written on these paths (captured values)
                for m_ in set(re.findall(r"\(\(\*(_\d+)\)\.(\d+): ", text)):
                    env.setdefault(f"_8{int(m_[0][1:]):03d}{int(m_[1]):02d}", vopaque(f"captured{m_[1]}"))
                contractsE = Contracts15(http_mir, table)
                exE = Exec15(fnE, contractsE, table)
                pathsE = exE.run_from(State(env, []), entry[0])
                sample.setdefault("paths", 0)
                sample["paths"] += len(pathsE)
                sample["mir_steps"] = sample.get("mir_steps", 0) + exE.steps
                called = " ".join(sorted(contractsE.used))
                for pc, outcome, notes in pathsE:
                    if isinstance(outcome, Panic):
                        oblige(unit, f"shell {shell}: no panic ({outcome.msg[:40]})", pc, "false", "shellerr" if shell == "Err" else "st", sample)
                        continue
                    t = tok(outcome)
                    if shell == "Err":
                        good = t == "Ready(Err(SHELLERR))" and "Into<ResponseAsync>" not in called and "Response::<Vec<u8>>::new" not in called
                        oblige(unit, "a shell error reaches the app unchanged, nothing else is done", pc, "true" if good else "false", "shellerr", sample)
                        sample["shell_error_outcome"] = t[:120]
                    else:
                        fut = "new(<HttpResponse as Into<ResponseAsync>>::into(SHELLRESP))"
                        want = {0: "Pending()", 1: None, 2: "Ready(Err(CLASSIFIED-ERR["}
                        if t.startswith("Pending"):
                            g = "(= pollres 0)"
                        elif t.startswith("Ready(Err(CLASSIFIED-ERR[") and "Into<ResponseAsync>>::into(SHELLRESP)" in t:
                            g = "(= pollres 2)"
                        elif t.startswith("Ready(decode(CLASSIFIED-OK[") and "Into<ResponseAsync>>::into(SHELLRESP)" in t:
                            g = "(= pollres 1)"
                        else:
                            g = "false"
                        oblige(unit, f"shell Ok: the classified outcome is handed on [{t[:36]}]", pc, g, "st", sample)
            sample["mir_function"] = fnE.name[-60:]
        except (Unsupported, KeyError, IndexError, AttributeError, ValueError, TypeError) as u:
            inconclusive(f"{unit}: encoder gap: {type(u).__name__}: {u}")
        res["samples"].append(sample)
        say(f"  [{unit:>22}] paths={sample.get('paths')} obligations={len(sample['queries'])}")

        # ---- string bodies: decode_body hands every body to the charset's decoder and passes its verdict on
        unit = "decode_body"
        sample = {"unit": unit, "what": "crux_http::response::decode::decode_body (native `encoding` build, non-inlined MIR): label lookup, one decoder call, its verdict passed on", "queries": []}
        decode_failed = []
        try:
            from .c04m import ExecC
            from .c16m import dump_http_light
            from .mir import venum
            light, errL, _ = dump_http_light(prop)
            if light is None:
                raise Unsupported("non-inlined MIR dump of crux_http failed: " + errL[-200:])
            fnD = one_fn(light, r"^fn (?:response::decode::)?decode_body\(_1: Vec<u8>, _2: (?:std::option::)?Option<&str>\)", "decode_body")
            for s_ in (z3, cv):
                for v_ in ("known", "cow"):
                    s_.send(f"(declare-const {v_} Int)")
                    s_.send(f"(assert (and (>= {v_} 0) (<= {v_} 1)))")
                s_.send("(declare-const failed Bool)")

            class ContractsD:
                def __init__(self):
                    self.fresh = []

                def call(self, ex, st, callee, args):
                    c = re.sub(r"\s+", " ", callee)
                    if re.search(r"Option::<&str>::unwrap_or$", c):
                        return [("true", vopaque("LABEL"))]
                    if re.search(r"str>::as_bytes$|<impl str>::as_bytes$", c):
                        return [("true", args[0])]
                    if re.search(r"Encoding::for_label(_no_replacement)?$", c):
                        st.notes.append(("call", "for_label", tok(args[0])))
                        return [("(= known 0)", venum("Option", "None", [])), ("(= known 1)", venum("Option", "Some", [vopaque("ENC")]))]
                    if re.search(r"^<Vec<u8> as Deref>::deref$", c):
                        return [("true", vopaque("BYTES[..]"))]
                    if re.search(r"Encoding::decode(_with_bom_removal|_without_bom_handling)?$", c):
                        st.notes.append(("call", "decode", tok(args[0]), tok(args[1])))
                        return [("(= cow 0)", vagg([venum("Cow", "Borrowed", [vopaque("BORROWED")]), vopaque("ENC-USED"), vbool("failed")])),
                                ("(= cow 1)", vagg([venum("Cow", "Owned", [vopaque("DECODED")]), vopaque("ENC-USED"), vbool("failed")]))]
                    if re.search(r"String::from_utf8_unchecked$", c):
                        return [("true", vopaque("STRING-OF(" + tok(args[0]) + ")"))]
                    if re.search(r"String::from_utf8(_lossy)?$", c):
                        st.notes.append(("call", "other-decoder", c))
                    if getattr(ex, "cur_dest_ty", None) == "bool":
                        name_ = f"db{len(self.fresh)}"
                        self.fresh.append(name_)
                        for s_ in (z3, cv):
                            s_.send(f"(declare-const {name_} Bool)")
                        st.notes.append(("call", "test", c[-60:]))
                        return [("true", vbool(name_))]
                    return [("true", vopaque(c.split("::")[-1] + "(" + ", ".join(tok(a) for a in args) + ")"))]

            exD = ExecC(fnD, ContractsD(), None)
            pathsD = exD.run_from(State({"_1": vopaque("BYTES"), "_2": vopaque("LABELOPT")}, []), "bb0")
            sample.update({"mir_function": fnD.name, "paths": len(pathsD), "mir_steps": exD.steps})
            for i, (pc, outcome, notes) in enumerate(pathsD):
                cs = [n_[1:] for n_ in notes if n_[0] == "call"]
                decs = [c_ for c_ in cs if c_[0] == "decode"]
                pcs = "(and true " + " ".join(pc) + ")"
                rF, _, abF = ask(pcs)
                if isinstance(outcome, Panic):
                    goal, t = "false", "PANIC " + outcome.msg
                else:
                    t = tok(outcome)
                    one_dec = len(decs) == 1 and decs[0][1] == "ENC" and "BYTES" in decs[0][2]
                    is_err = t.startswith("Err(")
                    ok_borrowed = t.startswith("Ok(STRING-OF(") and "BYTES" in t
                    ok_owned = t == "Ok(DECODED)"
                    goal = (f"(and (=> (= known 0) {'true' if is_err and not decs else 'false'}) "
                            f"(=> (= known 1) (and {'true' if one_dec else 'false'} (=> failed {'true' if is_err else 'false'}) "
                            f"(=> (and (not failed) (= cow 0)) {'true' if ok_borrowed else 'false'}) (=> (and (not failed) (= cow 1)) {'true' if ok_owned else 'false'}))))")
                name_ = f"path {i}: an unknown label is an error; a known label's decoder is asked exactly once about the whole body and its verdict is the outcome (failed => error, borrowed => the bytes themselves, owned => its string)"
                res["obligations"] += 1
                r2, _, ab2 = ask(f"(and {pcs} (not {goal}))")
                sample["queries"].append({"obligation": name_, "path_feasible": rF, "calls": [c_[0] for c_ in cs], "outcome": t[:50], "z3": ab2[0], "cvc5": ab2[1]})
                if rF == "sat" and r2 == "unsat":
                    witnesses.add(f"{unit}: {[c_[0] for c_ in cs]} -> {t[:24]}")
                if r2 == "unsat" or (r2 == "sat" and rF == "unsat"):
                    res["decided"] += 1
                    res["discharged"] += 1
                elif r2 == "sat":
                    res["decided"] += 1
                    decode_failed.append(f"{unit}: {name_} (calls {[c_[0] for c_ in cs]}, outcome {t[:40]})")
                else:
                    inconclusive(f"{unit}: solver answered {ab2}")
        except (Unsupported, KeyError, IndexError, AttributeError, ValueError, TypeError) as u:
            decode_failed.append(f"{unit}: not in the shape the encoding knows ({type(u).__name__}: {str(u)[:120]})")
            sample["encoder_gap"] = f"{type(u).__name__}: {u}"
        res["samples"].append(sample)
        say(f"  [{unit:>22}] paths={sample.get('paths')} obligations={len(sample['queries'])}")
        dec_cases = [("utf-8", "6869", "STR 6869"), ("utf-8", "ff", "ERR"), ("utf-16le", "68006900", "STR 6869"), ("utf-16be", "00680069", "STR 6869"), ("utf-16", "68006900", "STR 6869"),
                     ("utf-16le", "680069", "ERR"), ("iso-2022-jp", "1b2442243b1b2842", "STR e3819b"), ("iso-2022-jp", "6869", "STR 6869"), ("windows-1252", "e9", "STR c3a9"),
                     ("iso-8859-1", "e9", "STR c3a9"), ("shift_jis", "82a0", "STR e38182"), ("hz-gb-2312", "6869", "ERR"), ("iso-2022-kr", "6869", "ERR"), ("no-such-charset", "6869", "ERR"),
                     ("-", "6869", "STR 6869"), ("-", "c3a9", "STR c3a9"), ("-", "ff", "ERR"), ("utf-8", "", "STR ")]
        pD = subprocess.run([binp], input="".join(f"D {l_} {h_}\n" for l_, h_, _ in dec_cases), capture_output=True, text=True, timeout=300)
        gotD = pD.stdout.strip("\n").split("\n")
        devD = [(c_, g_) for c_, g_ in zip(dec_cases, gotD) if g_.strip() != c_[2].strip()] if len(gotD) == len(dec_cases) else [(("?", "?", "?"), f"driver printed {len(gotD)} lines")]
        res["validated_inputs"] = res.get("validated_inputs", 0) + len(dec_cases)
        res["notes"].append(f"native decode scenarios (charset label x body through expect_string): {len(dec_cases)}, deviations: {len(devD)}")
        if decode_failed and devD:
            os.makedirs(os.path.join(REPLAYS, prop), exist_ok=True)
            (l_, h_, e_), g_ = devD[0]
            rp = os.path.join(REPLAYS, prop, f"decode_body-{re.sub(r'[^a-z0-9]+', '_', l_)}-{h_[:16]}.json")
            json.dump({"property": prop, "engine": "mir", "module": "c15", "unit": unit, "decode": [l_, h_], "expected": e_, "native": g_, "obligation": decode_failed[0]}, open(rp, "w"), indent=1)
            say(f"VIOLATION property={prop} replay={rp}")
            say(f"  {decode_failed[0][:260]}; charset `{l_}` body {h_}: a conforming decoder yields `{e_}`, real code -> `{g_}`")
            res["findings"].append({"known": False, "unit": unit, "desc": decode_failed[0][:120], "replay": rp})
            state["code"] = EXIT_VIOLATION
        elif decode_failed:
            inconclusive(f"{decode_failed[0][:220]} - but none of the {len(dec_cases)} native decode scenarios deviates")
        elif devD and state["code"] == EXIT_OK:
            inconclusive(f"decode scenario {devD[0][0][:2]} deviates natively (`{devD[0][1]}` vs `{devD[0][0][2]}`) although every obligation was discharged")

        # ---- body expectations (vlib/c15x.py): bytes / string / json decode, body_string, body_json, with_body
        try:
            from . import c15x
            sampleX, failedX, devX = c15x.run_unit(light, z3, cv, ask, res, witnesses, inconclusive, binp)
        except Exception as u:  # noqa: a crash of the unit is an encoder gap, never a verdict
            sampleX, failedX, devX = {"unit": "body_expectations", "queries": [], "encoder_gap": f"{type(u).__name__}: {u}"}, [f"body_expectations: not in the shape the encoding knows ({type(u).__name__}: {str(u)[:120]})"], []
            try:
                devX = c15x.native_only(binp)
            except Exception:
                pass
        res["samples"].append(sampleX)
        res["validated_inputs"] = res.get("validated_inputs", 0) + len(c15x.CASES)
        res["notes"].append(f"native body-expectation scenarios (kind x status x body through the command API): {len(c15x.CASES)}, deviations: {len(devX)}")
        say(f"  [{'body_expectations':>22}] obligations={len(sampleX['queries'])}")
        if failedX and devX:
            os.makedirs(os.path.join(REPLAYS, prop), exist_ok=True)
            (k_, st_, h_, e_), g_ = devX[0]
            rp = os.path.join(REPLAYS, prop, f"body_expectations-{k_}-{st_}-{h_[:16]}.json")
            json.dump({"property": prop, "engine": "mir", "module": "c15", "unit": "body_expectations", "expect": [k_, st_, h_], "expected": e_, "native": g_, "obligation": failedX[0]}, open(rp, "w"), indent=1)
            say(f"VIOLATION property={prop} replay={rp}")
            say(f"  {failedX[0][:260]}; expectation `{k_}` on a {st_} response with body {h_}: the property demands `{e_}`, real code -> `{g_}`")
            res["findings"].append({"known": False, "unit": "body_expectations", "desc": failedX[0][:120], "replay": rp})
            state["code"] = EXIT_VIOLATION
        elif failedX:
            inconclusive(f"{failedX[0][:220]} - but none of the {len(c15x.CASES)} native body-expectation scenarios deviates")
        elif devX and state["code"] == EXIT_OK:
            inconclusive(f"body-expectation scenario {devX[0][0][:3]} deviates natively (`{devX[0][1]}` vs `{devX[0][0][3]}`) although every obligation was discharged")

        # ---- translator / contract validation: every status through the real code vs the encoding's prediction
        tv0 = time.time()
        p = subprocess.run([binp, "all"], capture_output=True, text=True, timeout=600)
        mism = []
        lines = p.stdout.strip().split("\n")
        tset = set(codes)
        for ln in lines:
            parts = ln.split(" ", 1)
            k, real = int(parts[0]), parts[1]
            pred = "PANIC" if k not in tset else (f"OK {k} 1" if k < 400 else f"ERRHTTP {k} 1")
            if real != pred:
                mism.append({"status": k, "real": real, "encoding": pred})
        res["validated_inputs"] = res.get("validated_inputs", 0) + len(lines)
        res["notes"].append(f"translator/contract validation: {len(lines)} statuses through the real response path (command API) vs the encoding: "
                            f"{len(mism)} mismatches ({time.time() - tv0:.0f}s)")
        if len(lines) != 65536:
            inconclusive(f"native validation produced {len(lines)} lines instead of 65536")
        if mism and state["code"] == EXIT_OK:
            inconclusive(f"encoding and real code disagree on {len(mism)} statuses, e.g. {mism[0]}")
        # body lengths 0, 2, 300 on a few statuses (glue contract 2)
        for k in (200, 404, 301, 503):
            for bl in (0, 2, 300):
                ln = native_one(binp, k, bl)
                res["validated_inputs"] += 1
                if native_deviates(k, ln, bl) and state["code"] == EXIT_OK:
                    inconclusive(f"body glue contract: status {k} body length {bl}: real outcome `{ln}`")
    finally:
        errs = z3.errors + cv.errors
        res["solver_s"] = z3.time + cv.time
        z3.close()
        cv.close()
    if errs:
        inconclusive("solver error output: " + errs[0][:200])
    res["assumptions"].append("callees left uninterpreted (opaque tokens): " + "; ".join(sorted(contracts.opaque_calls)))
    res["notes"].append("callees executed or answered by contract: " + "; ".join(sorted(contracts.used - contracts.opaque_calls)))
    res["nontrivial"] = len(witnesses)
    res["witnesses"] = sorted(witnesses)
    res["exit"] = state["code"]
    res["wall"] = time.time() - t0
    return res


def replay_file(path):
    rec = json.load(open(path))
    ok, binp, out = build_http_replay(rec["property"])
    if not ok:
        say("native driver does not build")
        return EXIT_INCONCLUSIVE
    if "expect" in rec:
        k_, st_, h_ = rec["expect"]
        p_ = subprocess.run([binp], input=f"X {k_} {st_} {h_}\n", capture_output=True, text=True, timeout=120)
        got = p_.stdout.strip()
        good = got.startswith("ERR") if rec["expected"] == "ERR*" else got == rec["expected"].strip()
        say(f"expectation `{k_}` on a {st_} response with body {h_}: the property demands `{rec['expected']}`; real code now: `{got}`")
        return EXIT_OK if good else EXIT_VIOLATION
    if "decode" in rec:
        l_, h_ = rec["decode"]
        p_ = subprocess.run([binp], input=f"D {l_} {h_}\n", capture_output=True, text=True, timeout=120)
        got = p_.stdout.strip()
        say(f"charset `{l_}` body {h_}: a conforming decoder yields `{rec['expected']}`; real code now: `{got}`")
        return EXIT_VIOLATION if got != rec["expected"].strip() else EXIT_OK
    if "shell_error" in rec:
        p_ = subprocess.run([binp], input=f"E {rec['shell_error']}\n", capture_output=True, text=True, timeout=120)
        got, _, sent = p_.stdout.strip().partition(" | SENT ")
        say(f"shell error `{rec['shell_error']}`: the app must receive {sent}; real code now: {got}")
        return EXIT_VIOLATION if got != "APPERR " + sent else EXIT_OK
    ln = native_one(binp, rec["status"])
    say(f"status {rec['status']}: the property demands {rec['expected']}; real code now: {ln}   (recorded: {rec['native']})")
    return EXIT_VIOLATION if native_deviates(rec["status"], ln) else EXIT_OK
