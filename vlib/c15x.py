"""C15, body expectations on engine M (called from c15.run_property): ExpectBytes / ExpectString / ExpectJson ::decode,
Response::body_string, Response::body_json, Response::with_body and the two charset closures - non-inlined MIR of
/repo/crux_http, callees as opaque tokens, the fallible callees answering Ok / Err symbolically.  Decided per path:
  * bytes: the response is handed on untouched;
  * string / json: the body decoder's Ok value becomes the body of the SAME response (with_body keeps version, status and
    headers), its error becomes the error outcome and no response is produced;
  * body_string: the body bytes are taken once; the charset label is `content_type().param("charset")` as a string; decode_body
    is asked exactly once about exactly those bytes with exactly that label and its verdict is the outcome;
  * body_json: the body bytes are taken once and handed to serde_json::from_slice, whose verdict is the outcome.
"""
import re
import subprocess

from .c04m import ContractsC, ExecC, calls_of
from .c15 import one_fn, tok
from .mir import Panic, State, Unsupported, Val, vagg, vbool, venum, vopaque

CASES = [("bytes", 200, "5b312c325d", "bytes status=200 keep=kept body=5b312c325d"), ("string", 200, "5b312c325d", "string status=200 keep=kept body=5b312c325d"),
         ("json", 200, "5b312c325d", "json status=200 keep=kept body=[1, 2]"), ("json", 200, "5b312c", "ERR*"), ("json", 201, "5b5d", "json status=201 keep=kept body=[]"),
         ("string", 200, "ff", "ERR*"), ("json", 404, "5b315d", "ERR Http 404 5b315d"), ("string", 503, "6f6f", "ERR Http 503 6f6f"), ("bytes", 302, "", "bytes status=302 keep=kept body="),
         ("json", 200, "", "ERR*"), ("string", 203, "c3a9", "string status=203 keep=kept body=c3a9"), ("json", 200, "5b34323934393637323935 5d".replace(" ", ""), "json status=200 keep=kept body=[4294967295]"),
         ("json", 200, "5b343239343936373239365d", "ERR*")]


class ContractsX(ContractsC):
    def call(self, ex, st, callee, args):
        c = re.sub(r"\s+", " ", callee)

        def note(*a):
            st.notes.append(("call",) + a)

        def two(name, okv, errv, var):
            note(name, *[tok(a) for a in args])
            return [(f"(= {var} 1)", venum("Result", "Ok", [vopaque(okv)])), (f"(= {var} 0)", venum("Result", "Err", [vopaque(errv)]))]

        if re.search(r"Response::<Vec<u8>>::body_string$", c):
            return two("body_string", "STRING", "SERR", "xs")
        if re.search(r"Response::<Vec<u8>>::body_json::<", c):
            return two("body_json", "VALUE", "JERR", "xs")
        if re.search(r"Response::<Vec<u8>>::body_bytes$", c):
            return two("body_bytes", "BYTES", "BERR", "xb")
        if re.search(r"^(response::decode::)?decode_body$", c):
            return two("decode_body", "DECODED", "DERR", "xd")
        if re.search(r"as Try>::branch$", c) and args[0].kind == "enum":
            a = args[0]
            return [("true", venum("ControlFlow", "Continue", [a.fields[0]]) if a.variant == "Ok" else venum("ControlFlow", "Break", [venum("Result", "Err", [a.fields[0]])]))]
        if re.search(r"as FromResidual<.*>>::from_residual$", c):
            a = args[0]
            return [("true", venum("Result", "Err", [vopaque("from(" + tok(a.fields[0] if a.kind == "enum" and a.fields else a) + ")")]))]
        if re.search(r"Response::<Vec<u8>>::with_body::<", c):
            note("with_body", tok(args[0]), tok(args[1]))
            return [("true", vopaque("WITH_BODY(" + tok(args[0]) + "," + tok(args[1]) + ")"))]
        note("other", c)
        short = "x::map_err" if re.search(r"^(std::result::)?Result::<[^\n]*?>::map_err::<", c) else c
        while re.search(r"<[^<>]*>", short):
            short = re.sub(r"<[^<>]*>", "", short)
        short = [x for x in short.split("::") if x.strip()][-1].strip()
        return [("true", vopaque(short + "(" + ", ".join(tok(a) for a in args) + ")"))]


def native_only(binp):
    p = subprocess.run([binp], input="".join(f"X {k} {s} {h}\n" for k, s, h, _ in CASES), capture_output=True, text=True, timeout=300)
    got = p.stdout.strip("\n").split("\n")
    if len(got) != len(CASES):
        return [(("?", 0, "", "?"), f"driver printed {len(got)} lines")]
    return [(c, g) for c, g in zip(CASES, got) if not (g.startswith("ERR") if c[3] == "ERR*" else g.strip() == c[3].strip())]


def run_unit(light, z3, cv, ask, res, witnesses, inconclusive, binp):
    """returns (sample, failed list, native deviations)"""
    unit = "body_expectations"
    sample = {"unit": unit, "what": "ExpectBytes/ExpectString/ExpectJson::decode, Response::{body_string, body_json, with_body} and the charset closures", "queries": []}
    failed = []
    for s_ in (z3, cv):
        for v_ in ("xs", "xb", "xd"):
            s_.send(f"(declare-const {v_} Int)")
            s_.send(f"(assert (and (>= {v_} 0) (<= {v_} 1)))")

    def oblige(name, pc, goal, extra):
        pcs = "(and true " + " ".join(pc) + ")"
        r, _, ab = ask(pcs)
        res["obligations"] += 1
        r2, _, ab2 = ask(f"(and {pcs} (not {goal}))")
        q = {"obligation": name, "path_feasible": r, "z3": ab2[0], "cvc5": ab2[1]}
        q.update(extra)
        sample["queries"].append(q)
        if r == "sat" and r2 == "unsat":
            witnesses.add(f"{unit}: {name[:70]} {extra.get('outcome', '')[:20]}")
        if r2 == "unsat" or (r2 == "sat" and r == "unsat"):
            res["decided"] += 1
            res["discharged"] += 1
        elif r2 == "sat":
            res["decided"] += 1
            failed.append(f"{unit}: {name} (outcome {extra.get('outcome', '')[:40]})")
        else:
            inconclusive(f"{unit}: solver answered {ab2}")

    try:
        EXP = r"^fn expect::<impl at crux_http/src/expect\.rs:[\d: ]+>::decode\(_1: &"
        RSP = r"^fn response::response::<impl at crux_http/src/response/response\.rs:[\d: ]+>::"
        # bytes
        fn = one_fn(light, EXP + r"ExpectBytes, ", "ExpectBytes::decode")
        for pc, outcome, notes in ExecC(fn, ContractsX(), None).run_from(State({"_1": vopaque("SELF"), "_2": vopaque("RESP")}, []), "bb0"):
            t = "PANIC" if isinstance(outcome, Panic) else tok(outcome)
            oblige("bytes: the response is handed on untouched", pc, "true" if t == "Ok(RESP)" and not calls_of(notes) else "false", {"outcome": t[:60]})
        # string / json
        for kind, pat, dec, okv, errv in (("string", r"ExpectString, ", "body_string", "STRING", "SERR"), ("json", r"ExpectJson<T>, ", "body_json", "VALUE", "JERR")):
            fn = one_fn(light, EXP + pat, f"Expect{kind}::decode")
            for pc, outcome, notes in ExecC(fn, ContractsX(), None).run_from(State({"_1": vopaque("SELF"), "_2": vopaque("RESP")}, []), "bb0"):
                cs = calls_of(notes)
                t = "PANIC" if isinstance(outcome, Panic) else tok(outcome)
                decs = [c for c in cs if c[0] == dec]
                withs = [c for c in cs if c[0] == "with_body"]
                others = [c for c in cs if c[0] not in (dec, "with_body")]
                ok_ok = len(decs) == 1 and "RESP" in decs[0][1] and len(withs) == 1 and withs[0][1] == "RESP" and withs[0][2] == okv and t == f"Ok(WITH_BODY(RESP,{okv}))" and not others
                err_ok = len(decs) == 1 and not withs and t == f"Err(from({errv}))" and not others
                oblige(f"{kind}: the decoder's value becomes the body of the same response; its error is the error outcome and no response is produced", pc,
                       f"(and (=> (= xs 1) {'true' if ok_ok else 'false'}) (=> (= xs 0) {'true' if err_ok else 'false'}))", {"outcome": t[:60], "calls": [c[0] for c in cs]})
        # with_body keeps version, status and headers
        fn = one_fn(light, RSP + r"with_body\(_1: response::response::Response<Body>, _2: NewBody\)", "Response::with_body")
        src = vagg([vopaque("VERSION"), vopaque("STATUS"), vopaque("HEADERS"), venum("Option", "Some", [vopaque("OLDBODY")])], name="Response")
        for pc, outcome, notes in ExecC(fn, ContractsX(), None).run_from(State({"_1": src, "_2": vopaque("NEW")}, []), "bb0"):
            t = "PANIC" if isinstance(outcome, Panic) else tok(outcome)
            good = re.fullmatch(r"(?:[\w:]+::)?Response(?:::<NewBody>)?\{VERSION,STATUS,HEADERS,Some\(NEW\)\}", t) is not None
            oblige("with_body: version, status and headers are the original's, the body is the new value", pc, "true" if good else "false", {"outcome": t[:80]})
        # body_string
        fn = one_fn(light, RSP + r"body_string\(_1: &mut response::response::Response<Vec<u8>>\)", "Response::body_string")
        for pc, outcome, notes in ExecC(fn, ContractsX(), None).run_from(State({"_1": vopaque("RESP"), "_2": vopaque("X")}, []), "bb0"):
            cs = calls_of(notes)
            t = "PANIC" if isinstance(outcome, Panic) else tok(outcome)
            bb = [c for c in cs if c[0] == "body_bytes"]
            dd = [c for c in cs if c[0] == "decode_body"]
            label_ok = bool(dd) and "BYTES" in dd[0][1] and re.search(r"as_deref\(&?map\(and_then\(as_ref\(&?content_type\(&?RESP\)\), ?[^)]*\), ?[^)]*\)\)", dd[0][2]) is not None
            goal = (f"(and {'true' if len(bb) == 1 else 'false'} (=> (= xb 0) {'true' if not dd and t == 'Err(from(BERR))' else 'false'}) "
                    f"(=> (= xb 1) (and {'true' if len(dd) == 1 and label_ok else 'false'} (=> (= xd 1) {'true' if t == 'Ok(DECODED)' else 'false'}) (=> (= xd 0) {'true' if t == 'Err(from(DERR))' else 'false'}))))")
            oblige("body_string: the bytes are taken once; decode_body is asked once about exactly those bytes with the content type's charset parameter; its verdict is the outcome", pc, goal,
                   {"outcome": t[:40], "calls": [c[0] for c in cs if c[0] != "other"], "label": dd[0][2][:160] if dd else ""})
        # the two closures that pick the charset
        body = one_fn(light, RSP + r"body_string::\{closure#0\}\(", "charset closure 0")
        txt0 = "\n".join(sum(body.blocks.values(), []))
        body1 = one_fn(light, RSP + r"body_string::\{closure#1\}\(", "charset closure 1")
        txt1 = "\n".join(sum(body1.blocks.values(), []))
        c0 = re.search(r"Mime::param::<&str>\(copy _\d+, const \"charset\"\)|Mime::param::<[^>]*>\([^)]*const \"charset\"", txt0) is not None
        c1 = re.search(r"as ToString>::to_string\(", txt1) is not None and len(re.findall(r" -> \[return", txt1)) == 1
        oblige("the charset label is the content type's `charset` parameter, as a string, unchanged", [], "true" if c0 and c1 else "false", {"outcome": f"param(charset)={c0} to_string-only={c1}"})
        # body_json
        fn = one_fn(light, RSP + r"body_json\(_1: &mut response::response::Response<Vec<u8>>\)", "Response::body_json")
        for pc, outcome, notes in ExecC(fn, ContractsX(), None).run_from(State({"_1": vopaque("RESP")}, []), "bb0"):
            cs = calls_of(notes)
            t = "PANIC" if isinstance(outcome, Panic) else tok(outcome)
            bb = [c for c in cs if c[0] == "body_bytes"]
            js_ok = re.fullmatch(r"map_err\(from_slice\(deref\(&?BYTES\)\), ?<HttpError as From<serde_json::Error>>::from\)", t) is not None
            goal = f"(and {'true' if len(bb) == 1 else 'false'} (=> (= xb 0) {'true' if t == 'Err(from(BERR))' else 'false'}) (=> (= xb 1) {'true' if js_ok else 'false'}))"
            oblige("body_json: the bytes are taken once and handed to serde_json::from_slice, whose verdict (error mapped by HttpError::from) is the outcome", pc, goal, {"outcome": t[:100]})
    except (Unsupported, KeyError, IndexError, AttributeError, ValueError, TypeError) as u:
        failed.append(f"{unit}: not in the shape the encoding knows ({type(u).__name__}: {str(u)[:140]})")
        sample["encoder_gap"] = f"{type(u).__name__}: {u}"
    p = subprocess.run([binp], input="".join(f"X {k} {s} {h}\n" for k, s, h, _ in CASES), capture_output=True, text=True, timeout=300)
    got = p.stdout.strip("\n").split("\n")
    dev = []
    if len(got) != len(CASES):
        dev.append((("?", 0, "", "?"), f"driver printed {len(got)} lines"))
    else:
        for c, g in zip(CASES, got):
            okk = g.startswith("ERR") if c[3] == "ERR*" else g.strip() == c[3].strip()
            if not okk:
                dev.append((c, g))
    return sample, failed, dev
