"""C16 on engine M: the redirect middleware's loop and the middleware chain step, from a non-inlined MIR dump
of /repo/crux_http.

  redirect_iteration  `Redirect::handle`'s async block (crux_http/src/middleware/redirect.rs): the coroutine's MIR is
                      entered at the loop head (`redirect_count < self.attempts`) with SYMBOLIC u8 `count` and
                      `attempts`, a symbolic status of the probe's response and symbolic answers for the
                      Location header / Url::parse / Url::join, and executed until it returns or is back at the
                      loop head (one inductive step; the two awaits inside are contracts answering Pending/Ready).
  next_run            `Next::run` (crux_http/src/middleware.rs): one step of the chain.
Decided by z3 and cvc5 per path: see the obligations below.  Replay: `kani/redirect_replay` drives the real
capability API with a scripted shell over a sweep of redirect graphs and limits and compares with a reference
interpreter of the property.
"""
import glob
import json
import os
import re
import shutil
import subprocess
import time

from .c05m import Exec05
from .c15 import PKG, Stop, dump, find_fns, one_fn, status_table, tok, vcenum
from .common import EXIT_INCONCLUSIVE, EXIT_OK, EXIT_VIOLATION, LOGS, NIGHTLY, REPLAYS, REPO, STABLE, TARGET, VERIF, env_offline, match_known, run, say
from .mir import Panic, State, Unsupported, Val, vagg, vbool, venum, vint, vopaque
from .mir_engine import cvc5_solver, parse_values, z3_solver

LIGHT_FLAGS = ["-Zunpretty=mir", "-Zmir-opt-level=1", "-Zinline-mir=no", "-C", "debug-assertions=off", "-C", "overflow-checks=on"]

CONTRACT_TEXT = [
    "requests, clients, responses, URLs are opaque tokens (dataflow identity); Client::send's and Next::run's futures answer Pending / Ready(Ok) / Ready(Err) symbolically",
    "ResponseAsync::status() is a symbolic StatusCode from http-types' table; [StatusCode]::contains(REDIRECT_CODES, s) is membership in the list read from redirect.rs; "
    "ResponseAsync::header(LOCATION) answers None/Some, Url::parse Ok / Err(RelativeUrlWithoutBase) / Err(other), Url::join Ok/Err, all symbolically",
    "one loop iteration with the back edge cut (inductive step); `at most `attempts` probes' follows by induction from: a probe happens only if count < attempts, and each probe increments count by exactly 1",
    "that Request::clone drops the body (the probes are body-less) is http-types' contract, not decided here",
]


def dump_http_light(prop):
    tdir = os.path.join(TARGET, "mir16")
    for f in glob.glob(os.path.join(tdir, "debug", ".fingerprint", "crux_http-*")):
        shutil.rmtree(f, ignore_errors=True)
    cmd = ["cargo", "rustc", "--offline", "--lib", "--target-dir", tdir, "--"] + LIGHT_FLAGS
    t0 = time.time()
    p = subprocess.run(cmd, cwd=os.path.join(REPO, "crux_http"), env=env_offline({"RUSTUP_TOOLCHAIN": NIGHTLY}), capture_output=True, text=True, timeout=1800)
    os.makedirs(os.path.join(LOGS, prop), exist_ok=True)
    open(os.path.join(LOGS, prop, "mir-dump-crux_http-light.log"), "w").write(p.stderr)
    if p.returncode != 0 or "\nfn " not in p.stdout:
        return None, p.stderr[-600:], time.time() - t0
    open(os.path.join(TARGET, "crux_http_light.mir"), "w").write(p.stdout)
    return p.stdout, "", time.time() - t0


def redirect_codes(table):
    src = open(os.path.join(REPO, "crux_http", "src", "middleware", "redirect.rs")).read()
    m = re.search(r"const REDIRECT_CODES: &\[StatusCode\] = &\[(.*?)\];", src, re.S)
    if not m:
        raise Unsupported("REDIRECT_CODES not found in redirect.rs")
    names = re.findall(r"StatusCode::(\w+)", m.group(1))
    return sorted(table[n] for n in names)


class ExecR(Exec05):
    def __init__(self, fn, contracts, head, table):
        super().__init__(fn, contracts, head)
        self.table = table

    def const(self, c):
        if re.search(r"REDIRECT_CODES$", c):
            return vopaque("REDIRECT_CODES")
        if re.search(r"headers::LOCATION$", c):
            return vopaque("LOCATION")
        return super().const(c)

    def rvalue(self, st, r, dest_ty):
        m = re.fullmatch(r"discriminant\((.*)\)", r.strip())
        if m:
            v = self.read_place(st, m.group(1))
            if v.kind == "enum" and re.fullmatch(r"V\d+", v.variant or ""):
                return vint(int(v.variant[1:]), "isize")
        m = re.fullmatch(r"(.*) as (.*) \((PtrToPtr|Transmute|PointerCoercion\(.*\))\)", r.strip())
        if m and m.group(1).startswith(("copy ", "move ")):
            v = self.operand(st, m.group(1))
            if v.kind in ("opaque", "ref"):
                return v
        return super().rvalue(st, r, dest_ty)

    def _block(self, st, bb, depth):
        if bb == self.head and depth > 0:
            self.finish(st, Stop("loop-head", st.env.get(self.count_key)))
            return
        return super()._block(st, bb, depth)

    def stmt(self, st, line):
        m = re.fullmatch(r"\((_\d+)\.(\d+): .+\) = ((?:copy|move|const) [^=]+);?", line.strip())
        if m and m.group(1) in st.env and st.env[m.group(1)].kind == "agg":
            old = st.env[m.group(1)]
            fields = list(old.fields)
            fields[int(m.group(2))] = self.operand(st, m.group(3).rstrip(";"))
            st.env[m.group(1)] = vagg(fields, name=old.name)
            return
        return super().stmt(st, line)

    def write_place(self, st, s, val):
        m = re.fullmatch(r"\(\*(_\d+)\)", s.strip())
        if m and st.env.get(m.group(1)) is not None and st.env[m.group(1)].kind == "opaque" and st.env[m.group(1)].text.startswith("URLSLOT"):
            st.notes.append(("call", "set_url", tok(val)))
            return
        try:
            base, proj = self.parse_place(s)
        except Unsupported:
            base, proj = None, None
        if base and len(proj) == 1 and proj[0][0] == "field" and base in st.env and st.env[base].kind == "agg":
            old = st.env[base]
            fields = list(old.fields)
            fields[proj[0][1]] = val
            st.env[base] = vagg(fields, name=old.name)
            return
        super().write_place(st, s, val)


class ContractsR:
    def __init__(self, codes):
        self.codes = codes
        self.used = set()
        self.fresh = []

    def call(self, ex, st, callee, args):
        c = re.sub(r"\s+", " ", callee)
        self.used.add(c)

        def note(*a):
            st.notes.append(("call",) + a)

        if re.search(r"^<request::Request as Clone>::clone$", c):
            note("clone_req", tok(args[0]))
            return [("true", vopaque("clone(" + tok(args[0]) + ")"))]
        if re.search(r"^Client::send::<request::Request>$", c):
            note("probe", tok(args[0]), tok(args[1]))
            return [("true", vopaque("PROBEFUT"))]
        if re.search(r"IntoFuture>::into_future$", c):
            return [("true", args[0])]
        if re.search(r"Pin::<.*>::new_unchecked$", c):
            return [("true", args[0])]
        if re.search(r"Client::send<request::Request>\} as (?:futures_util::|std::future::)?Future>::poll$", c):
            note("poll_probe")
            return [("(= probe 0)", venum("Poll", "Pending", [])),
                    ("(= probe 1)", venum("Poll", "Ready", [venum("Result", "Ok", [vopaque("PROBERESP")])])),
                    ("(= probe 2)", venum("Poll", "Ready", [venum("Result", "Err", [vopaque("PROBEERR")])]))]
        if re.search(r"^<Pin<Box<dyn .*Future<Output = .*Result<ResponseAsync, HttpError>>.*>> as (?:futures_util::|std::future::)?Future>::poll$", c):
            note("poll_final")
            return [("(= final 0)", venum("Poll", "Pending", [])),
                    ("(= final 1)", venum("Poll", "Ready", [venum("Result", "Ok", [vopaque("FINALRESP")])])),
                    ("(= final 2)", venum("Poll", "Ready", [venum("Result", "Err", [vopaque("FINALERR")])]))]
        if re.search(r"as Try>::branch$", c):
            r0 = args[0]
            if r0.kind == "enum" and r0.variant == "Ok":
                return [("true", venum("ControlFlow", "Continue", [r0.fields[0]]))]
            if r0.kind == "enum" and r0.variant == "Err":
                return [("true", venum("ControlFlow", "Break", [venum("Result", "Err", [r0.fields[0]])]))]
            raise Unsupported("Try::branch on a value that is not a concrete Result")
        if re.search(r"as FromResidual<.*>>::from_residual$", c):
            r0 = args[0]
            if r0.kind == "enum" and r0.variant == "Err":
                return [("true", venum("Result", "Err", [vopaque("from(" + tok(r0.fields[0]) + ")")]))]
            raise Unsupported("from_residual on a value that is not a concrete Err")
        if re.search(r"ResponseAsync::status$", c):
            return [("true", vcenum("st"))]
        if re.search(r"slice::<impl \[StatusCode\]>::contains$", c):
            if tok(args[0]) != "REDIRECT_CODES":
                raise Unsupported("contains on something other than REDIRECT_CODES")
            s = args[1].target if args[1].kind == "ref" else args[1]
            return [("true", vbool("(or " + " ".join(f"(= {s.term} {k})" for k in self.codes) + ")"))]
        if re.search(r"ResponseAsync::header::<HeaderName>$", c):
            if tok(args[1]) != "LOCATION":
                raise Unsupported("header lookup of something other than LOCATION")
            return [("(= hasloc 1)", venum("Option", "Some", [vopaque("LOC")])), ("(= hasloc 0)", venum("Option", "None", []))]
        if re.search(r"as AsMut<.*Request>>::as_mut$", c):
            return [("true", vopaque("HTTPREQ[" + tok(args[0]) + "]"))]
        if re.search(r"HeaderValues::last$", c):
            return [("true", vopaque("last(" + tok(args[0]) + ")"))]
        if re.search(r"HeaderValue::as_str$", c):
            return [("true", vopaque("str(" + tok(args[0]) + ")"))]
        if re.search(r"^Url::parse$", c):
            note("parse", tok(args[0]))
            return [("(= parse 0)", venum("Result", "Ok", [vopaque("PARSED")])),
                    ("(= parse 1)", venum("Result", "Err", [venum("ParseError", "V6", [])])),
                    ("(= parse 2)", venum("Result", "Err", [venum("ParseError", "V0", [])]))]
        if re.search(r"^Url::join$", c):
            note("join", tok(args[0]), tok(args[1]))
            return [("(= join 0)", venum("Result", "Ok", [vopaque("JOINED")])), ("(= join 1)", venum("Result", "Err", [vopaque("JOINERR")]))]
        if re.search(r"^<Url as Clone>::clone$", c):
            return [("true", vopaque("clone(" + tok(args[0]) + ")"))]
        if re.search(r"Request::url_mut$", c):
            return [("true", vopaque("URLSLOT[" + tok(args[0]) + "]"))]
        if re.search(r"Request::url$", c):
            return [("true", vopaque("url(" + tok(args[0]) + ")"))]
        if re.search(r"^middleware::Next::<'_>::run$", c):
            note("next_run", tok(args[1]), tok(args[2]))
            return [("true", vopaque("FINALFUT"))]
        if re.search(r"as Into<HttpError>>::into$", c):
            return [("true", vopaque("into(" + tok(args[0]) + ")"))]
        if re.search(r"slice::<impl \[Arc<dyn Middleware>\]>::split_first$", c):
            note("split_first", tok(args[0]))
            return [("(= nonempty 1)", venum("Option", "Some", [vagg([vopaque("FIRST"), vopaque("REST")])])), ("(= nonempty 0)", venum("Option", "None", []))]
        if re.search(r"^<Arc<dyn Middleware> as Deref>::deref$", c):
            return [("true", vopaque("deref(" + tok(args[0]) + ")"))]
        if re.search(r"^<dyn Middleware as Middleware>::handle::<", c):
            note("handle", tok(args[0]), tok(args[1]), tok(args[2]), tok(args[3]))
            return [("true", vopaque("HANDLEFUT"))]
        if re.search(r"as Fn<.request::Request, Client.>>::call$", c):
            note("endpoint", tok(args[0]), tok(args[1]))
            return [("true", vopaque("ENDPOINTFUT"))]
        if re.search(r"result::unwrap_failed|option::expect_failed|option::unwrap_failed|panicking::panic", c):
            return [("true", Panic(args[0].text.strip('"') if args and args[0].kind == "opaque" else "panic"))]
        note("other", c)
        if getattr(ex, "cur_dest_ty", None) == "bool":
            name = f"ub{len(self.fresh)}"
            self.fresh.append((name, c))
            return [("true", vbool(name))]
        return [("true", vopaque(c + "(" + ", ".join(tok(a) for a in args) + ")"))]


def calls_of(notes):
    return [n[1:] for n in notes if n[0] == "call"]


def build_redirect_replay(prop):
    d = os.path.join(VERIF, "kani", "redirect_replay")
    if not os.path.exists(os.path.join(d, "Cargo.toml")):
        return False, None, "kani/redirect_replay missing"
    if not os.path.exists(os.path.join(d, "Cargo.lock")):
        shutil.copy(os.path.join(REPO, "Cargo.lock"), os.path.join(d, "Cargo.lock"))
    tdir = os.path.join(TARGET, "redirect_replay")
    rc, out, wall, _ = run(["cargo", "build", "--offline", "--target-dir", tdir], cwd=d, env=env_offline({"RUSTUP_TOOLCHAIN": STABLE}),
                           timeout=1200, log=os.path.join(LOGS, prop, "build-redirect_replay.log"))
    binp = os.path.join(tdir, "debug", "redirect_replay")
    return rc == 0 and os.path.exists(binp), binp, out


def native_sweep(binp):
    """-> list of (scenario, real, expected) lines that deviate; total count"""
    p = subprocess.run([binp], capture_output=True, text=True, timeout=600)
    dev, n = [], 0
    for ln in p.stdout.strip().split("\n"):
        m = re.match(r"(\S+) REAL (.*) \| EXPECT (.*)$", ln)
        if not m:
            continue
        n += 1
        if m.group(2) != m.group(3):
            dev.append((m.group(1), m.group(2), m.group(3)))
    return dev, n


def run_property(prop, cfg, tier, known, only=None):
    t0 = time.time()
    res = {"exit": EXIT_OK, "findings": [], "queries": 0, "decided": 0, "nontrivial": 0, "obligations": 0, "discharged": 0,
           "solver_s": 0.0, "samples": [], "notes": [], "assumptions": list(CONTRACT_TEXT), "validated_inputs": 0}
    os.makedirs(os.path.join(LOGS, prop), exist_ok=True)
    state = {"code": EXIT_OK}
    witnesses = set()
    failed = []

    def inconclusive(msg):
        say("INCONCLUSIVE: " + msg)
        res["notes"].append(msg)
        if state["code"] == EXIT_OK:
            state["code"] = EXIT_INCONCLUSIVE

    ok, binp, out = build_redirect_replay(prop)
    if not ok:
        inconclusive("native redirect driver does not build against /repo: " + " | ".join(str(out).strip().splitlines()[-4:])[-400:])
        res["exit"] = state["code"]
        return res
    http_mir, err0, s0 = dump(os.path.join(REPO, "crux_http"), PKG, "http_types", prop, PKG)
    mir, err, s1 = dump_http_light(prop)
    if mir is None or http_mir is None:
        inconclusive("MIR dump failed: " + (err or err0)[-400:])
        res["exit"] = state["code"]
        return res
    try:
        table, src = status_table(http_mir)
        codes = redirect_codes(table)
    except (Unsupported, KeyError) as u:
        inconclusive(f"cannot read the status tables: {u}")
        res["exit"] = state["code"]
        return res
    res["notes"].append(f"non-inlined MIR dump of crux_http {s1:.0f}s ({mir.count(chr(10))} lines); REDIRECT_CODES = {codes}; StatusCode table {len(table)} variants")
    z3 = z3_solver(os.path.join(LOGS, prop, "z3.smt2"))
    cv = cvc5_solver(os.path.join(LOGS, prop, "cvc5.smt2"))
    all_codes = sorted(table.values())
    for s in (z3, cv):
        s.send("(set-option :produce-models true)")
        s.send("(set-logic ALL)")
        for v, hi in (("count", 255), ("attempts", 255), ("probe", 2), ("final", 2), ("hasloc", 1), ("parse", 2), ("join", 1), ("nonempty", 1)):
            s.send(f"(declare-const {v} Int)")
            s.send(f"(assert (and (>= {v} 0) (<= {v} {hi})))")
        s.send("(declare-const st Int)")
        s.send("(assert (or " + " ".join(f"(= st {k})" for k in all_codes) + "))")
        s.send("(define-fun is_redirect () Bool (or " + " ".join(f"(= st {k})" for k in codes) + "))")
        # loop invariant assumed at the loop head (and re-established by the step)
        s.send("(assert (<= count attempts))")
    declared = set()

    def ask(assertion, want_model=False):
        for s in (z3, cv):
            s.send("(push 1)")
            s.send(f"(assert {assertion})")
        a, b = z3.check(), cv.check()
        res["queries"] += 1
        model = None
        if want_model and (a == "sat" or (b == "sat" and a != "unsat")):
            model = parse_values((z3 if a == "sat" else cv).ask("(get-value (count attempts st probe final hasloc parse join))"))
        for s in (z3, cv):
            s.send("(pop 1)")
        if (a == "unsat" and b in ("unsat", "unknown", "timeout")) or (b == "unsat" and a in ("unknown", "timeout")):
            return "unsat", (a, b), None
        if (a == "sat" and b != "unsat") or (b == "sat" and a != "unsat"):
            return "sat", (a, b), model
        return "other", (a, b), None

    def oblige(unit, name, pc, goal, sample, extra=None):
        pcs = "(and true " + " ".join(pc) + ")"
        r, ab, _ = ask(pcs)
        q = {"obligation": name, "path_feasible": r}
        if extra:
            q.update(extra)
        if r == "sat":
            witnesses.add(f"{unit}: {name}")
        res["obligations"] += 1
        r2, ab2, model = ask(f"(and {pcs} (not {goal}))", want_model=True)
        q["z3"], q["cvc5"] = ab2
        if r2 == "unsat" or (r2 == "sat" and r == "unsat"):
            res["decided"] += 1
            res["discharged"] += 1
        elif r2 == "sat":
            res["decided"] += 1
            q["counterexample"] = model
            failed.append(f"{unit}: {name} {model}")
        else:
            inconclusive(f"{unit} {name}: solver answered {ab2}")
        sample["queries"].append(q)

    try:
        unit = "redirect_iteration"
        sample = {"unit": unit, "what": "Redirect::handle: one iteration of the redirect loop from its head, for every count <= attempts <= 255, every status, every Location / parse / join answer", "queries": []}
        try:
            fn = one_fn(mir, r"^fn redirect::<impl at crux_http/src/middleware/redirect\.rs:[\d: ]+>::handle::\{closure#0\}\(_1: Pin<&mut \{async block", "Redirect::handle async block")
            heads = [bb for bb, lines in fn.blocks.items() if any(re.search(r"= (?:Lt|Le|Gt|Ge)\(", l) for l in lines)]
            if len(heads) != 1:
                raise Unsupported(f"expected one loop head (the comparison of the redirect count with the limit), found {heads}")
            head = heads[0]
            text = "\n".join(fn.blocks[head])
            mcount = re.search(r"= copy \(\(\(\*(_\d+)\) as variant#(\d+)\)\.(\d+): u8\)", text)
            mself = re.search(r"= (?:no_retag )?copy \(\(\(\*(_\d+)\) as variant#(\d+)\)\.(\d+): &middleware::redirect::Redirect\)", text)
            if not mcount or not mself:
                raise Unsupported("cannot identify the redirect count / self in the loop head")
            key = lambda m_: f"_9{int(m_.group(1)[1:]):03d}{int(m_.group(2)):02d}{int(m_.group(3)):02d}"  # noqa: E731
            contracts = ContractsR(codes)
            ex = ExecR(fn, contracts, head, table)
            ex.count_key = key(mcount)
            env = {key(mcount): vint("count", "u8"), key(mself): Val("ref", target=vagg([vint("attempts", "u8")], name="Redirect"))}
            for p_, _ in fn.params:
                env[p_] = vopaque("coroutine-arg")
            body = "\n".join(sum(fn.blocks.values(), []))
            for loc in set(re.findall(r"\(\*(_\d+)\)", body)):
                env.setdefault(loc, vopaque("coroutine-state"))
            names = {}
            for m_ in re.finditer(r"debug (\w+) => \(\(\(\*(_\d+)\) as variant#(\d+)\)\.(\d+): ", mir[mir.find(fn.header):mir.find(fn.header) + 20000]):
                names[f"_9{int(m_.group(2)[1:]):03d}{int(m_.group(3)):02d}{int(m_.group(4)):02d}"] = m_.group(1).upper()
            for k, nm in names.items():
                env.setdefault(k, vopaque(nm))
            # drop flags the coroutine keeps in its state decide only which captured values still need dropping on
            # the way out; they are not interpreted (taken as false: nothing left to drop)
            for m_ in set(re.findall(r"\(\(\(\*(_\d+)\) as variant#(\d+)\)\.(\d+): bool\)", body)):
                env.setdefault(f"_9{int(m_[0][1:]):03d}{int(m_[1]):02d}{int(m_[2]):02d}", vbool("false"))
            paths = ex.run_from(State(env, []), head)
            for name, _ in contracts.fresh:
                if name not in declared:
                    declared.add(name)
                    for s in (z3, cv):
                        s.send(f"(declare-const {name} Bool)")
            sample.update({"mir_function": fn.name, "loop_head": head, "paths": len(paths), "mir_steps": ex.steps, "state_fields": names,
                           "fresh_symbolic_bools_for_unknown_callees": [c for _, c in contracts.fresh]})
            count_key = key(mcount)
            for i, (pc, outcome, notes) in enumerate(paths):
                cs = calls_of(notes)
                seq = [c[0] for c in cs]
                probes = [c for c in cs if c[0] == "probe"]
                finals = [c for c in cs if c[0] == "next_run"]
                others = [c for c in cs if c[0] == "other"]
                seturl = [c for c in cs if c[0] == "set_url"]
                t = "loop-head" if isinstance(outcome, Stop) else ("PANIC " + outcome.msg if isinstance(outcome, Panic) else tok(outcome))
                extra = {"calls": seq, "outcome": t[:48], "set_url": [c[1] for c in seturl], "join": [c[1:] for c in cs if c[0] == "join"]}
                if isinstance(outcome, Panic):
                    oblige(unit, f"path {i}: no panic ({outcome.msg[:48]})", pc, "false", sample, extra)
                    continue
                # common: a probe happens only below the limit and is a clone of the request; the real request is sent at most once
                base_ok = (len(probes) <= 1 and len(finals) <= 1 and not others and all(p_[2].startswith("clone(") and "REQ" in p_[2] for p_ in probes)
                           and all("REQ" in f_[1] and not f_[1].startswith("clone(") for f_ in finals))
                if probes and finals:
                    # a probe with a non-redirect answer, then the real request
                    goal = f"(and {'true' if base_ok else 'false'} (< count attempts) (= probe 1) (not is_redirect))"
                    name = f"path {i}: below the limit a non-redirect answer ends the probing and the original request is sent exactly once"
                elif finals:
                    goal = f"(and {'true' if base_ok else 'false'} (= count attempts))"
                    name = f"path {i}: at the limit no further probe is made and the original request is sent exactly once"
                elif probes and t == "loop-head":
                    newcount = ex_final_count = None
                    # the state after the step: count' = count + 1 <= attempts (invariant re-established)
                    cnt = [n for n in notes if n[0] == "count_after"]
                    url_ok = "true"
                    if seturl:
                        want = {0: "clone(PARSED)", 1: "JOINED"}
                        url_ok = f"(and (= hasloc 1) (or (and (= parse 0) {'true' if seturl[0][1] in ('clone(PARSED)', 'clone(&PARSED)') else 'false'}) (and (= parse 1) (= join 0) {'true' if seturl[0][1] == 'JOINED' and any(c[0] == 'join' and 'BASE_URL' in c[1] and 'LOC' in c[2] for c in cs) else 'false'})))"
                    else:
                        url_ok = "(= hasloc 0)"
                    after = outcome.value
                    step_ok = f"(and (= {after.term} (+ count 1)) (<= {after.term} attempts))" if after is not None and after.kind == "int" else "false"
                    goal = f"(and {'true' if base_ok and len(seturl) <= 1 else 'false'} (< count attempts) (= probe 1) is_redirect {url_ok} {step_ok})"
                    name = f"path {i}: a redirect answer below the limit: one body-less probe, the URL follows the Location (absolute: parsed; relative: joined to the current base), the count goes up by exactly one and stays within the limit, next round"
                elif probes and t.startswith("Pending"):
                    goal = f"(and {'true' if base_ok else 'false'} (< count attempts) (= probe 0))"
                    name = f"path {i}: the probe is pending: the middleware is pending"
                elif probes and t.startswith("Ready(Err("):
                    goal = f"(and {'true' if base_ok else 'false'} (< count attempts) (= probe 1) (or (= probe 2) (and is_redirect (= hasloc 1) (or (= parse 2) (and (= parse 1) (= join 1))))))"
                    goal = f"(and {'true' if base_ok else 'false'} (< count attempts) (or (= probe 2) (and (= probe 1) is_redirect (= hasloc 1) (or (= parse 2) (and (= parse 1) (= join 1))))))"
                    name = f"path {i}: a failed probe or an unusable Location ends with an error, the real request is not sent"
                else:
                    goal = "false"
                    name = f"path {i}: unexpected shape {seq} -> {t[:30]}"
                oblige(unit, name, pc, goal, sample, extra)
            # the step re-establishes the invariant and counts every probe: read count' off the paths that went round
            for i, (pc, outcome, notes) in enumerate(paths):
                pass
        except (Unsupported, KeyError, IndexError, AttributeError, ValueError, TypeError) as u:
            # the loop no longer has the shape the encoding knows: the native sweep decides whether that matters
            failed.append(f"{unit}: not in the shape the encoding knows ({type(u).__name__}: {str(u)[:120]})")
            sample["encoder_gap"] = f"{type(u).__name__}: {u}"
        res["samples"].append(sample)
        say(f"  [{unit:>22}] paths={sample.get('paths')} obligations={len(sample['queries'])}")

        unit = "next_run"
        sample = {"unit": unit, "what": "Next::run: one step of the middleware chain", "queries": []}
        try:
            fnN = one_fn(mir, r"^fn middleware::<impl at crux_http/src/middleware\.rs:[\d: ]+>::run\(_1: middleware::Next<'_>, _2: request::Request, _3: Client\)", "Next::run")
            contracts = ContractsR(codes)
            exN = ExecR(fnN, contracts, None, table)
            exN.count_key = None
            pathsN = exN.run_from(State({"_1": vagg([vopaque("MWS"), vopaque("ENDPOINT")], name="Next"), "_2": vopaque("REQ"), "_3": vopaque("CLIENT")}, []), "bb0")
            sample.update({"mir_function": fnN.name, "paths": len(pathsN), "mir_steps": exN.steps})
            for i, (pc, outcome, notes) in enumerate(pathsN):
                cs = calls_of(notes)
                seq = [c[0] for c in cs]
                if isinstance(outcome, Panic):
                    oblige(unit, f"path {i}: no panic", pc, "false", sample, {"calls": seq})
                    continue
                t = tok(outcome)
                handles = [c for c in cs if c[0] == "handle"]
                ends = [c for c in cs if c[0] == "endpoint"]
                some_ok = (len(handles) == 1 and not ends and handles[0][1] == "deref(FIRST)" and handles[0][2] == "REQ" and handles[0][3] == "CLIENT"
                           and handles[0][4] == "Next{REST,ENDPOINT}" and t == "HANDLEFUT")
                none_ok = len(ends) == 1 and not handles and ends[0][1] == "ENDPOINT" and "REQ" in ends[0][2] and "CLIENT" in ends[0][2] and t == "ENDPOINTFUT"
                oblige(unit, "a non-empty chain hands the request to its first middleware with the rest of the chain and does not touch the endpoint; an empty chain calls the endpoint once", pc,
                       f"(and (=> (= nonempty 1) {'true' if some_ok else 'false'}) (=> (= nonempty 0) {'true' if none_ok else 'false'}))", sample, {"calls": seq, "outcome": t[:30], "handle": handles[:1]})
        except (Unsupported, KeyError, IndexError, AttributeError, ValueError, TypeError) as u:
            failed.append(f"{unit}: not in the shape the encoding knows ({type(u).__name__}: {str(u)[:120]})")
            sample["encoder_gap"] = f"{type(u).__name__}: {u}"
        res["samples"].append(sample)
        say(f"  [{unit:>22}] paths={sample.get('paths')} obligations={len(sample['queries'])}")

        # ---- how a request reaches the chain: the builder's future goes through Client::send, which takes the request's own stack
        unit = "send_assembles_chain"
        sample = {"unit": unit, "what": "RequestBuilder's IntoFuture async block(s) and Client::send's body: call lists", "queries": []}
        try:
            blocks_ = re.findall(r"^fn (request_builder::<impl at crux_http/src/request_builder\.rs:[\d: ]+>::into_future::\{closure#\d+\})\(_1: Pin<&mut \{async block[^\n]*\n(.*?)\n}\n", mir, re.M | re.S)
            if not blocks_:
                raise Unsupported("no async block found in RequestBuilder::into_future")
            facts = []
            for nm, body_ in blocks_:
                cl = re.findall(r"= ([^=\n]*?)\((?:move|copy|const|\))", body_)
                facts.append((f"{nm[-24:]}: the builder's future sends through Client::send (which runs the request's middleware)", any(re.match(r"(?:client::)?Client::send::<", c.strip()) for c in cl)))
            fnS = one_fn(mir, r"^fn client::<impl at crux_http/src/client\.rs:[\d: ]+>::send::\{closure#0\}\(_1: Pin<&mut \{async fn body", "Client::send's body")
            cl = [c.strip() for c in re.findall(r"= ([^=\n]*?)\((?:move|copy|const|\))", "\n".join(sum((fnS.blocks[b] for b in sorted(fnS.blocks, key=lambda x: int(x[2:]))), [])))]
            idx = lambda pat: [i for i, c in enumerate(cl) if re.search(pat, c)]
            take, ext_client, ext_req = idx(r"Request::take_middleware$"), idx(r"as Extend<Arc<dyn Middleware>>>::extend::<Cloned<"), idx(r"as Extend<Arc<dyn Middleware>>>::extend::<Vec<Arc<dyn Middleware>>>$")
            new_, run_ = idx(r"middleware::Next::<'_>::new$"), idx(r"middleware::Next::<'_>::run$")
            facts.append(("Client::send takes the request's own middleware stack exactly once", len(take) == 1))
            # (the relative order of the client's own stack and the request's stack is NOT demanded: Client::with is pub(crate) and
            #  never called, so the client's stack is always empty through the public API and the order cannot be observed)
            facts.append(("the request's own stack is added to the chain exactly once", len(ext_req) == 1 and len(ext_client) <= 1))
            facts.append(("one chain is built over that list and run exactly once", len(new_) == 1 and len(run_) == 1 and ext_req and ext_req[0] < new_[0] < run_[0]))
            sample["mir_function"] = fnS.name[-60:]
            for text_, ok_ in facts:
                res["obligations"] += 1
                res["queries"] += 1
                res["decided"] += 1
                sample["queries"].append({"obligation": text_, "holds": bool(ok_)})
                if ok_:
                    res["discharged"] += 1
                else:
                    failed.append(f"{unit}: {text_}")
            if all(ok_ for _, ok_ in facts):
                witnesses.add(f"{unit}: {len(facts)} call-list facts hold")
        except (Unsupported, KeyError, IndexError, AttributeError, ValueError, TypeError) as u:
            failed.append(f"{unit}: not in the shape the encoding knows ({type(u).__name__}: {str(u)[:120]})")
            sample["encoder_gap"] = f"{type(u).__name__}: {u}"
        res["samples"].append(sample)
        say(f"  [{unit:>22}] facts={len(sample['queries'])} hold={sum(1 for q in sample['queries'] if q['holds'])}")

        # ---- the Command API's builder: is the per-request middleware stack consulted at all?
        unit = "command_api_middleware"
        sample = {"unit": unit, "what": "crux_http::command::RequestBuilder::build's async block: the middleware attached with .middleware(..) takes part in sending the request", "queries": []}
        consulted = None
        try:
            fnB = one_fn(mir, r"^fn command::<impl at crux_http/src/command\.rs:[\d: ]+>::build::\{closure#0\}::\{closure#0\}\(_1: Pin<&mut \{async block", "command RequestBuilder::build async block")
            callees = sorted(set(re.findall(r"= ([^=]*?)\((?:move|copy|const|\))", "\n".join(sum(fnB.blocks.values(), [])))))
            consulted = any(re.search(r"take_middleware|middleware::Next|Client::send|as Middleware>::handle", c) for c in callees)
            sample.update({"mir_function": fnB.name[-70:], "callees": [c[:90] for c in callees][:24]})
            res["obligations"] += 1
            res["queries"] += 1
            res["decided"] += 1
            sample["queries"].append({"obligation": "the request's middleware stack is taken and run (take_middleware / Next::run / Client::send reached)", "holds": bool(consulted)})
            if consulted:
                res["discharged"] += 1
                witnesses.add(f"{unit}: middleware consulted")
        except (Unsupported, KeyError, IndexError, AttributeError, ValueError, TypeError) as u:
            sample["encoder_gap"] = f"{type(u).__name__}: {u}"
        res["samples"].append(sample)
        say(f"  [{unit:>22}] middleware consulted: {consulted}")

        dev, n = native_sweep(binp)
        cmd_dev = [d for d in dev if d[0].startswith("cmdstack-")]
        dev = [d for d in dev if not d[0].startswith("cmdstack-")]
        if consulted is False and cmd_dev:
            os.makedirs(os.path.join(REPLAYS, prop), exist_ok=True)
            rp = os.path.join(REPLAYS, prop, f"redirect-{cmd_dev[0][0]}.json")
            json.dump({"property": prop, "engine": "mir", "module": "c16m", "scenario": cmd_dev[0][0], "real": cmd_dev[0][1], "expected": cmd_dev[0][2],
                       "obligations": ["command_api_middleware: the middleware stack is never consulted"]}, open(rp, "w"), indent=1)
            k = match_known(known, prop, unit, "middleware-ignored")
            if k:
                say(f"KNOWN-FINDING: property={prop} {k['what']} [{cmd_dev[0][0]}: real `{cmd_dev[0][1]}`, the property demands `{cmd_dev[0][2]}`]")
                res["findings"].append({"known": True, "unit": unit, "desc": "middleware-ignored", "replay": rp})
            else:
                say(f"VIOLATION property={prop} replay={rp}")
                say(f"  {unit}: the Command API never consults the middleware attached to the request; scenario {cmd_dev[0][0]}: the property demands `{cmd_dev[0][2]}`, real code -> `{cmd_dev[0][1]}`")
                res["findings"].append({"known": False, "unit": unit, "desc": "middleware-ignored", "replay": rp})
                state["code"] = EXIT_VIOLATION
        elif consulted is False:
            inconclusive(f"{unit}: the middleware stack is never consulted on the MIR, but the native cmdstack scenarios do not deviate")
        elif consulted is None:
            inconclusive(f"{unit}: encoder gap: {sample.get('encoder_gap')}")
        elif cmd_dev:
            dev += cmd_dev
        res["validated_inputs"] = n
        res["notes"].append(f"native sweep: {n} redirect scenarios (limits 0..=4 x graphs with absolute / relative / missing Location, loops, chains longer than the limit) through the real capability API vs a reference interpreter of the property: {len(dev)} deviations")
        if n < 20:
            inconclusive(f"native redirect sweep produced only {n} scenarios")
        if failed:
            if dev:
                os.makedirs(os.path.join(REPLAYS, prop), exist_ok=True)
                rp = os.path.join(REPLAYS, prop, f"redirect-{dev[0][0]}.json")
                json.dump({"property": prop, "engine": "mir", "module": "c16m", "scenario": dev[0][0], "real": dev[0][1], "expected": dev[0][2], "obligations": failed[:4]}, open(rp, "w"), indent=1)
                say(f"VIOLATION property={prop} replay={rp}")
                say(f"  {failed[0][:200]}; scenario {dev[0][0]}: the property demands `{dev[0][2]}`, real code -> `{dev[0][1]}`")
                res["findings"].append({"known": False, "unit": "redirect_iteration", "desc": failed[0][:120], "replay": rp})
                state["code"] = EXIT_VIOLATION
            else:
                inconclusive(f"{failed[0][:200]} does not hold on the MIR, but none of the {n} native scenarios deviates: encoder gap or a change the sweep does not expose")
        elif dev and state["code"] == EXIT_OK:
            inconclusive(f"scenario {dev[0][0]} deviates natively (`{dev[0][1]}` vs `{dev[0][2]}`) although every obligation was discharged: the difference lies outside the encoded step")
    finally:
        errs = z3.errors + cv.errors
        res["solver_s"] += z3.time + cv.time
        z3.close()
        cv.close()
        if errs:
            inconclusive("solver error output: " + errs[0][:200])
    res["nontrivial"] = len(witnesses)
    res["witnesses"] = sorted(witnesses)
    res["exit"] = state["code"]
    res["wall"] = time.time() - t0
    return res


def replay_file(path):
    rec = json.load(open(path))
    ok, binp, out = build_redirect_replay(rec["property"])
    if not ok:
        say("native redirect driver does not build")
        return EXIT_INCONCLUSIVE
    dev, n = native_sweep(binp)
    hit = [d for d in dev if d[0] == rec["scenario"]]
    say(f"scenario {rec['scenario']}: " + (f"real `{hit[0][1]}` vs expected `{hit[0][2]}`" if hit else "no deviation now"))
    return EXIT_VIOLATION if hit else EXIT_OK
