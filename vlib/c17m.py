"""C17 on engine M: the command-API builders of crux_kv (crux_kv/src/command.rs), from a fresh MIR dump.

For each of get / set / delete / exists / list_keys two MIR functions are executed symbolically:
  * the builder: the value it returns is a `RequestBuilder` whose boxed task-maker is crux_core's
    `RequestBuilder::map` closure holding (a) the `RequestBuilder` of `Command::request_from_shell`, whose
    boxed closure captures exactly ONE `KeyValueOperation` with the caller's key / value / cursor in it
    unchanged, and (b) the API's own result-mapping closure, which must capture nothing;
  * that result-mapping closure: whatever the shell answered, what it returns is what the matching
    `KeyValueResult::unwrap_*` returned (the unwrap functions themselves are decided by the Kani
    harnesses c17_unwrap_*), for the Ok answer and for every error variant.
Keys, values and results are opaque tokens (identity of the dataflow); the cursor is a u64 term and its
equality is a solver query over the full width.
"""
import glob
import json
import os
import re
import shutil
import subprocess
import time

from .c15 import MIR_FLAGS, Exec15, find_fns, one_fn, tok
from .common import EXIT_INCONCLUSIVE, EXIT_OK, EXIT_VIOLATION, LOGS, NIGHTLY, REPLAYS, REPO, STABLE, TARGET, VERIF, env_offline, match_known, run, say
from .mir import INT_BITS, Panic, State, Unsupported, Val, split_top, vagg, venum, vint, vopaque
from .mir_engine import cvc5_solver, parse_values, z3_solver

CONTRACT_TEXT = [
    "keys, prefixes, values and shell results are opaque tokens: what is decided for them is the dataflow (the token the caller passed is the token in the operation; the token unwrap_* returned is the token the closure returns)",
    "`impl Into<String>::into(key)` is the token into(KEY) (String conversion itself is std's)",
    "Box::new is modelled as a cell: box_new_uninit returns a fresh cell, the write through the raw pointer fills it, the pointer casts keep it",
    "KeyValueResult::unwrap_* is a contract here (answers: Ok(token) or Err(each KeyValueError variant)); the functions themselves are decided by the Kani harnesses c17_unwrap_value_ops / c17_unwrap_exists_list",
    "crux_core's Command::request_from_shell / RequestBuilder::map closures (what they do with the captured operation and mapping closure when the command runs) are outside: only what the crux_kv builders hand to them is decided",
]

APIS = {
    # api: (operation variant, [(field, source)], unwrap fn)
    "get": ("Get", [("key", "into(ARG1)")], "unwrap_get"),
    "set": ("Set", [("key", "into(ARG1)"), ("value", "ARG2")], "unwrap_set"),
    "delete": ("Delete", [("key", "into(ARG1)")], "unwrap_delete"),
    "exists": ("Exists", [("key", "into(ARG1)")], "unwrap_exists"),
    "list_keys": ("ListKeys", [("prefix", "into(ARG1)"), ("cursor", "cursor")], "unwrap_list_keys"),
}
ANSWERS = ["ok", "io", "timeout", "cursor", "other"]
ERR_VARIANT = {"io": "Io", "timeout": "Timeout", "cursor": "CursorNotFound", "other": "Other"}


def dump_kv(prop):
    tdir = os.path.join(TARGET, "mir17")
    for f in glob.glob(os.path.join(tdir, "debug", ".fingerprint", "crux_kv-*")):
        shutil.rmtree(f, ignore_errors=True)
    cmd = ["cargo", "rustc", "--offline", "--lib", "--target-dir", tdir, "--"] + MIR_FLAGS
    t0 = time.time()
    p = subprocess.run(cmd, cwd=os.path.join(REPO, "crux_kv"), env=env_offline({"RUSTUP_TOOLCHAIN": NIGHTLY}), capture_output=True, text=True, timeout=1800)
    os.makedirs(os.path.join(LOGS, prop), exist_ok=True)
    open(os.path.join(LOGS, prop, "mir-dump-crux_kv.log"), "w").write(p.stderr)
    if p.returncode != 0 or "\nfn " not in p.stdout:
        return None, p.stderr[-600:], time.time() - t0
    open(os.path.join(TARGET, "crux_kv.mir"), "w").write(p.stdout)
    return p.stdout, "", time.time() - t0


def error_variants():
    src = open(os.path.join(REPO, "crux_kv", "src", "error.rs")).read()
    m = re.search(r"pub enum KeyValueError \{(.*?)\n\}", src, re.S)
    if not m:
        raise Unsupported("enum KeyValueError not found in crux_kv/src/error.rs")
    names = re.findall(r"^\s{4}(\w+)\s*(?:\{[^}]*\})?,", m.group(1), re.M)
    if len(names) < 2:
        raise Unsupported(f"implausible KeyValueError variants {names}")
    return {n: i for i, n in enumerate(names)}


class Cell:
    def __init__(self):
        self.content = None


class ExecKv(Exec15):
    """adds: boxes as cells, closure aggregates `{closure@path} { 0: a, 1: b }`, named-variant enums"""

    def __init__(self, fn, contracts, err_idx):
        super().__init__(fn, contracts, {})
        self.err_idx = err_idx

    def const(self, c):
        m = re.fullmatch(r"ZeroSized: (\{closure@.*\})", c)
        if m:
            return vagg([], name=m.group(1))
        m = re.fullmatch(r"(?:[\w:]+::)?KeyValueError::(\w+)", c)
        if m:
            return venum("KeyValueError", m.group(1))
        return super().const(c)

    def rvalue(self, st, r, dest_ty):
        r = r.strip()
        m = re.fullmatch(r"(\{closure@[^}]*\}) \{ (.*) \}", r)
        if m:
            fields = []
            for f in split_top(m.group(2)):
                fm = re.match(r"\w+: (.*)$", f)
                fields.append(self.operand(st, fm.group(1)))
            return vagg(fields, name=m.group(1))
        # struct literal whose type path may contain closure types: `Path::<..{closure@..}..> { f: v, .. }`
        m = re.fullmatch(r"((?:RequestBuilder|KeyValueOperation)\b.*?) \{ ((?:\w+: (?:copy|move|const) [^{}]*?)(?:, \w+: (?:copy|move|const) [^{}]*?)*) \}", r)
        if m and not r.startswith("{closure@"):
            fields = []
            for f in split_top(m.group(2)):
                fields.append(self.operand(st, re.match(r"\w+: (.*)$", f).group(1)))
            return vagg(fields, name=m.group(1).strip())
        m = re.fullmatch(r"(.*) as (.*) \((PtrToPtr|Transmute|PointerCoercion\(.*\))\)", r)
        if m and m.group(1).startswith(("copy ", "move ")):
            v = self.operand(st, m.group(1))
            if v.kind == "box":
                return Val("box", cell=v.cell, ty=m.group(2))
        m = re.fullmatch(r"discriminant\((.*)\)", r)
        if m:
            v = self.read_place(st, m.group(1))
            if v.kind == "enum" and v.name == "KeyValueError":
                return vint(self.err_idx[v.variant], "isize")
        m = re.fullmatch(r"(?:[\w:]+::)?KeyValueError::(\w+)(?: \{ (.*) \})?", r)
        if m:
            fields = []
            if m.group(2):
                for f in split_top(m.group(2)):
                    fields.append(self.operand(st, re.match(r"\w+: (.*)$", f).group(1)))
            return venum("KeyValueError", m.group(1), fields)
        return super().rvalue(st, r, dest_ty)

    def read_place(self, st, s):
        s2 = s.strip()
        m = re.fullmatch(r"\(\*(_\d+)\)", s2)
        if m and st.env.get(m.group(1)) is not None and st.env[m.group(1)].kind == "box":
            c = st.env[m.group(1)].cell.content
            if c is None:
                raise Unsupported("read of an unfilled box")
            return c
        return super().read_place(st, s)

    def write_place(self, st, s, val):
        m = re.fullmatch(r"\(\*(_\d+)\)", s.strip())
        if m and st.env.get(m.group(1)) is not None and st.env[m.group(1)].kind == "box":
            st.env[m.group(1)].cell.content = val
            return
        super().write_place(st, s, val)


class ContractsKv:
    def __init__(self, err_idx):
        self.err_idx = err_idx
        self.used = set()
        self.unwrap_calls = []

    def call(self, ex, st, callee, args):
        c = re.sub(r"\s+", " ", callee)
        self.used.add(c)
        if c.startswith("boxed::box_new_uninit") or "box_new_uninit" in c:
            return [("true", Val("box", cell=Cell(), ty="raw"))]
        if re.fullmatch(r"<impl Into<String> as Into<String>>::into", c) or re.fullmatch(r"<.* as Into<(?:std::string::)?String>>::into", c):
            return [("true", vopaque("into(" + tok(args[0]) + ")"))]
        m = re.fullmatch(r"(?:[\w:]+::)?KeyValueResult::(unwrap_\w+)", c)
        if m:
            self.unwrap_calls.append((m.group(1), tok(args[0])))
            alts = [("(= answer 0)", venum("Result", "Ok", [vopaque("OKVAL")]))]
            for a in ANSWERS[1:]:
                v = ERR_VARIANT[a]
                if v not in self.err_idx:
                    raise Unsupported(f"KeyValueError::{v} not in the enum read from the source")
                alts.append((f"(= answer {ANSWERS.index(a)})", venum("Result", "Err", [venum("KeyValueError", v, [vopaque("MSG")] if v in ("Io", "Other") else [])])))
            return alts
        if re.search(r"result::unwrap_failed|option::expect_failed|option::unwrap_failed|panicking::panic", c):
            return [("true", Panic(args[0].text.strip('"') if args and args[0].kind == "opaque" else "panic"))]
        return [("true", vopaque(c + "(" + ", ".join(tok(a) for a in args) + ")"))]


def unbox(v):
    while v is not None and v.kind == "box":
        v = v.cell.content
    return v


def build_kv_replay(prop):
    d = os.path.join(VERIF, "kani", "kv_replay")
    if not os.path.exists(os.path.join(d, "Cargo.lock")):
        shutil.copy(os.path.join(REPO, "Cargo.lock"), os.path.join(d, "Cargo.lock"))
    tdir = os.path.join(TARGET, "kv_replay")
    rc, out, wall, _ = run(["cargo", "build", "--offline", "--target-dir", tdir], cwd=d, env=env_offline({"RUSTUP_TOOLCHAIN": STABLE}),
                           timeout=1200, log=os.path.join(LOGS, prop, "build-kv_replay.log"))
    binp = os.path.join(tdir, "debug", "kv_replay")
    return rc == 0 and os.path.exists(binp), binp, out


def expected_line(api, cursor, answer):
    key = '"kéy"'
    op = {"get": f"Get {{ key: {key} }}", "set": f"Set {{ key: {key}, value: <binary data - 3 bytes> }}", "delete": f"Delete {{ key: {key} }}",
          "exists": f"Exists {{ key: {key} }}", "list_keys": f"ListKeys {{ prefix: {key}, cursor: {cursor} }}"}[api]
    wrap = {"get": "Data", "set": "Data", "delete": "Data", "exists": "Status", "list_keys": "List"}[api]
    if answer == "ok":
        inner = {"Data": "Ok(Some([9, 8]))", "Status": "Ok(true)", "List": 'Ok((["a", "b"], 77))'}[wrap]
    else:
        inner = {"io": 'Err(Io { message: "disk" })', "timeout": "Err(Timeout)", "cursor": "Err(CursorNotFound)", "other": 'Err(Other { message: "odd" })'}[answer]
    return f"OP {op} | RESULT {wrap}({inner})"


def native_lines(binp, reqs):
    p = subprocess.run([binp], input="".join(f"{a} {c} {ans}\n" for a, c, ans in reqs), capture_output=True, text=True, timeout=300)
    return p.stdout.strip().split("\n") if p.stdout.strip() else []


def run_property(prop, cfg, tier, known, only=None):
    t0 = time.time()
    res = {"exit": EXIT_OK, "findings": [], "queries": 0, "decided": 0, "nontrivial": 0, "obligations": 0, "discharged": 0,
           "solver_s": 0.0, "samples": [], "notes": [], "assumptions": list(CONTRACT_TEXT), "validated_inputs": 0}
    os.makedirs(os.path.join(LOGS, prop), exist_ok=True)
    state = {"code": EXIT_OK}

    def inconclusive(msg):
        say("INCONCLUSIVE: " + msg)
        res["notes"].append(msg)
        if state["code"] == EXIT_OK:
            state["code"] = EXIT_INCONCLUSIVE

    ok, binp, out = build_kv_replay(prop)
    if not ok:
        inconclusive("native kv driver does not build against /repo: " + " | ".join(out.strip().splitlines()[-4:])[-400:])
        res["exit"] = state["code"]
        return res
    mir, err, s1 = dump_kv(prop)
    if mir is None:
        inconclusive("MIR dump of crux_kv failed: " + err[-400:])
        res["exit"] = state["code"]
        return res
    try:
        err_idx = error_variants()
    except Unsupported as u:
        inconclusive(str(u))
        res["exit"] = state["code"]
        return res
    res["notes"].append(f"MIR dump of crux_kv {s1:.0f}s ({mir.count(chr(10))} lines); KeyValueError variants {err_idx}")

    z3 = z3_solver(os.path.join(LOGS, prop, "z3-m.smt2"))
    cv = cvc5_solver(os.path.join(LOGS, prop, "cvc5-m.smt2"))
    for s in (z3, cv):
        s.send("(set-option :produce-models true)")
        s.send("(set-logic ALL)")
        s.send("(declare-const cursor Int)")
        s.send("(assert (and (>= cursor 0) (<= cursor 18446744073709551615)))")
        s.send("(declare-const cap0 Int)")  # a u64 the mapping closure may (wrongly) have captured
        s.send("(assert (and (>= cap0 0) (<= cap0 18446744073709551615)))")
        s.send("(declare-const answer Int)")
        s.send(f"(assert (and (>= answer 0) (< answer {len(ANSWERS)})))")
    witnesses = set()

    def ask(assertion):
        for s in (z3, cv):
            s.send("(push 1)")
            s.send(f"(assert {assertion})")
        a, b = z3.check(), cv.check()
        res["queries"] += 1
        model = None
        if a == "sat" or (b == "sat" and a != "unsat"):
            model = parse_values((z3 if a == "sat" else cv).ask("(get-value (cursor cap0 answer))"))
        for s in (z3, cv):
            s.send("(pop 1)")
        if (a == "unsat" and b in ("unsat", "unknown", "timeout")) or (b == "unsat" and a in ("unknown", "timeout")):
            return "unsat", None, (a, b)
        if (a == "sat" and b != "unsat") or (b == "sat" and a != "unsat"):
            return "sat", model, (a, b)
        return "other", None, (a, b)

    def oblige(unit, api, name, pcs, goal, sample):
        pc = "(and true " + " ".join(pcs) + ")"
        r, _, ab = ask(pc)
        q = {"obligation": name, "path_feasible": r}
        if r == "sat":
            witnesses.add(f"{unit}: {name}")
        elif r == "other":
            inconclusive(f"{unit} {name}: feasibility query answered {ab}")
        res["obligations"] += 1
        r, model, ab = ask(f"(and {pc} (not {goal}))")
        q["z3"], q["cvc5"] = ab
        sample["queries"].append(q)
        if r == "unsat":
            res["decided"] += 1
            res["discharged"] += 1
            return True
        if r == "other":
            inconclusive(f"{unit} {name}: solver answered {ab}")
            return False
        res["decided"] += 1
        cur = model.get("cursor", 0) if model.get("cap0") in (None,) else model.get("cursor", 0)
        # the closure's captured value, if any, is the builder's cursor argument
        if "cap0" in goal or any("cap0" in p for p in pcs):
            cur = model.get("cap0", 0)
        ans = ANSWERS[model.get("answer", 0)]
        q["counterexample"] = {"api": api, "cursor": cur, "answer": ans}
        lines = native_lines(binp, [(api, cur, ans)])
        nline = lines[0] if lines else "?"
        q["native"] = nline
        exp = expected_line(api, cur, ans)
        if nline == exp:
            inconclusive(f"{unit} {name}: counterexample {q['counterexample']} does not reproduce natively (the real API gives what the property demands): encoder or contract is wrong")
            return False
        os.makedirs(os.path.join(REPLAYS, prop), exist_ok=True)
        rp = os.path.join(REPLAYS, prop, f"{unit}-{re.sub(r'[^a-z0-9]+', '_', name.lower())[:40]}.json")
        json.dump({"property": prop, "engine": "mir", "module": "c17m", "unit": unit, "api": api, "cursor": cur, "answer": ans, "expected": exp, "native": nline,
                   "obligation": name}, open(rp, "w"), indent=1)
        q["replay_file"] = rp
        k = match_known(known, prop, unit, name)
        if k:
            say(f"KNOWN-FINDING: property={prop} {k['what']} [{unit}: {q['counterexample']}]")
            res["findings"].append({"known": True, "unit": unit, "desc": name, "replay": rp})
            return True
        say(f"VIOLATION property={prop} replay={rp}")
        say(f"  {unit}: {name}: {api}(cursor {cur}) answered `{ans}`: expected `{exp}`, real code -> `{nline}`")
        res["findings"].append({"known": False, "unit": unit, "desc": name, "replay": rp})
        state["code"] = EXIT_VIOLATION
        return False

    def structural(unit, name, cond, detail, sample, api):
        """a dataflow fact read off the symbolic result; failing it is reported through the same replay protocol"""
        res["obligations"] += 1
        res["queries"] += 1
        sample["queries"].append({"obligation": name, "holds": bool(cond), "detail": detail[:200]})
        if cond:
            res["decided"] += 1
            res["discharged"] += 1
            witnesses.add(f"{unit}: {name}")
            return True
        # look natively for an input on which the API deviates from what the property demands
        reqs = [(api, c, a) for c in (0, 1, 7, 2**64 - 1) for a in ANSWERS]
        for (a_, c_, ans_), ln in zip(reqs, native_lines(binp, reqs)):
            if ln != expected_line(a_, c_, ans_):
                os.makedirs(os.path.join(REPLAYS, prop), exist_ok=True)
                rp = os.path.join(REPLAYS, prop, f"{unit}-{re.sub(r'[^a-z0-9]+', '_', name.lower())[:40]}.json")
                json.dump({"property": prop, "engine": "mir", "module": "c17m", "unit": unit, "api": a_, "cursor": c_, "answer": ans_,
                           "expected": expected_line(a_, c_, ans_), "native": ln, "obligation": name}, open(rp, "w"), indent=1)
                res["decided"] += 1
                say(f"VIOLATION property={prop} replay={rp}")
                say(f"  {unit}: {name} ({detail[:120]}): {a_}(cursor {c_}) answered `{ans_}`: expected `{expected_line(a_, c_, ans_)}`, real code -> `{ln}`")
                res["findings"].append({"known": False, "unit": unit, "desc": name, "replay": rp})
                state["code"] = EXIT_VIOLATION
                return False
        inconclusive(f"{unit}: {name} does not hold on the MIR ({detail[:160]}) but no native input deviates: encoder gap or a change the native driver's inputs do not expose")
        return False

    try:
        for api, (variant, fields, unwrap) in APIS.items():
            unit = f"kv_builder_{api}"
            sample = {"unit": unit, "what": f"crux_kv::command::KeyValue::{api}: exactly one {variant} operation carrying the caller's arguments, result mapped by {unwrap} only", "queries": []}
            try:
                contracts = ContractsKv(err_idx)
                fnB = one_fn(mir, r"^fn command::<impl at crux_kv/src/command\.rs:[\d: ]+>::" + api + r"\(_1: impl Into<String>", f"builder {api}")
                env = {"_1": vopaque("ARG1")}
                if len(fnB.params) > 1:
                    env["_2"] = vint("cursor", "u64") if api == "list_keys" else vopaque("ARG2")
                exB = ExecKv(fnB, contracts, err_idx)
                paths = exB.run(State(env, []))
                sample.update({"mir_function": fnB.name, "paths": len(paths), "mir_steps": exB.steps})
                if len(paths) != 1 or isinstance(paths[0][1], Panic):
                    raise Unsupported(f"builder has {len(paths)} paths / panics")
                pc, outcome, _ = paths[0]
                outer = unbox(outcome.fields[0]) if outcome.kind == "agg" and outcome.fields else None
                ok1 = outer is not None and outer.kind == "agg" and "builder.rs" in (outer.name or "") and len(outer.fields) == 2
                structural(unit, "the task-maker is RequestBuilder::map's closure over (request builder, mapping closure)", ok1, tok(outer) if outer else "?", sample, api)
                if ok1:
                    inner_rb, mapper = outer.fields
                    structural(unit, "the mapping closure captures nothing", mapper.kind == "agg" and (mapper.name or "").startswith("{closure@crux_kv/src/command.rs") and not mapper.fields,
                               tok(mapper), sample, api)
                    req_closure = unbox(inner_rb.fields[0]) if inner_rb.kind == "agg" and inner_rb.fields else None
                    ok2 = req_closure is not None and req_closure.kind == "agg" and "crux_core/src/command/mod.rs" in (req_closure.name or "") and len(req_closure.fields) == 1
                    structural(unit, "exactly one request_from_shell closure, capturing exactly one operation", ok2, tok(req_closure) if req_closure else "?", sample, api)
                    if ok2:
                        op = req_closure.fields[0]
                        ok3 = op.kind == "agg" and (op.name or "").endswith("KeyValueOperation::" + variant) and len(op.fields) == len(fields)
                        structural(unit, f"the operation is {variant} with {len(fields)} field(s)", ok3, tok(op), sample, api)
                        if ok3:
                            for (fname, src), fv in zip(fields, op.fields):
                                if src == "cursor":
                                    if fv.kind != "int":
                                        structural(unit, "cursor field is the caller's cursor", False, tok(fv), sample, api)
                                    else:
                                        oblige(unit, api, "the operation carries the caller's cursor unchanged", pc, f"(= {fv.term} cursor)", sample)
                                else:
                                    structural(unit, f"field {fname} is the caller's argument", tok(fv) == src, f"{fname} = {tok(fv)} (expected {src})", sample, api)
            except (Unsupported, KeyError, IndexError, AttributeError, ValueError, TypeError) as u:
                inconclusive(f"{unit}: encoder gap: {type(u).__name__}: {u}")
            res["samples"].append(sample)
            say(f"  [{unit:>22}] paths={sample.get('paths')} obligations={len(sample['queries'])}")

            unit = f"kv_map_{api}"
            sample = {"unit": unit, "what": f"the result-mapping closure of KeyValue::{api}: returns what KeyValueResult::{unwrap} returned, for Ok and for every error variant", "queries": []}
            try:
                contracts = ContractsKv(err_idx)
                fnC = one_fn(mir, r"^fn command::<impl at crux_kv/src/command\.rs:[\d: ]+>::" + api + r"::\{closure#0\}\(", f"mapping closure {api}")
                # a captured environment, if the closure has one, is a single u64 (the only scalar argument a builder has)
                env = {"_1": vagg([vint("cap0", "u64")], name="closure-env"), "_2": vopaque("RESULT")}
                exC = ExecKv(fnC, contracts, err_idx)
                paths = exC.run(State(env, []))
                sample.update({"mir_function": fnC.name, "paths": len(paths), "mir_steps": exC.steps})
                calls = contracts.unwrap_calls
                structural(unit, f"calls {unwrap} exactly once, on the shell's result", calls == [(unwrap, "RESULT")], str(calls), sample, api)
                for pc, outcome, _ in paths:
                    if isinstance(outcome, Panic):
                        oblige(unit, api, f"no panic ({outcome.msg[:40]})", pc, "false", sample)
                        continue
                    t = tok(outcome)
                    goal_terms = []
                    for i, a in enumerate(ANSWERS):
                        want = "Ok(OKVAL)" if a == "ok" else "Err(" + ERR_VARIANT[a] + ("(MSG)" if ERR_VARIANT[a] in ("Io", "Other") else "()") + ")"
                        goal_terms.append(f"(=> (= answer {i}) {'true' if t == want else 'false'})")
                    oblige(unit, api, f"returns what {unwrap} returned [{t[:40]}]", pc, "(and " + " ".join(goal_terms) + ")", sample)
            except (Unsupported, KeyError, IndexError, AttributeError, ValueError, TypeError) as u:
                inconclusive(f"{unit}: encoder gap: {type(u).__name__}: {u}")
            res["samples"].append(sample)
            say(f"  [{unit:>22}] paths={sample.get('paths')} obligations={len(sample['queries'])}")

        # validation of the encoding against the real API: every api x answer x a few cursors
        reqs = [(api, c, a) for api in APIS for c in (0, 1, 77, 2**63, 2**64 - 1) for a in ANSWERS]
        lines = native_lines(binp, reqs)
        mism = [(r, ln) for r, ln in zip(reqs, lines) if ln != expected_line(*r)]
        res["validated_inputs"] = len(lines)
        res["notes"].append(f"native validation: {len(lines)} runs of the real command API (5 APIs x 5 cursors x 5 answers) vs the property's expectation: {len(mism)} deviations")
        if len(lines) != len(reqs):
            inconclusive("native validation incomplete")
        if mism and state["code"] == EXIT_OK:
            inconclusive(f"the real API deviates from the expectation on {mism[0]} although every obligation was discharged: encoder/contract gap")
    finally:
        errs = z3.errors + cv.errors
        res["solver_s"] = z3.time + cv.time
        z3.close()
        cv.close()
    if errs:
        inconclusive("solver error output: " + errs[0][:200])
    res["nontrivial"] = len(witnesses)
    res["witnesses"] = sorted(witnesses)
    res["exit"] = state["code"]
    res["wall"] = time.time() - t0
    return res


def replay_file(path):
    rec = json.load(open(path))
    ok, binp, out = build_kv_replay(rec["property"])
    if not ok:
        say("native kv driver does not build")
        return EXIT_INCONCLUSIVE
    ln = (native_lines(binp, [(rec["api"], rec["cursor"], rec["answer"])]) or ["?"])[0]
    say(f"{rec['api']}(cursor {rec['cursor']}) answered `{rec['answer']}`: expected `{rec['expected']}`; real code now: `{ln}`")
    return EXIT_VIOLATION if ln != rec["expected"] else EXIT_OK
