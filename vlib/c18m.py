"""C18 on engine M: the timer task of `crux_time::command::Time::{notify_after, notify_at}` — the async block of
crux_time/src/command.rs — from a non-inlined MIR dump of /repo/crux_time.

The coroutine is executed from its start through both awaits (the `select_biased!` future and the Clear request's
future answer Pending / Ready symbolically) with SYMBOLIC ids: `tid` (this timer), `cid` (what arrives on the handle's
channel) and `rid` / `rid2` (the ids in the shell's answers), a symbolic kind of the shell's answers, and a symbolic
outcome of the early `try_recv`.  Decided per path (z3 and cvc5):
  * cleared before the first poll (try_recv = Ok(Some(cid)), cid = tid)  ->  Cleared, and NO request was made;
  * otherwise exactly one notify request carrying id = tid is made, then the select is awaited;
  * select answers with the shell's response: it must be the elapsed/arrived kind with id = tid -> Completed carrying the
    timer's handle, and NO Clear request is made; any other kind or id panics (documented as a developer error);
  * select answers with the handle's id: exactly one Clear request with id = that id = tid -> awaited -> the answer must be
    Cleared with that id -> Cleared;
  * no path yields two outcomes, every Ready outcome is Completed or Cleared.
Which arm the `select_biased!` expansion polls first is read off the MIR of its poll closure (the array of arm pollers, traced to
what each arm polls): the shell's answer before the handle's channel.  The uniqueness of ids (an atomic counter) is stated, not decided.  Replay: `kani/timer_replay` (the real command API: fire, clear before/while pending, late
clear, dropped handle, two timers).
"""
import glob
import json
import os
import re
import shutil
import subprocess
import time

from .c04m import coroutine_env, state_targets
from .c05m import Exec05
from .c15 import one_fn, tok
from .common import EXIT_INCONCLUSIVE, EXIT_OK, EXIT_VIOLATION, LOGS, NIGHTLY, REPLAYS, REPO, STABLE, TARGET, VERIF, env_offline, run, say
from .mir import Panic, State, Unsupported, Val, vagg, vbool, venum, vint, vopaque
from .mir_engine import cvc5_solver, parse_values, z3_solver

LIGHT_FLAGS = ["-Zunpretty=mir", "-Zmir-opt-level=1", "-Zinline-mir=no", "-C", "debug-assertions=off", "-C", "overflow-checks=on"]
DISC = {"_0": 0, "_1": 1, "Now": 0, "InstantArrived": 1, "DurationElapsed": 2, "Cleared": 3}
KINDS = ["Now", "InstantArrived", "DurationElapsed", "Cleared"]

CONTRACT_TEXT = [
    "timer ids are mathematical integers in the usize range; the handle's channel, the context and the durations are opaque tokens",
    "oneshot::Receiver::try_recv answers Ok(Some(cid)) / Ok(None) / Err(Canceled); the select future answers Pending / the shell's response (any of the four TimeResponse kinds, any id) / the handle's message Ok(cid) or Err(Canceled); "
    "the Clear request's future answers Pending / any TimeResponse with any id",
    "the only sender on the handle's oneshot channel is TimerHandle::clear, which sends the handle's own timer id - the id of this timer (both are created from one get_timer_id() call in notify_after / notify_at); so a message on it carries this timer's id",
    "select_biased! polls its arms in the order of the array its expansion builds (read off the MIR: response arm first); timer id uniqueness rests on get_timer_id's atomic fetch_add (distinct until the counter wraps)",
    "a shell answer of the wrong kind or with the wrong id panics by the code's documented choice ('developer error'); those panics are recorded, not counted as violations",
]


def dump_time_light(prop):
    tdir = os.path.join(TARGET, "mir18")
    for f in glob.glob(os.path.join(tdir, "debug", ".fingerprint", "crux_time-*")):
        shutil.rmtree(f, ignore_errors=True)
    cmd = ["cargo", "rustc", "--offline", "--lib", "--target-dir", tdir, "--"] + LIGHT_FLAGS
    t0 = time.time()
    p = subprocess.run(cmd, cwd=os.path.join(REPO, "crux_time"), env=env_offline({"RUSTUP_TOOLCHAIN": NIGHTLY}), capture_output=True, text=True, timeout=1800)
    os.makedirs(os.path.join(LOGS, prop), exist_ok=True)
    open(os.path.join(LOGS, prop, "mir-dump-crux_time-light.log"), "w").write(p.stderr)
    if p.returncode != 0 or "\nfn " not in p.stdout:
        return None, p.stderr[-600:], time.time() - t0
    open(os.path.join(TARGET, "crux_time_light.mir"), "w").write(p.stdout)
    return p.stdout, "", time.time() - t0


class ExecT(Exec05):
    def operand(self, st, s):
        s2 = s.strip()
        if not s2.startswith(("copy ", "move ", "const ", "no_retag ")):
            return vopaque(s2)
        return super().operand(st, s)

    def rvalue(self, st, r, dest_ty):
        r2 = r.strip()
        m = re.fullmatch(r"discriminant\((.*)\)", r2)
        if m:
            v = self.read_place(st, m.group(1))
            if v.kind == "enum" and v.variant in DISC and v.name in ("PrivResult", "TimeResponse"):
                return vint(DISC[v.variant], "isize")
        m = re.fullmatch(r"(\{closure@[^}]*\}) \{ (.*) \}", r2)
        if m:
            return vopaque("closure")
        return super().rvalue(st, r, dest_ty)


class ContractsT:
    def __init__(self, which):
        self.which = which  # "NotifyAfter" / "NotifyAt"
        self.used = set()
        self.fresh = []

    def call(self, ex, st, callee, args):
        c = re.sub(r"\s+", " ", callee)
        self.used.add(c)

        def note(*a):
            st.notes.append(("call",) + a)

        def deref(v):
            return v.target if v.kind == "ref" else v

        if re.search(r"oneshot::Receiver::<TimerId>::try_recv$", c):
            return [("(= tr 0)", venum("Result", "Ok", [venum("Option", "Some", [vint("cid0", "u64")])])),
                    ("(= tr 1)", venum("Result", "Ok", [venum("Option", "None", [])])),
                    ("(= tr 2)", venum("Result", "Err", [vopaque("Canceled")]))]
        m = re.search(r"^<TimerId as PartialEq>::(eq|ne)$", c)
        if m:
            a, b = deref(args[0]), deref(args[1])
            if a.kind != "int" or b.kind != "int":
                raise Unsupported(f"TimerId comparison of {tok(a)} and {tok(b)}")
            t = f"(= {a.term} {b.term})"
            return [("true", vbool(t if m.group(1) == "eq" else f"(not {t})"))]
        if re.search(r"CommandContext::<.*>::request_from_shell::<TimeRequest>$", c):
            r = args[1]
            note("request", r.name or "?", tok(r.fields[0]) if r.kind == "agg" and r.fields else "?")
            st.notes.append(("reqid", (r.name or "?").split("::")[-1], r.fields[0].term if r.kind == "agg" and r.fields and r.fields[0].kind == "int" else "?"))
            return [("true", vopaque("REQFUT[" + (r.name or "?") + "]"))]
        if re.search(r"FutureExt>::fuse$|IntoFuture>::into_future$|Pin::<.*>::new_unchecked$", c):
            return [("true", args[0])]
        if re.search(r"assert_fused_future|assert_unpin", c):
            return [("true", vopaque("()"))]
        if re.search(r"future::poll_fn::<", c):
            return [("true", vopaque("SELECT"))]
        if re.search(r"^<futures::future::PollFn<.*> as (?:futures::|futures_util::|std::future::)?Future>::poll$", c):
            note("poll_select")
            alts = [("(= sel 0)", venum("Poll", "Pending", []))]
            for k, kind in enumerate(KINDS):
                fields = [vopaque("INSTANT")] if kind == "Now" else [vint("rid", "u64")]
                alts.append((f"(and (= sel 1) (= rk {k}))", venum("Poll", "Ready", [venum("PrivResult", "_0", [venum("TimeResponse", kind, fields)])])))
            alts.append(("(= sel 2)", venum("Poll", "Ready", [venum("PrivResult", "_1", [venum("Result", "Ok", [vint("cid", "u64")])])])))
            alts.append(("(= sel 3)", venum("Poll", "Ready", [venum("PrivResult", "_1", [venum("Result", "Err", [vopaque("Canceled")])])])))
            return alts
        if re.search(r"ShellRequest<TimeResponse> as (?:futures::|futures_util::|std::future::)?Future>::poll$", c):
            note("poll_clear")
            alts = [("(= clr 0)", venum("Poll", "Pending", []))]
            for k, kind in enumerate(KINDS):
                fields = [vopaque("INSTANT")] if kind == "Now" else [vint("rid2", "u64")]
                alts.append((f"(and (= clr 1) (= rk2 {k}))", venum("Poll", "Ready", [venum("TimeResponse", kind, fields)])))
            return alts
        if re.search(r"Result::<TimerId, Canceled>::unwrap$", c):
            r0 = args[0]
            if r0.kind == "enum" and r0.variant == "Ok":
                return [("true", r0.fields[0])]
            return [("true", Panic("unwrap on Canceled (the handle was dropped): select never takes this branch for a terminated receiver"))]
        if re.search(r"Arguments::<'_>::from_str(_nonconst)?$", c):
            return [("true", vopaque("MSG:" + tok(args[0])))]
        if re.search(r"rt::panic_fmt$|panicking::panic", c):
            return [("true", Panic(tok(args[0])[:90] if args else "panic"))]
        if re.search(r"as Into<.*>>::into$", c):
            return [("true", vopaque("into(" + tok(args[0]) + ")"))]
        note("other", c)
        if getattr(ex, "cur_dest_ty", None) == "bool":
            name = f"ub{len(self.fresh)}"
            self.fresh.append((name, c))
            return [("true", vbool(name))]
        return [("true", vopaque(c + "(" + ", ".join(tok(a) for a in args) + ")"))]


def build_timer_replay(prop):
    d = os.path.join(VERIF, "kani", "timer_replay")
    if not os.path.exists(os.path.join(d, "Cargo.toml")):
        return False, None, "kani/timer_replay missing"
    if not os.path.exists(os.path.join(d, "Cargo.lock")):
        shutil.copy(os.path.join(REPO, "Cargo.lock"), os.path.join(d, "Cargo.lock"))
    tdir = os.path.join(TARGET, "timer_replay")
    rc, out, wall, _ = run(["cargo", "build", "--offline", "--target-dir", tdir], cwd=d, env=env_offline({"RUSTUP_TOOLCHAIN": STABLE}),
                           timeout=1200, log=os.path.join(LOGS, prop, "build-timer_replay.log"))
    binp = os.path.join(tdir, "debug", "timer_replay")
    return rc == 0 and os.path.exists(binp), binp, out


def select_arm_order(mir):
    """every select poll_fn closure of crux_time's command module: what its arms poll, in the order of the array the macro builds"""
    out = []
    for m in re.finditer(r"^fn (command::[^\n]*?)\((_1: &mut \{closure@[^}]*select_mod\.rs[^\n]*)\n(.*?)\n}\n", mir, re.M | re.S):
        name, body = m.group(1), m.group(3)
        arr = re.search(r"^\s*(_\d+) = \[copy (_\d+), copy (_\d+)\];", body, re.M)
        if not arr:
            continue
        aggs = [a.group(1) for a in re.finditer(r"^\s*(_\d+) = \{closure@[^}]*select_mod\.rs[^}]*\} \{", body, re.M)]
        arms = []
        for el in arr.group(2, 3):
            c = re.search(r"^\s*" + el + r" = copy (_\d+) as &mut dyn", body, re.M)
            r_ = c and re.search(r"^\s*" + c.group(1) + r" = &mut (_\d+);", body, re.M)
            if not r_ or r_.group(1) not in aggs:
                raise Unsupported(f"{name}: cannot trace array element {el} to an arm closure")
            k = aggs.index(r_.group(1))
            arm = re.search(r"^fn " + re.escape(name) + r"::\{closure#" + str(k) + r"\}\(_1:[^\n]*\n(.*?)\n}\n", mir, re.M | re.S)
            if not arm:
                raise Unsupported(f"{name}: arm closure #{k} not found")
            polls = re.findall(r"= <Pin<&mut ([^\n]*?)> as FutureExt>::poll_unpin\(", arm.group(1))
            kind = ["response" if "ShellRequest<" in t else "handle" if "oneshot::Receiver<" in t or "Receiver<" in t else "other:" + t[:40] for t in polls]
            if len(kind) != 1:
                raise Unsupported(f"{name}: arm closure #{k} polls {len(kind)} futures")
            arms.append(kind[0])
        out.append((name, arms))
    return out


def native(binp):
    p = subprocess.run([binp], capture_output=True, text=True, timeout=300)
    dev, n = [], 0
    for ln in p.stdout.strip().split("\n"):
        m = re.match(r"(\S+) REAL (.*) \| EXPECT (.*)$", ln)
        if m:
            n += 1
            if m.group(2) != m.group(3):
                dev.append((m.group(1), m.group(2), m.group(3)))
    return dev, n


def run_property(prop, cfg, tier, known, only=None):
    t0 = time.time()
    res = {"exit": EXIT_OK, "findings": [], "queries": 0, "decided": 0, "nontrivial": 0, "obligations": 0, "discharged": 0,
           "solver_s": 0.0, "samples": [], "notes": [], "assumptions": list(CONTRACT_TEXT), "validated_inputs": 0}
    os.makedirs(os.path.join(LOGS, prop), exist_ok=True)
    state = {"code": EXIT_OK}
    witnesses, failed = set(), []

    def inconclusive(msg):
        say("INCONCLUSIVE: " + msg)
        res["notes"].append(msg)
        if state["code"] == EXIT_OK:
            state["code"] = EXIT_INCONCLUSIVE

    ok, binp, out = build_timer_replay(prop)
    if not ok:
        inconclusive("native timer driver does not build against /repo: " + " | ".join(str(out).strip().splitlines()[-4:])[-400:])
        res["exit"] = state["code"]
        return res
    mir, err, s1 = dump_time_light(prop)
    if mir is None:
        inconclusive("MIR dump of crux_time failed: " + err[-400:])
        res["exit"] = state["code"]
        return res
    res["notes"].append(f"non-inlined MIR dump of crux_time {s1:.0f}s ({mir.count(chr(10))} lines)")
    z3 = z3_solver(os.path.join(LOGS, prop, "z3.smt2"))
    cv = cvc5_solver(os.path.join(LOGS, prop, "cvc5.smt2"))
    for s in (z3, cv):
        s.send("(set-option :produce-models true)")
        s.send("(set-logic ALL)")
        for v in ("tid", "cid0", "cid", "rid", "rid2"):
            s.send(f"(declare-const {v} Int)")
            s.send(f"(assert (and (>= {v} 0) (<= {v} 18446744073709551615)))")
        # the only sender on the handle's channel is TimerHandle::clear, which sends the handle's own id - this timer's
        s.send("(assert (= cid tid))")
        s.send("(assert (= cid0 tid))")
        for v, hi in (("tr", 2), ("sel", 3), ("rk", 3), ("clr", 1), ("rk2", 3)):
            s.send(f"(declare-const {v} Int)")
            s.send(f"(assert (and (>= {v} 0) (<= {v} {hi})))")

    def ask(assertion):
        for s in (z3, cv):
            s.send("(push 1)")
            s.send(f"(assert {assertion})")
        a, b = z3.check(), cv.check()
        res["queries"] += 1
        for s in (z3, cv):
            s.send("(pop 1)")
        if (a == "unsat" and b in ("unsat", "unknown", "timeout")) or (b == "unsat" and a in ("unknown", "timeout")):
            return "unsat", (a, b)
        if (a == "sat" and b != "unsat") or (b == "sat" and a != "unsat"):
            return "sat", (a, b)
        return "other", (a, b)

    try:
        for api, reqname, okkind in (("notify_after", "NotifyAfter", 2), ("notify_at", "NotifyAt", 1)):
            unit = "timer_task_" + api
            sample = {"unit": unit, "what": f"the task of Time::{api}, from its first poll to its outcome", "queries": []}
            try:
                fn = one_fn(mir, r"^fn command::<impl at crux_time/src/command\.rs:[\d: ]+>::" + api + r"::\{closure#0\}::\{closure#0\}\(_1: Pin<&mut \{async block", f"{api}'s async block")
                contracts = ContractsT(reqname)
                ex = ExecT(fn, contracts, None)
                env = coroutine_env(fn, mir)
                # the timer's own id lives in the coroutine's captured state
                seg = mir[mir.find(fn.header):mir.find(fn.header) + 8000]
                mt = re.search(r"debug timer_id => \(\(\*(_\d+)\)\.(\d+): ", seg)
                if not mt:
                    raise Unsupported("cannot find the captured timer_id")
                env[f"_8{int(mt.group(1)[1:]):03d}{int(mt.group(2)):02d}"] = vint("tid", "u64")
                paths = ex.run_from(State(env, []), state_targets(fn)[0])
                sample.update({"mir_function": fn.name[-60:], "paths": len(paths), "mir_steps": ex.steps})
                panics = 0
                for i, (pc, outcome, notes) in enumerate(paths):
                    reqs = [n for n in notes if n[0] == "reqid"]
                    others = [n for n in notes if n[0] == "call" and n[1] == "other"]
                    t = "PANIC " + outcome.msg if isinstance(outcome, Panic) else tok(outcome)
                    notify = [r for r in reqs if r[1] == reqname]
                    clears = [r for r in reqs if r[1] == "Clear"]
                    stray = [r for r in reqs if r[1] not in (reqname, "Clear")]
                    base = not others and not stray and len(notify) <= 1 and len(clears) <= 1
                    extra = {"requests": [f"{r[1]}({r[2]})" for r in reqs], "outcome": t[:60]}
                    if isinstance(outcome, Panic):
                        panics += 1
                        # only on a shell answer of the wrong kind / id, or the documented unreachable
                        goal = (f"(and {'true' if base else 'false'} (or (and (= sel 1) (or (not (= rk {okkind})) (not (= rid tid)))) (and (= sel 2) (not (= cid tid))) (= sel 3) "
                                f"(and (= sel 2) (= clr 1) (or (not (= rk2 3)) (not (= rid2 cid))))))")
                        name = "a panic only on a shell answer of the wrong kind or id (documented developer error), never on a well-behaved history"
                    elif t.startswith("Pending"):
                        goal = f"(and {'true' if base and len(notify) == 1 and notify[0][2] == 'tid' else 'false'} (or (= sel 0) (and (= sel 2) (= clr 0))))"
                        name = "pending only while the select or the Clear request is"
                    elif "Cleared" in t and not notify:
                        goal = f"(and {'true' if base and not clears else 'false'} (= tr 0) (= cid0 tid))"
                        name = "cleared before ever requested: Cleared, nothing sent to the shell"
                    elif "Cleared" in t:
                        goal = (f"(and {'true' if base and len(notify) == 1 and notify[0][2] == 'tid' and len(clears) == 1 and clears[0][2] == 'cid' else 'false'} "
                                f"(= sel 2) (= cid tid) (= clr 1) (= rk2 3) (= rid2 cid) (not (and (= tr 0) (= cid0 tid))))")
                        name = "cleared while pending: exactly one Clear request for this timer's id, Cleared once it is answered"
                    elif "Completed" in t:
                        goal = (f"(and {'true' if base and len(notify) == 1 and notify[0][2] == 'tid' and not clears and 'COMPLETED_HANDLE' in t else 'false'} "
                                f"(= sel 1) (= rk {okkind}) (= rid tid) (not (and (= tr 0) (= cid0 tid))))")
                        name = "completed only on the shell's answer for this timer; no Clear request"
                    else:
                        goal, name = "false", f"unexpected outcome {t[:40]}"
                    pcs = "(and true " + " ".join(pc) + ")"
                    r, ab = ask(pcs)
                    if r == "sat":
                        witnesses.add(f"{unit}: {name[:70]}")
                    res["obligations"] += 1
                    r2, ab2 = ask(f"(and {pcs} (not {goal}))")
                    q = {"obligation": name, "path_feasible": r, "z3": ab2[0], "cvc5": ab2[1]}
                    q.update(extra)
                    sample["queries"].append(q)
                    if r2 == "unsat" or (r2 == "sat" and r == "unsat"):
                        res["decided"] += 1
                        res["discharged"] += 1
                    elif r2 == "sat":
                        res["decided"] += 1
                        failed.append(f"{unit}: {name}")
                    else:
                        inconclusive(f"{unit}: solver answered {ab2}")
                sample["panic_paths"] = panics
            except (Unsupported, KeyError, IndexError, AttributeError, ValueError, TypeError) as u:
                failed.append(f"{unit}: not in the shape the encoding knows ({type(u).__name__}: {str(u)[:120]})")
                sample["encoder_gap"] = f"{type(u).__name__}: {u}"
            res["samples"].append(sample)
            say(f"  [{unit:>24}] paths={sample.get('paths')} obligations={len(sample['queries'])}")

        # ---- which arm the biased select polls first (the shell's answer must win over the handle)
        unit = "select_prefers_response"
        sample = {"unit": unit, "what": "the array of arm pollers the select_biased! expansion builds, traced to what each arm polls", "queries": []}
        try:
            sels = select_arm_order(mir)
            if len(sels) < 1:
                raise Unsupported("no select poll closure with a two-arm array in crux_time's command module")
            for name, arms in sels:
                res["obligations"] += 1
                res["queries"] += 1
                res["decided"] += 1
                okk = arms == ["response", "handle"]
                sample["queries"].append({"obligation": "the shell's answer is polled before the handle's channel", "select": name[-60:], "arms": arms, "holds": okk})
                if okk:
                    res["discharged"] += 1
                    witnesses.add(f"{unit}: {name[-50:]} polls {arms}")
                else:
                    failed.append(f"{unit}: {name[-60:]} polls its arms in the order {arms}; a fired timer whose handle is then cleared must report Completed and send no Clear")
        except Unsupported as u:
            failed.append(f"{unit}: not in the shape the encoding knows ({str(u)[:140]})")
            sample["encoder_gap"] = str(u)
        res["samples"].append(sample)
        say(f"  [{unit:>24}] selects={len(sample['queries'])}")

        dev, n = native(binp)
        res["validated_inputs"] = n
        res["notes"].append(f"native timer scenarios: {n}, deviations: {len(dev)}")
        if n < 6:
            inconclusive(f"native timer driver produced only {n} scenarios")
        if failed:
            if dev:
                os.makedirs(os.path.join(REPLAYS, prop), exist_ok=True)
                rp = os.path.join(REPLAYS, prop, f"timer-{dev[0][0]}.json")
                json.dump({"property": prop, "engine": "mir", "module": "c18m", "scenario": dev[0][0], "real": dev[0][1], "expected": dev[0][2], "obligations": failed[:4]}, open(rp, "w"), indent=1)
                say(f"VIOLATION property={prop} replay={rp}")
                say(f"  {failed[0][:200]}; scenario {dev[0][0]}: the property demands `{dev[0][2]}`, real code -> `{dev[0][1]}`")
                res["findings"].append({"known": False, "unit": "timer_task", "desc": failed[0][:120], "replay": rp})
                state["code"] = EXIT_VIOLATION
            else:
                inconclusive(f"{failed[0][:200]} does not hold on the MIR, but none of the {n} native scenarios deviates: encoder gap or a change the scenarios do not expose")
        elif dev and state["code"] == EXIT_OK:
            inconclusive(f"scenario {dev[0][0]} deviates natively (`{dev[0][1]}` vs `{dev[0][2]}`) although every obligation was discharged")
    finally:
        errs = z3.errors + cv.errors
        res["solver_s"] += z3.time + cv.time
        z3.close()
        cv.close()
        if errs:
            inconclusive("solver error output: " + errs[0][:200])
    res["nontrivial"] = len(witnesses)
    res["witnesses"] = sorted(witnesses)
    res["exit"] = state["code"]
    res["wall"] = time.time() - t0
    return res


def replay_file(path):
    rec = json.load(open(path))
    ok, binp, out = build_timer_replay(rec["property"])
    if not ok:
        say("native timer driver does not build")
        return EXIT_INCONCLUSIVE
    dev, n = native(binp)
    hit = [d for d in dev if d[0] == rec["scenario"]]
    say(f"scenario {rec['scenario']}: " + (f"real `{hit[0][1]}` vs expected `{hit[0][2]}`" if hit else "no deviation now"))
    return EXIT_VIOLATION if hit else EXIT_OK
