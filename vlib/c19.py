"""C19 obligations: data abstraction, meaning functions and goals for every crux_time conversion.

Abstraction of the types (all scalars are mathematical integers constrained to their machine range):
  wire Duration        [nanos:u64]                       meaning nanos ns
  wire Instant         [seconds:u64, nanos:u32]          valid iff nanos < 1e9; meaning seconds*1e9+nanos
  std Duration         [secs:u64, nanos:u32 < 1e9]       meaning secs*1e9+nanos
  std SystemTime       [tv_sec:i64, tv_nsec:u32 < 1e9]   meaning tv_sec*1e9+tv_nsec (unix epoch)
  chrono TimeDelta     [secs:i64, nanos:i32 in 0..1e9]   + MIN/MAX bounds; meaning secs*1e9+nanos
  chrono DateTime<Utc> [[days:i32, [sod:u32 < 86400, frac:u32 < 2e9]], Utc]
                       leap-second representation frac >= 1e9 only with sod%60 == 59;
                       meaning ((days-719163)*86400+sod)*1e9+frac for frac < 1e9; a leap-second value
                       has no wire Instant (valid_in false)
Goal for a conversion f: A -> B with exact meaning [[.]]:
  a path that returns a value (Ok/Some/plain):  input valid  AND  [[in]] in range(B)  AND  [[out]] = [[in]]  AND  out valid   (O1 exact + O2 rejects what cannot be represented)
  a path that rejects (Err / panic):            NOT (input valid AND [[in]] in range(B))                                       (O3 no over-rejection)
  a path that ends in UB/unreachable:           never feasible
"""
from .contracts import Consts
from .mir import in_range, lit, vagg, vint

NPS = 1000000000
U64MAX = (1 << 64) - 1
I64MAX = (1 << 63) - 1


def rng(name, ty):
    return in_range(name, ty)


def _dur_in(p):
    return vagg([vint(f"{p}nanos", "u64")], name="Duration"), [(f"{p}nanos", "u64")], []


def _inst_in(p):
    return (vagg([vint(f"{p}seconds", "u64"), vint(f"{p}nanos", "u32")], name="Instant"),
            [(f"{p}seconds", "u64"), (f"{p}nanos", "u32")], [])


def _std_in(p):
    return (vagg([vint(f"{p}secs", "u64"), vint(f"{p}nanos", "u32")], name="std::time::Duration"),
            [(f"{p}secs", "u64"), (f"{p}nanos", "u32")], [f"(< {p}nanos {NPS})"])


def _st_in(p):
    return (vagg([vint(f"{p}tv_sec", "i64"), vint(f"{p}tv_nsec", "u32")], name="SystemTime"),
            [(f"{p}tv_sec", "i64"), (f"{p}tv_nsec", "u32")], [f"(< {p}tv_nsec {NPS})"])


def _td_in(p):
    C = Consts
    s, n = f"{p}secs", f"{p}nanos"
    inv = [f"(>= {n} 0)", f"(< {n} {NPS})", f"(>= {s} {lit(C.TD_MIN_SECS)})", f"(<= {s} {lit(C.TD_MAX_SECS)})",
           f"(=> (= {s} {lit(C.TD_MAX_SECS)}) (<= {n} {C.TD_MAX_NANOS}))",
           f"(=> (= {s} {lit(C.TD_MIN_SECS)}) (>= {n} {C.TD_MIN_NANOS}))"]
    return vagg([vint(s, "i64"), vint(n, "i32")], name="TimeDelta"), [(s, "i64"), (n, "i32")], inv


def _dt_in(p):
    C = Consts
    d, s, f = f"{p}days", f"{p}sod", f"{p}frac"
    inv = [f"(>= {d} {lit(C.MIN_DAYS)})", f"(<= {d} {lit(C.MAX_DAYS)})", f"(< {s} 86400)", f"(< {f} {2 * NPS})",
           f"(=> (>= {f} {NPS}) (= (mod {s} 60) 59))"]
    v = vagg([vagg([vint(d, "i32"), vagg([vint(s, "u32"), vint(f, "u32")], name="NaiveTime")], name="NaiveDateTime"),
              vagg([], name="Utc")], name="DateTime")
    return v, [(d, "i32"), (s, "u32"), (f, "u32")], inv


def m_pair(a, b):
    return f"(+ (* {a} {NPS}) {b})"


def dt_meaning(d, s, f):
    return f"(+ (* (+ (* (- {d} 719163) 86400) {s}) {NPS}) {f})"


# ---- output readers: Val -> (meaning term, valid term, flat list of output terms for replay comparison)
def _need_ints(v, n):
    from .mir import Unsupported
    if v.kind != "agg" or len(v.fields) < n or any(f.kind != "int" for f in v.fields[:n]):
        raise Unsupported(f"returned value is not made of interpreted integers: {v}")


def out_dur(v):
    _need_ints(v, 1)
    return v.fields[0].term, rng(v.fields[0].term, "u64"), [v.fields[0].term]


def out_inst(v):
    _need_ints(v, 2)
    s, n = v.fields[0].term, v.fields[1].term
    return m_pair(s, n), f"(and {rng(s, 'u64')} (>= {n} 0) (< {n} {NPS}))", [s, n]


def out_std(v):
    _need_ints(v, 2)
    s, n = v.fields[0].term, v.fields[1].term
    return m_pair(s, n), f"(and {rng(s, 'u64')} (>= {n} 0) (< {n} {NPS}))", [s, n]


def out_st(v):
    _need_ints(v, 2)
    s, n = v.fields[0].term, v.fields[1].term
    return m_pair(s, n), f"(and {rng(s, 'i64')} (>= {n} 0) (< {n} {NPS}))", [s, n]


def out_td(v):
    _need_ints(v, 2)
    C = Consts
    s, n = v.fields[0].term, v.fields[1].term
    valid = (f"(and (>= {n} 0) (< {n} {NPS}) (>= {s} {lit(C.TD_MIN_SECS)}) (<= {s} {lit(C.TD_MAX_SECS)}) "
             f"(=> (= {s} {lit(C.TD_MAX_SECS)}) (<= {n} {C.TD_MAX_NANOS})) (=> (= {s} {lit(C.TD_MIN_SECS)}) (>= {n} {C.TD_MIN_NANOS})))")
    return m_pair(s, n), valid, [s, n]


def out_dt(v):
    C = Consts
    ndt = v.fields[0]
    d, s, f = ndt.fields[0].term, ndt.fields[1].fields[0].term, ndt.fields[1].fields[1].term
    # a leap-second result (frac >= 1e9) is not the exact image of any wire Instant
    valid = f"(and (>= {d} {lit(C.MIN_DAYS)}) (<= {d} {lit(C.MAX_DAYS)}) (>= {s} 0) (< {s} 86400) (>= {f} 0) (< {f} {NPS}))"
    return dt_meaning(d, s, f), valid, [d, s, f]


def td_range(m):
    C = Consts
    lo = C.TD_MIN_SECS * NPS + C.TD_MIN_NANOS
    hi = C.TD_MAX_SECS * NPS + C.TD_MAX_NANOS
    return f"(and (>= {m} {lit(lo)}) (<= {m} {lit(hi)}))"


def dt_range(m):
    C = Consts
    lo = (C.MIN_DAYS - 719163) * 86400 * NPS
    hi = ((C.MAX_DAYS - 719163) * 86400 + 86399) * NPS + NPS - 1
    return f"(and (>= {m} {lit(lo)}) (<= {m} {lit(hi)}))"


def conversions():
    """name -> spec.  sig: regex on the MIR function header (independent of source line numbers)."""
    p = "in_"
    S = {}

    def add(name, sig, inputs, valid_in, meaning_in, range_b, reader, result=None, regions=None, replay_args=None, what=""):
        S[name] = dict(name=name, sig=sig, inputs=inputs, valid_in=valid_in, meaning_in=meaning_in, range_b=range_b,
                       reader=reader, result=result, regions=regions or {}, what=what)

    u64 = lambda m: f"(and (>= {m} 0) (<= {m} {U64MAX}))"  # noqa: E731
    add("dur_new", r"fn .*::new\(_1: u64\) -> (protocol::)?duration::Duration \{", [("scalar", f"{p}nanos", "u64")],
        "true", f"{p}nanos", u64, out_dur, what="Duration::new(nanos)")
    add("dur_from_millis", r"fn .*::from_millis\(_1: u64\) -> (protocol::)?duration::Duration \{", [("scalar", f"{p}millis", "u64")],
        "true", f"(* {p}millis 1000000)", u64, out_dur, what="Duration::from_millis")
    add("dur_from_secs", r"fn .*::from_secs\(_1: u64\) -> (protocol::)?duration::Duration \{", [("scalar", f"{p}secs", "u64")],
        "true", f"(* {p}secs {NPS})", u64, out_dur, what="Duration::from_secs")
    add("std_to_dur", r"fn .*::from\(_1: std::time::Duration\) -> (protocol::)?duration::Duration \{", [("struct", _std_in(p))],
        "true", m_pair(f"{p}secs", f"{p}nanos"), u64, out_dur, what="From<std::time::Duration> for Duration")
    add("dur_to_std", r"fn .*::from\(_1: (protocol::)?duration::Duration\) -> std::time::Duration \{", [("struct", _dur_in(p))],
        "true", f"{p}nanos", lambda m: "true", out_std, what="From<Duration> for std::time::Duration")
    add("inst_new", r"fn .*::new\(_1: u64, _2: u32\) -> (protocol::)?instant::Instant \{",
        [("scalar", f"{p}seconds", "u64"), ("scalar", f"{p}nanos", "u32")],
        f"(< {p}nanos {NPS})", m_pair(f"{p}seconds", f"{p}nanos"), lambda m: "true", out_inst, what="Instant::new(seconds, nanos)")
    add("st_to_inst", r"fn .*::from\(_1: SystemTime\) -> (protocol::)?instant::Instant \{", [("struct", _st_in(p))],
        "true", m_pair(f"{p}tv_sec", f"{p}tv_nsec"), lambda m: f"(>= {m} 0)", out_inst, what="From<SystemTime> for Instant")
    add("inst_to_st", r"fn .*::from\(_1: (protocol::)?instant::Instant\) -> SystemTime \{", [("struct", _inst_in(p))],
        f"(< {p}nanos {NPS})", m_pair(f"{p}seconds", f"{p}nanos"), lambda m: f"(<= {p}seconds {I64MAX})", out_st,
        regions={"instant-invalid-nanos": f"(>= {p}nanos {NPS})"}, what="From<Instant> for SystemTime")
    add("td_to_dur", r"fn .*::try_from\(_1: TimeDelta\) -> Result<(protocol::)?duration::Duration, TimeError> \{", [("struct", _td_in(p))],
        "true", m_pair(f"{p}secs", f"{p}nanos"), u64, out_dur, result="Result", what="TryFrom<TimeDelta> for Duration")
    add("dur_to_td", r"fn .*::try_from\(_1: (protocol::)?duration::Duration\) -> Result<TimeDelta, TimeError> \{", [("struct", _dur_in(p))],
        "true", f"{p}nanos", td_range, out_td, result="Result", what="TryFrom<Duration> for TimeDelta")
    add("inst_to_dt", r"fn .*::try_from\(_1: (protocol::)?instant::Instant\) -> Result<DateTime<Utc>, TimeError> \{", [("struct", _inst_in(p))],
        f"(< {p}nanos {NPS})", m_pair(f"{p}seconds", f"{p}nanos"), dt_range, out_dt, result="Result",
        regions={"instant-invalid-nanos": f"(>= {p}nanos {NPS})"}, what="TryFrom<Instant> for DateTime<Utc>")
    add("dt_to_inst", r"fn .*::try_from\(_1: DateTime<Utc>\) -> Result<(protocol::)?instant::Instant, TimeError> \{", [("struct", _dt_in(p))],
        f"(< {p}frac {NPS})", dt_meaning(f"{p}days", f"{p}sod", f"{p}frac"), lambda m: f"(and (>= {m} 0) (<= {m} {U64MAX * NPS + NPS - 1}))",
        out_inst, result="Result", what="TryFrom<DateTime<Utc>> for Instant")
    return S


def boundary_inputs(name, seed=0):
    """concrete inputs for translator/contract validation: boundaries, the repo's own test inputs, and
    pseudo-random full-width values drawn from VERIF_SEED"""
    import random
    out = _boundary_inputs(name)
    rnd = random.Random(f"{seed}-{name}")
    C = Consts
    def u(bits):
        # mix of magnitudes: uniform over bit lengths, then uniform below that
        return rnd.getrandbits(rnd.randint(1, bits))
    extra = []
    for _ in range(150):
        if name in ("dur_new", "dur_from_millis", "dur_from_secs", "dur_to_std", "dur_to_td"):
            extra.append([u(64)])
        elif name == "std_to_dur":
            extra.append([u(64), rnd.randrange(NPS)])
        elif name in ("inst_new", "inst_to_st", "inst_to_dt"):
            extra.append([u(64), rnd.choice([rnd.randrange(NPS), u(32)])])
        elif name == "st_to_inst":
            extra.append([rnd.choice([1, 1, 1, -1]) * u(62), rnd.randrange(NPS)])
        elif name == "td_to_dur":
            extra.append([rnd.choice([1, -1]) * min(u(63), C.TD_MAX_SECS - 1), rnd.randrange(NPS)])
        elif name == "dt_to_inst":
            sod = rnd.randrange(86400)
            frac = rnd.randrange(NPS) if (sod % 60 != 59 or rnd.random() < 0.5) else rnd.randrange(NPS, 2 * NPS)
            extra.append([rnd.randint(C.MIN_DAYS, C.MAX_DAYS), sod, frac])
    return out + extra


def _boundary_inputs(name):
    """boundaries + the repo's own test inputs"""
    C = Consts
    big = [0, 1, 999, 1000, NPS - 1, NPS, NPS + 1, 1_000_000_000 * 1_000_000_000, I64MAX - 1, I64MAX, I64MAX + 1, U64MAX - 1, U64MAX,
           U64MAX // NPS, U64MAX // NPS + 1, U64MAX // 1000000, U64MAX // 1000000 + 1, 18446744073, 18446744074, 1 << 32, (1 << 32) - 1]
    nan = [0, 1, 10, NPS - 1]
    nan_bad = [NPS, NPS + 1, 2 * NPS - 1, 2 * NPS, (1 << 32) - 1, 1500000000]
    out = []
    if name in ("dur_new", "dur_from_millis", "dur_from_secs", "dur_to_std", "dur_to_td"):
        out = [[v] for v in big]
    elif name == "std_to_dur":
        out = [[s, n] for s in big for n in nan]
    elif name in ("inst_new", "inst_to_st"):
        out = [[s, n] for s in big for n in nan + nan_bad]
    elif name == "inst_to_dt":
        secs = big + [59, 60, 119, 86399, 86400, (C.MAX_DAYS - 719163) * 86400 + 86399, (C.MAX_DAYS - 719163) * 86400 + 86400, 8210266876799, 8210266876800]
        out = [[s, n] for s in secs for n in nan + nan_bad]
    elif name == "st_to_inst":
        out = [[s, n] for s in big + [-1, -2, -1000000000] if s <= I64MAX for n in nan]
    elif name == "td_to_dur":
        secs = [0, 1, -1, 9223372036, 9223372037, -9223372036, -9223372037, 18446744073, 18446744074, C.TD_MAX_SECS, C.TD_MIN_SECS, C.TD_MAX_SECS - 1, C.TD_MIN_SECS + 1]
        out = [[s, n] for s in secs for n in [0, 1, 709551615, 709551616, 854775807, 854775808, NPS - 1, 145224192, 145224193]]
    elif name == "dt_to_inst":
        days = [719163, 719162, 719164, 0, 1, C.MIN_DAYS, C.MAX_DAYS, 730692, 719163 + 11574]
        out = [[d, s, f] for d in days for s in [0, 59, 60, 86399, 46 * 60 + 40 + 3600] for f in [0, 10, NPS - 1, NPS, 1500000000, 2 * NPS - 1]]
    return out
