"""Shared plumbing for /verif/check: paths, subprocess with caps, evidence, known findings."""
import json
import os
import re
import resource
import subprocess
import sys
import time

VERIF = os.path.dirname(os.path.dirname(os.path.abspath(__file__)))
REPO = os.environ.get("VERIF_REPO", "/repo")
TARGET = os.environ.get("VERIF_TARGET", os.path.join(VERIF, ".target"))
# VERIF_OUT redirects everything a run writes (used by seeded/run_matrix.py so that runs against
# seeded changes never touch the evidence of the real tree)
_OUT = os.environ.get("VERIF_OUT", VERIF)
LOGS = os.path.join(_OUT, "logs")
REPLAYS = os.path.join(_OUT, "replays")
EVIDENCE = os.path.join(_OUT, "evidence")
KNOWN = os.path.join(VERIF, "known_findings.txt")
STABLE = "stable-x86_64-unknown-linux-gnu"
NIGHTLY = "nightly-x86_64-unknown-linux-gnu"

EXIT_OK, EXIT_VIOLATION, EXIT_INCONCLUSIVE = 0, 1, 2


def env_offline(extra=None):
    env = dict(os.environ)
    env["CARGO_NET_OFFLINE"] = "true"
    env.setdefault("CARGO_TERM_COLOR", "never")
    if extra:
        env.update(extra)
    return env


def _limits(mem_gb):
    def f():
        if mem_gb:
            b = int(mem_gb * (1 << 30))
            resource.setrlimit(resource.RLIMIT_AS, (b, b))
        os.setsid()
    return f


def run(cmd, cwd=None, env=None, timeout=None, mem_gb=None, log=None):
    """Run cmd; returns (rc, output, wall_s, timed_out). Output also written to `log`."""
    t0 = time.time()
    timed_out = False
    p = subprocess.Popen(cmd, cwd=cwd, env=env or env_offline(), stdout=subprocess.PIPE,
                         stderr=subprocess.STDOUT, text=True, errors="replace",
                         preexec_fn=_limits(mem_gb))
    try:
        out, _ = p.communicate(timeout=timeout)
    except subprocess.TimeoutExpired:
        timed_out = True
        try:
            os.killpg(p.pid, 9)
        except ProcessLookupError:
            pass
        out, _ = p.communicate()
    wall = time.time() - t0
    if log:
        os.makedirs(os.path.dirname(log), exist_ok=True)
        with open(log, "w") as f:
            f.write("$ " + " ".join(cmd) + "\n" + out)
            f.write(f"\n[rc={p.returncode} wall={wall:.1f}s timed_out={timed_out}]\n")
    return p.returncode, out, wall, timed_out


def repo_head():
    try:
        rc, out, _, _ = run(["git", "-C", REPO, "rev-parse", "--short", "HEAD"])
        rc2, dirty, _, _ = run(["git", "-C", REPO, "status", "--porcelain", "--untracked-files=no"])
        return out.strip() + ("+dirty" if dirty.strip() else "")
    except Exception:  # noqa
        return "unknown"


# ---------------------------------------------------------------- known findings
def load_known():
    """known_findings.txt lines:
         finding: property=<id> key=<harness-or-obligation>|<role substring of the failing assertion> :: <what fails>
         fixed: property=<id> <commit> <what failed>
       Only `finding:` lines suppress anything."""
    out = []
    if not os.path.exists(KNOWN):
        return out
    for line in open(KNOWN):
        line = line.strip()
        m = re.match(r"finding:\s+property=(\S+)\s+key=(\S+?)\|(.*?)\s+::\s+(.*)$", line)
        if m:
            out.append({"property": m.group(1), "unit": m.group(2), "role": m.group(3), "what": m.group(4)})
    return out


def match_known(known, prop, unit, desc):
    for k in known:
        if k["property"] == prop and k["unit"] == unit and k["role"] in desc:
            return k
    return None


# ---------------------------------------------------------------- evidence
def write_evidence(prop, tier, seed, coverage, assumptions, wall, violations, extra=None, partial=False):
    os.makedirs(EVIDENCE, exist_ok=True)
    ev = {
        "property_id": prop,
        "tier": tier,
        "seed": seed,
        "level": "model_checking",
        "coverage": coverage,
        "assumptions": assumptions,
        "wall_s": round(wall, 1),
        "violations": violations,
    }
    if extra:
        ev.update(extra)
    # a debugging run restricted with --only never replaces the property's evidence file
    path = os.path.join(EVIDENCE, f"{prop}.partial.json" if partial else f"{prop}.json")
    tmp = path + ".tmp"
    with open(tmp, "w") as f:
        json.dump(ev, f, indent=1)
        f.write("\n")
    os.replace(tmp, path)
    return path


def say(*a):
    print(*a, flush=True)


def die_inconclusive(msg):
    say(f"INCONCLUSIVE: {msg}")
    sys.exit(EXIT_INCONCLUSIVE)
