"""Engine M, part 2: contracts for callees rustc did not inline into the crux_time conversions.

Every contract is the *documented* behaviour of a std / chrono function over the abstraction used by
the encoder (see c19.py for the data abstraction).  They are part of the trusted base and are
validated on every run by pushing boundary values through both the real functions (native replay
binary) and the encoding.  An unknown callee makes the run inconclusive.
"""
import re

from .mir import Panic, Unsupported, Val, in_range, ty_range, vagg, vbool, venum, vint, wrap

NPS = 1000000000


class Consts:
    # filled from the native replay binary on every run (`time_replay consts`)
    MIN_DAYS = None  # NaiveDate::MIN.num_days_from_ce()
    MAX_DAYS = None
    TD_MIN_SECS = None  # TimeDelta::MIN as (secs, nanos)
    TD_MIN_NANOS = None
    TD_MAX_SECS = None
    TD_MAX_NANOS = None


def deref(v):
    return v.target if v.kind == "ref" else v


def is_epoch(v):
    v = deref(v)
    return v.kind == "agg" and v.name == "SystemTime" and v.fields[0].term == "0" and v.fields[1].term == "0"


class Contracts:
    def __init__(self):
        self.used = set()

    def call(self, ex, st, callee, args):
        c = re.sub(r"\s+", " ", callee)
        key = None
        for pat, fn in TABLE:
            if re.fullmatch(pat, c):
                key = pat
                self.used.add(c)
                return fn(ex, st, args)
        raise Unsupported(f"no contract for callee `{callee}` (in {ex.fn.name})")


def c_panic(msgidx=None, default="panic"):
    def f(ex, st, args):
        msg = default
        if msgidx is not None and len(args) > msgidx and args[msgidx].kind == "opaque":
            msg = args[msgidx].text.strip('"')
        return [("true", Panic(msg))]
    return f


def _generic_ty(callee):
    m = re.search(r"::<(\w+)>$", callee)
    return m.group(1) if m else None


def c_int_intrinsic(kind):
    """std::intrinsics::{saturating,wrapping,unchecked}_{add,sub,mul}::<T>"""
    def f(ex, st, args, callee=None):
        a, b = args[0], args[1]
        ty = a.ty
        op = {"add": "+", "sub": "-", "mul": "*"}[kind.split("_")[1]]
        exact = f"({op} {a.term} {b.term})"
        lo, hi = ty_range(ty)
        if kind.startswith("saturating"):
            return [("true", vint(f"(ite (> {exact} {lit(hi)}) {lit(hi)} (ite (< {exact} {lit(lo)}) {lit(lo)} {exact}))", ty))]
        if kind.startswith("wrapping"):
            return [("true", vint(wrap(exact, ty), ty))]
        st.notes.append(("ub_if_not", in_range(exact, ty), f"{kind} overflow"))
        return [("true", vint(exact, ty))]
    return f


def c_cold_path(ex, st, args):
    return [("true", vagg([]))]


def td_fields(v):
    v = deref(v)
    return v.fields[0], v.fields[1]


def c_td_num_nanoseconds(ex, st, args):
    secs, nanos = td_fields(args[0])
    total = f"(+ (* {secs.term} {NPS}) {nanos.term})"
    ok = in_range(total, "i64")
    return [(ok, venum("Option", "Some", [vint(total, "i64")])), (f"(not {ok})", venum("Option", "None"))]


def c_td_num_seconds(ex, st, args):
    secs, nanos = td_fields(args[0])
    return [("true", vint(f"(ite (and (< {secs.term} 0) (> {nanos.term} 0)) (+ {secs.term} 1) {secs.term})", "i64"))]


def c_td_subsec_nanos(ex, st, args):
    secs, nanos = td_fields(args[0])
    return [("true", vint(f"(ite (and (< {secs.term} 0) (> {nanos.term} 0)) (- {nanos.term} {NPS}) {nanos.term})", "i32"))]


def c_td_new(ex, st, args):
    secs, nanos = args[0], args[1]
    C = Consts
    bad = (f"(or (< {secs.term} {lit(C.TD_MIN_SECS)}) (> {secs.term} {lit(C.TD_MAX_SECS)}) (>= {nanos.term} {NPS}) "
           f"(and (= {secs.term} {lit(C.TD_MAX_SECS)}) (> {nanos.term} {C.TD_MAX_NANOS})) "
           f"(and (= {secs.term} {lit(C.TD_MIN_SECS)}) (< {nanos.term} {C.TD_MIN_NANOS})))")
    return [(f"(not {bad})", venum("Option", "Some", [vagg([vint(secs.term, "i64"), vint(nanos.term, "i32")], name="TimeDelta")])),
            (bad, venum("Option", "None"))]


def c_td_nanoseconds(ex, st, args):
    n = args[0]
    return [("true", vagg([vint(f"(div {n.term} {NPS})", "i64"), vint(f"(mod {n.term} {NPS})", "i32")], name="TimeDelta"))]


def lit(v):
    return str(v) if v >= 0 else f"(- {-v})"


def c_nd_from_days(ex, st, args):
    d = args[0]
    ok = f"(and (>= {d.term} {lit(Consts.MIN_DAYS)}) (<= {d.term} {lit(Consts.MAX_DAYS)}))"
    return [(ok, venum("Option", "Some", [vint(d.term, "i32")])), (f"(not {ok})", venum("Option", "None"))]


def c_nd_num_days(ex, st, args):
    return [("true", vint(deref(args[0]).term, "i32"))]


def c_and_utc(ex, st, args):
    return [("true", vagg([deref(args[0]), vagg([], name="Utc")], name="DateTime"))]


def dt_parts(v):
    v = deref(v)
    ndt = v.fields[0]
    return ndt.fields[0], ndt.fields[1].fields[0], ndt.fields[1].fields[1]


def c_dt_timestamp(ex, st, args):
    days, secs, frac = dt_parts(args[0])
    return [("true", vint(f"(+ (* (- {days.term} 719163) 86400) {secs.term})", "i64"))]


def c_dt_subsec(ex, st, args):
    days, secs, frac = dt_parts(args[0])
    return [("true", vint(frac.term, "u32"))]


def c_dt_from_timestamp(ex, st, args):
    s, n = args[0], args[1]
    days = f"(+ (div {s.term} 86400) 719163)"
    sod = f"(mod {s.term} 86400)"
    ok = (f"(and (>= {days} {lit(Consts.MIN_DAYS)}) (<= {days} {lit(Consts.MAX_DAYS)}) "
          f"(or (< {n.term} {NPS}) (and (< {n.term} {2 * NPS}) (= (mod {sod} 60) 59))))")
    dt = vagg([vagg([vint(days, "i32"), vagg([vint(sod, "u32"), vint(n.term, "u32")], name="NaiveTime")], name="NaiveDateTime"),
               vagg([], name="Utc")], name="DateTime")
    return [(ok, venum("Option", "Some", [dt])), (f"(not {ok})", venum("Option", "None"))]


def c_st_duration_since(ex, st, args):
    if not is_epoch(args[1]):
        raise Unsupported("SystemTime::duration_since with an `earlier` other than UNIX_EPOCH")
    t = deref(args[0])
    sec, nsec = t.fields
    return [(f"(>= {sec.term} 0)", venum("Result", "Ok", [vagg([vint(sec.term, "u64"), vint(nsec.term, "u32")], name="std::time::Duration")])),
            (f"(< {sec.term} 0)", venum("Result", "Err", [Val("opaque", text="SystemTimeError")]))]


def c_st_add(ex, st, args):
    if not is_epoch(args[0]):
        raise Unsupported("SystemTime + Duration with a left operand other than UNIX_EPOCH")
    d = deref(args[1])
    secs, nanos = d.fields
    ok = f"(<= {secs.term} 9223372036854775807)"
    return [(ok, vagg([vint(secs.term, "i64"), vint(nanos.term, "u32")], name="SystemTime")),
            (f"(not {ok})", Panic("overflow when adding duration to instant"))]


def c_st_checked_add(ex, st, args):
    if not is_epoch(args[0]):
        raise Unsupported("SystemTime::checked_add with a left operand other than UNIX_EPOCH")
    d = deref(args[1])
    secs, nanos = d.fields
    ok = f"(<= {secs.term} 9223372036854775807)"
    return [(ok, venum("Option", "Some", [vagg([vint(secs.term, "i64"), vint(nanos.term, "u32")], name="SystemTime")])),
            (f"(not {ok})", venum("Option", "None"))]


TABLE = [
    (r"(core::|std::)?option::expect_failed", c_panic(0, "expect failed")),
    (r"(core::|std::)?result::unwrap_failed", c_panic(0, "unwrap failed")),
    (r"(core::|std::)?option::unwrap_failed", c_panic(None, "called `Option::unwrap()` on a `None` value")),
    (r"(core::panicking::|std::rt::)?panic_fmt", c_panic(None, "panic_fmt")),
    (r"(core::panicking::)?panic(_nounwind|_explicit|_display)?", c_panic(0, "panic")),
    (r"(core::panicking::)?panic_const::\w+", c_panic(None, "arithmetic panic")),
    (r"std::intrinsics::cold_path", c_cold_path),
    (r"(std|core)::intrinsics::saturating_add::<\w+>", c_int_intrinsic("saturating_add")),
    (r"(std|core)::intrinsics::saturating_sub::<\w+>", c_int_intrinsic("saturating_sub")),
    (r"(std|core)::intrinsics::wrapping_add::<\w+>", c_int_intrinsic("wrapping_add")),
    (r"(std|core)::intrinsics::wrapping_sub::<\w+>", c_int_intrinsic("wrapping_sub")),
    (r"(std|core)::intrinsics::wrapping_mul::<\w+>", c_int_intrinsic("wrapping_mul")),
    (r"(std|core)::intrinsics::unchecked_add::<\w+>", c_int_intrinsic("unchecked_add")),
    (r"(std|core)::intrinsics::unchecked_sub::<\w+>", c_int_intrinsic("unchecked_sub")),
    (r"(std|core)::intrinsics::unchecked_mul::<\w+>", c_int_intrinsic("unchecked_mul")),
    (r"(chrono::)?TimeDelta::num_nanoseconds", c_td_num_nanoseconds),
    (r"(chrono::)?TimeDelta::num_seconds", c_td_num_seconds),
    (r"(chrono::)?TimeDelta::subsec_nanos", c_td_subsec_nanos),
    (r"(chrono::)?TimeDelta::new", c_td_new),
    (r"(chrono::)?TimeDelta::nanoseconds", c_td_nanoseconds),
    (r"(chrono::)?NaiveDate::from_num_days_from_ce_opt", c_nd_from_days),
    (r"(chrono::)?NaiveDate::num_days_from_ce", c_nd_num_days),
    (r"(chrono::)?NaiveDateTime::and_utc", c_and_utc),
    (r"(chrono::)?DateTime::<(chrono::)?Utc>::from_timestamp", c_dt_from_timestamp),
    (r"(chrono::)?DateTime::<(chrono::)?Utc>::timestamp", c_dt_timestamp),
    (r"(chrono::)?DateTime::<(chrono::)?Utc>::timestamp_subsec_nanos", c_dt_subsec),
    (r"SystemTime::duration_since", c_st_duration_since),
    (r"<SystemTime as Add<std::time::Duration>>::add", c_st_add),
    (r"SystemTime::checked_add", c_st_checked_add),
]

CONTRACT_TEXT = [
    "chrono TimeDelta {secs:i64, nanos:i32 in 0..1e9} means secs*1e9+nanos ns; num_nanoseconds = Some(total) iff total fits i64 (documented); num_seconds/subsec_nanos/new/nanoseconds per chrono 0.4.40 source",
    "chrono NaiveDate abstracted by its day number from CE: from_num_days_from_ce_opt(d) = Some iff MIN_DAYS <= d <= MAX_DAYS (constants read from the real crate on every run), num_days_from_ce is its inverse; calendar arithmetic inside chrono is not encoded",
    "chrono DateTime<Utc> = (day number, second of day u32 < 86400, frac u32 < 2e9 with frac >= 1e9 only when second%60 == 59); timestamp() = (days-719163)*86400+secs, timestamp_subsec_nanos() = frac",
    "std SystemTime (unix) abstracted as (tv_sec:i64, tv_nsec<1e9); duration_since(UNIX_EPOCH) = Ok(exact) iff tv_sec >= 0; UNIX_EPOCH + Duration panics iff secs > i64::MAX, else exact",
    "option::expect_failed / result::unwrap_failed / panic_fmt diverge (outcome Rejected by panic)",
]
