"""Small engine-M units that are plain facts read off the non-inlined MIR of crux_core, each paired with a native
scenario of kani/bridge_replay (`typed-*`) that decides whether a failing fact is a violation:

  all_hosts_children      (C06)  Command::all starts from Command::done() and gives every child a hosting task of its
                                 own (it never adopts a child as the carrier, whose abort flag it would then share)
  then_stream_flat_map    (C07)  RequestBuilder::then_stream flattens with StreamExt::flat_map (holds no waker between
                                 polls) - not flat_map_unordered, whose wrapped waker defeats the eviction rule
"""
import json
import os
import re
import time

from .c05m import dump_core_light
from .c12m import build_bridge_replay, native_scenarios
from .common import EXIT_INCONCLUSIVE, EXIT_OK, EXIT_VIOLATION, LOGS, REPLAYS, say

CONTRACT_TEXT = ["engine M part (facts): call lists read off the non-inlined MIR of the named functions; a failing fact is reported only if the paired native scenario (the real public API) deviates from what the property demands"]


def fn_calls(light, header_re):
    m = re.search(r"^fn " + header_re + r"[^\n]*\n(.*?)\n}\n", light, re.M | re.S)
    if not m:
        return None
    return [c for c in re.findall(r"^\s+_\d+ = ([^\n]*?) -> \[return", m.group(1), re.M)]


def fact_all_hosts_children(light):
    cs = fn_calls(light, r"command::<impl at crux_core/src/command/mod\.rs:[\d: ]+>::all\(")
    if cs is None:
        return False, "Command::all not found"
    def short(c):
        c = re.sub(r"\(.*", "", c)          # drop the argument list
        if c.startswith("<"):
            return c.split(">::")[-1]
        return re.sub(r"::<[^:]*$", "", c).split("::")[-1] if "::<" in c and not c.endswith(">") else re.sub(r"::<.*>$", "", c).split("::")[-1]
    names = []
    for c in cs:
        if "Command::<Effect, Event>::done(" in c:
            names.append("done")
        elif "Command::<Effect, Event>::spawn::<" in c:
            names.append("spawn")
        elif c.startswith("<") and "IntoIterator>::into_iter(" in c:
            names.append("into_iter")
        elif c.startswith("<") and "Iterator>::next(" in c:
            names.append("next")
        else:
            names.append(short(c))
    ok = names == ["done", "into_iter", "next", "spawn"]
    return ok, str(names)


def fact_then_stream_flat_map(light):
    m = re.search(r"^fn builder::<impl at crux_core/src/command/builder\.rs:[\d: ]+>::then_stream::\{closure#0\}\(_1: \{closure@crux_core/src/command/builder\.rs:2\d\d:[^\n]*\n(.*?)\n}\n", light, re.M | re.S)
    if not m:
        return False, "RequestBuilder::then_stream's task closure not found"
    calls = re.findall(r"= ([^\n]*?)\((?:move|copy)", m.group(1))
    flat = [c for c in calls if re.search(r"flat_map|flatten", c)]
    ok = len(flat) == 1 and re.search(r"as StreamExt>::flat_map::<", flat[0]) is not None
    return ok, "; ".join(c[-80:] for c in flat)


UNITS = {
    "all_hosts_children": (fact_all_hosts_children, "typed-all-first-child-abort",
                           "Command::all starts from an empty command and hosts every child in a task of its own (aborting one child through its own handle leaves its siblings alone)"),
    "then_stream_flat_map": (fact_then_stream_flat_map, "typed-then-stream-first-dropped",
                             "a request -> then_stream chain holds no waker between polls (its task is discarded when the shell drops the first request)"),
}


def run_property(prop, cfg, tier, known, only=None):
    t0 = time.time()
    res = {"exit": EXIT_OK, "findings": [], "queries": 0, "decided": 0, "nontrivial": 0, "obligations": 0, "discharged": 0,
           "solver_s": 0.0, "samples": [], "notes": [], "assumptions": list(CONTRACT_TEXT), "validated_inputs": 0}
    os.makedirs(os.path.join(LOGS, prop), exist_ok=True)
    state = {"code": EXIT_OK}

    def inconclusive(msg):
        say("INCONCLUSIVE: " + msg)
        res["notes"].append(msg)
        if state["code"] == EXIT_OK:
            state["code"] = EXIT_INCONCLUSIVE

    ok, binp, out = build_bridge_replay(prop)
    if not ok:
        inconclusive("native driver does not build against /repo: " + " | ".join(str(out).strip().splitlines()[-4:])[-400:])
        res["exit"] = state["code"]
        return res
    light, err, s1 = dump_core_light(prop)
    if light is None:
        inconclusive("MIR dump of crux_core failed: " + err[-400:])
        res["exit"] = state["code"]
        return res
    dev, n = native_scenarios(binp)
    res["validated_inputs"] = n
    witnesses = []
    for unit in cfg.get("facts", []):
        fact, scenario, text = UNITS[unit]
        holds, detail = fact(light)
        res["obligations"] += 1
        res["queries"] += 1
        res["decided"] += 1
        sample = {"unit": unit, "what": text, "queries": [{"obligation": text, "holds": holds, "detail": detail, "paired_native_scenario": scenario}]}
        res["samples"].append(sample)
        hit = [d for d in dev if d[0] == scenario]
        if holds:
            res["discharged"] += 1
            witnesses.append(f"{unit}: holds")
            if hit and state["code"] == EXIT_OK:
                inconclusive(f"{unit} holds on the MIR but scenario {scenario} deviates natively (`{hit[0][1]}` vs `{hit[0][2]}`): the difference lies elsewhere")
        elif hit:
            os.makedirs(os.path.join(REPLAYS, prop), exist_ok=True)
            rp = os.path.join(REPLAYS, prop, f"fact-{scenario}.json")
            json.dump({"property": prop, "engine": "mir", "module": "c12m", "scenario": scenario, "real": hit[0][1], "expected": hit[0][2], "obligations": [unit + ": " + detail[:160]]}, open(rp, "w"), indent=1)
            say(f"VIOLATION property={prop} replay={rp}")
            say(f"  {unit}: {text} does not hold ({detail[:120]}); scenario {scenario}: the property demands `{hit[0][2]}`, real code -> `{hit[0][1]}`")
            res["findings"].append({"known": False, "unit": unit, "desc": text[:100], "replay": rp})
            state["code"] = EXIT_VIOLATION
        else:
            inconclusive(f"{unit}: does not hold on the MIR ({detail[:160]}) but scenario {scenario} does not deviate natively")
        say(f"  [{unit:>22}] holds={holds}")
    res["nontrivial"] = len(witnesses)
    res["witnesses"] = witnesses
    res["exit"] = state["code"]
    res["wall"] = time.time() - t0
    return res
