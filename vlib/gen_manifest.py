#!/usr/bin/env python3
"""Regenerate /verif/MANIFEST.json from vlib/props.py and vlib/na.py."""
import json
import os
import subprocess
import sys

sys.path.insert(0, os.path.dirname(os.path.dirname(os.path.abspath(__file__))))
from vlib.na import NOT_APPLICABLE, PENDING_REASON  # noqa: E402
from vlib.props import PROPS  # noqa: E402

VERIF = os.path.dirname(os.path.dirname(os.path.abspath(__file__)))
ALL = [json.loads(l)["id"] for l in open(os.path.join(VERIF, "properties.jsonl"))]

hooks = subprocess.run(["git", "-C", "/repo", "log", "--format=%H", "--grep=^verif hooks"], capture_output=True,
                       text=True).stdout.split()
fixes = subprocess.run(["git", "-C", "/repo", "log", "--format=%h %s", "--grep=^fix:"], capture_output=True, text=True).stdout.strip().split("\n")

M_OPAQUE = ("symbolic execution of the real functions' MIR (non-inlined dump of /repo on every run; closures and coroutines entered at their start / resume points; callees as opaque tokens or contracts; "
            "loops cut at the head = one inductive step): every CFG path's feasibility and obligation `pc => goal` decided by z3 with cvc5 as cross-check; a failing obligation is reported only if the unit's native "
            "driver (the real public API against hand-written expectations) deviates; a few named units are plain call-list facts read off the same dump (see level_claimed and DESIGN.md, Level)")
OPAQUE_MODULES = {"c16m", "c17m", "c03m", "c05m", "c12m", "c02m", "factsm", "c04m", "c18m", "c11m", "c13m", "c14m"}
TECH = {
    "kani": "bounded model checking of the compiled crux code with Kani 0.68 / CBMC 6.11 (SAT, CaDiCaL): #[kani::proof] harnesses over symbolic inputs, unwinding assertions on, counterexamples replayed natively",
    "mir": "SMT: optimised MIR of the real functions (loop-free kernels) translated to SMT-LIB2 on every run and decided by z3 (cvc5 cross-check), full machine width, counterexamples replayed natively",
    "mixed": "Kani/CBMC bounded model checking of the compiled code (SAT) plus SMT over the MIR of loop-free functions translated to SMT-LIB2 (z3, cvc5 cross-check); counterexamples replayed natively",
}

checks = []
for pid in ALL:
    if pid not in PROPS:
        continue
    c = PROPS[pid]
    checks.append({
        "property_id": pid,
        "quick_cmd": f"./check {pid} --tier quick",
        "thorough_cmd": f"./check {pid} --tier thorough",
        "evidence_file": f"/verif/evidence/{pid}.json",
        "replay_cmd_template": f"./check {pid} --replay {{path}}",
        "engine": {"kani": "K", "mir": "M", "mixed": "M+K"}[c["engine"]],
        "level_claimed": {
            "category": "model_checking",
            "text": c["claim"] + " -- decided for every input within: " + c["bounds"],
            "design_ref": "DESIGN.md section 2, " + pid,
        },
        "level_note": "Trusted base / assumptions: " + "; ".join(c.get("assumptions", [])) + ". Outside the claim: " + "; ".join(c.get("outside", [])),
        "technique": (TECH[c["engine"]] if c.get("module") not in OPAQUE_MODULES else
                      (M_OPAQUE if c["engine"] == "mir" else "Kani/CBMC bounded model checking of the compiled code (SAT, CaDiCaL; unwinding assertions on; counterexamples replayed natively) plus, for the engine-M part: " + M_OPAQUE))
        + ("; Response::new, the command builder's async block (coroutine MIR entered where the awaited value arrives) and decode_body are executed with callees as opaque tokens / contracts, a failing obligation there "
           "being decided by the native driver kani/http_replay" if c.get("module") == "c15" else ""),
    })

na = []
for pid in ALL:
    if pid in PROPS:
        continue
    na.append({"property_id": pid, "reason": NOT_APPLICABLE.get(pid, PENDING_REASON)})

manifest = {
    "version": 1,
    "setup_cmd": "./setup.sh",
    "hooks": {
        "guard": "cargo feature `crux_verif` of crux_core and of crux_kv (off by default; cfg(feature = \"crux_verif\"))",
        "enable": "the harness crates under /verif/kani depend on /repo/crux_core and /repo/crux_kv by path with features = [\"crux_verif\"]",
        "baseline_off_cmd": "cd /repo && RUSTUP_TOOLCHAIN=stable-x86_64-unknown-linux-gnu cargo nextest run --workspace --no-fail-fast --tool-config-file pb:/w/lib/nextest.toml --profile pb --test-threads 8 --offline",
        "source_commits": hooks,
        "add_only": True,
    },
    "engines": [
        {"name": "K", "path": "/verif/kani", "serves_properties": [p for p in ALL if p in PROPS and PROPS[p]["engine"] in ("kani", "mixed")],
         "kind_free_text": "Kani 0.68 / CBMC 6.11 bounded model checking of the real crates via out-of-tree harness crates (path deps on /repo), dependency models patched in for crossbeam-channel and slab"},
        {"name": "M", "path": "/verif/vlib", "serves_properties": [p for p in ALL if p in PROPS and (PROPS[p]["engine"] in ("mir", "mixed") or p == "C19")],
         "kind_free_text": "MIR -> SMT-LIB2 symbolic executor (python: vlib/mir.py and the per-property modules c19, c15, c16m, c17m, c03m, c05m, c12m, c02m, factsm, c04m, c18m, c11m, c13m, c14m) over fresh MIR dumps of /repo's crates (and of the http-types fork), decided by z3 4.8.12 with cvc5 1.0 cross-check; counterexamples replayed through native drivers under /verif/kani/*_replay"},
    ],
    "checks": checks,
    "not_applicable": na,
    "notes": "Unguarded repairs of genuine defects in /repo (fix: commits): " + " | ".join(fixes) + ". Exit 2 from a check means inconclusive (timeout/OOM/encoder gap/non-reproducing counterexample) and is never a pass. Known findings: /verif/known_findings.txt. See DESIGN.md.",
}
json.dump(manifest, open(os.path.join(VERIF, "MANIFEST.json"), "w"), indent=1)
print("checks:", [c["property_id"] for c in checks], "not_applicable:", [n["property_id"] for n in na])
