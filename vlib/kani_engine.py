"""Engine K: Kani/CBMC bounded model checking of the real crates through out-of-tree harness crates.

One `cargo kani --harness H` process per harness (own target dir per worker slot), unwinding
assertions on (Kani default), `-Z stubbing`, `-Z concrete-playback --concrete-playback=print`.
A FAILED harness is only reported after the printed counterexample reproduces natively against
the real dependencies (no models, no stubs) through the crate's `replay` binary.
"""
import concurrent.futures as cf
import json
import os
import queue
import re
import shutil
import time

from .common import (EXIT_INCONCLUSIVE, EXIT_OK, EXIT_VIOLATION, LOGS, REPLAYS, STABLE, TARGET,
                     VERIF, env_offline, match_known, run, say)

KANI_MEM_GB = float(os.environ.get("VERIF_KANI_MEM_GB", "24"))
# the playback run keeps the unsliced formula and the whole trace in memory (kani-driver needs > 16 GB of address space)
KANI_PLAYBACK_MEM_GB = float(os.environ.get("VERIF_KANI_PLAYBACK_MEM_GB", "48"))


def merge(a, b):
    """violation (1) dominates inconclusive (2) dominates ok (0)."""
    if EXIT_VIOLATION in (a, b):
        return EXIT_VIOLATION
    if EXIT_INCONCLUSIVE in (a, b):
        return EXIT_INCONCLUSIVE
    return EXIT_OK


def crate_dir(crate):
    return os.path.join(VERIF, "kani", crate)


def replay_dir(crate):
    # sibling manifest building the same sources against the real dependencies
    return os.path.join(VERIF, "kani", crate.replace("_harness", "_replay"))


def sync_lock(d):
    """Harness crates resolve against /repo's own Cargo.lock (same dependency versions as the real build)."""
    src = os.path.join(os.environ.get("VERIF_REPO", "/repo"), "Cargo.lock")
    dst = os.path.join(d, "Cargo.lock")
    if os.path.exists(src) and not os.path.exists(dst):
        shutil.copy(src, dst)


def build_replay(crate, profile="dev"):
    d = replay_dir(crate)
    sync_lock(d)
    tdir = os.path.join(TARGET, "replay-" + crate)
    cmd = ["cargo", "build", "--offline", "--bin", "replay", "--target-dir", tdir]
    if profile == "release":
        cmd.append("--release")
    rc, out, wall, to = run(cmd, cwd=d, env=env_offline({"RUSTUP_TOOLCHAIN": STABLE}), timeout=900,
                            log=os.path.join(LOGS, f"build-replay-{crate}-{profile}.log"))
    binp = os.path.join(tdir, "release" if profile == "release" else "debug", "replay")
    return (rc == 0 and os.path.exists(binp)), binp, out, wall


def native_tests(crate):
    """Harness self-tests + dependency-model validation, native, real dependencies."""
    d = replay_dir(crate)
    tdir = os.path.join(TARGET, "replay-" + crate)
    rc, out, wall, to = run(["cargo", "test", "--offline", "--lib", "--target-dir", tdir, "--", "--nocapture", "--test-threads=1"], cwd=d,
                            env=env_offline({"RUSTUP_TOOLCHAIN": STABLE}), timeout=900,
                            log=os.path.join(LOGS, f"native-tests-{crate}.log"))
    m = re.search(r"test result: (\w+)\. (\d+) passed; (\d+) failed", out)
    return rc == 0, (int(m.group(2)) if m else 0), out, wall


RE_SUMMARY = re.compile(r"\*\* (\d+) of (\d+) failed(?: \((\d+) (?:unreachable|undetermined)[^)]*\))?")
RE_COVER = re.compile(r"\*\* (\d+) of (\d+) cover properties satisfied")
RE_TIME = re.compile(r"Verification Time: ([0-9.]+)s")
RE_PLAYBACK = re.compile(
    r"/// Check for `([^`]*)`: \"(.*?)\"[ \t]*\n(?:[ \t]*///[^\n]*\n|[ \t]*\n)*[ \t]*#\[test\][ \t]*\nfn (\w+)\(\) \{\s*\n\s*let concrete_vals: Vec<Vec<u8>> = vec!\[(.*?)\n\s*\];",
    re.S)


def parse_kani(out):
    r = {"status": None, "checks_total": 0, "checks_failed": 0, "covers_total": 0, "covers_sat": 0,
         "verif_time_s": None, "failed_checks": [], "playbacks": [], "unsat_covers": []}
    if "VERIFICATION:- SUCCESSFUL" in out:
        r["status"] = "SUCCESSFUL"
    elif "VERIFICATION:- FAILED" in out:
        r["status"] = "FAILED"
    m = RE_SUMMARY.search(out)
    if m:
        r["checks_failed"], r["checks_total"] = int(m.group(1)), int(m.group(2))
    m = RE_COVER.search(out)
    if m:
        r["covers_sat"], r["covers_total"] = int(m.group(1)), int(m.group(2))
    m = RE_TIME.search(out)
    if m:
        r["verif_time_s"] = float(m.group(1))
    # failed checks with location
    for m in re.finditer(r"Failed Checks: (.*?)\n File: \"(.*?)\", line (\d+), in (\S+)", out):
        r["failed_checks"].append({"desc": m.group(1).strip(), "file": m.group(2), "line": int(m.group(3)),
                                   "func": m.group(4)})
    # per-check blocks, to find unsatisfied covers
    # covers are counted per distinct description: a cover inside a const-generic case is
    # instantiated once per case and need only be reachable in one of them
    cov = {}
    for m in re.finditer(r"Check \d+: ([^\n]+)\n\s+- Status: (\w+)\n\s+- Description: \"(.*?)\"\n", out):
        if ".cover." in m.group(1):
            cov[m.group(3)] = cov.get(m.group(3), False) or m.group(2) == "SATISFIED"
    if cov:
        r["covers_total"] = len(cov)
        r["covers_sat"] = sum(1 for v in cov.values() if v)
        r["unsat_covers"] = sorted(k for k, v in cov.items() if not v)
        r["sat_covers"] = sorted(k for k, v in cov.items() if v)
    for m in RE_PLAYBACK.finditer(out):
        kind, desc, test, body = m.groups()
        vals = []
        for vm in re.finditer(r"vec!\[([0-9, ]*)\]", body):
            nums = [int(x) for x in vm.group(1).replace(" ", "").split(",") if x != ""]
            vals.append(nums)
        r["playbacks"].append({"kind": kind, "desc": desc.strip().strip('"'), "vals": vals})
    r["stubs"] = sorted(set(re.sub(r"\s*::\s*", "::", m.strip()) for m in re.findall(r"- Stub: (.+)", out)))
    r["stats"] = {}
    m = re.search(r"(\d+) variables, (\d+) clauses", out)
    if m:
        r["stats"] = {"sat_variables": int(m.group(1)), "sat_clauses": int(m.group(2))}
    return r


def hexvals(vals):
    return ",".join("".join(f"{b:02x}" for b in v) for v in vals)


def kani_cmd(h, tdir, playback):
    cmd = ["cargo", "kani", "--harness", h.get("mod", h["name"].split("_")[0] + "*") + "::" + h["name"], "--exact",
           "--target-dir", tdir, "-Z", "stubbing",
           # dyn calls and, above all, dyn *drops* only fan out to implementers of the trait: without it a
           # change that makes the code drop a boxed closure read from an enum in heap memory (imprecise
           # vtable pointer) sends symex through every drop_glue in the program -> out of memory
           "-Z", "restrict-vtable"]
    if playback:
        # concrete playback needs the unsliced formula (5x the SAT variables here), so it is only
        # switched on for the second run of a harness that FAILED
        cmd += ["-Z", "concrete-playback", "--concrete-playback=print"]
    if h.get("solver"):
        cmd += ["--solver", h["solver"]]
    cmd += h.get("kani_args", [])
    # heap objects allocated with a constant byte size are char[N] objects for CBMC; its default field
    # sensitivity stops at 64 elements, beyond which pointers stored in the object stop being constants
    # for symbolic execution (function pointers then fan out to every address-taken function)
    cmd += ["-Z", "unstable-options", "--cbmc-args", "--max-field-sensitivity-array-size", str(h.get("fs_array", 1024))]
    return cmd


NSLOTS = int(os.environ.get("VERIF_SLOTS", "12"))


def acquire_slot():
    """Target directories are shared by all ./check processes: take the first one nobody holds."""
    import fcntl
    os.makedirs(os.path.join(TARGET, "kani"), exist_ok=True)
    while True:
        for i in range(NSLOTS):
            f = open(os.path.join(TARGET, "kani", f"slot{i}.lock"), "w")
            try:
                fcntl.flock(f, fcntl.LOCK_EX | fcntl.LOCK_NB)
                return i, f
            except OSError:
                f.close()
        time.sleep(2)


def run_harness(slot, crate, h, prop):
    d = crate_dir(crate)
    sync_lock(d)
    slot, slot_lock = acquire_slot()
    try:
        return _run_harness(slot, crate, h, prop, d)
    finally:
        slot_lock.close()


def _run_harness(slot, crate, h, prop, d):
    tdir = os.path.join(TARGET, "kani", f"{crate}-slot{slot}")
    log = os.path.join(LOGS, prop, h["name"] + ("@" + h["solver"] if h.get("solver") else "") + ".log")
    rc, out, wall, timed_out = run(kani_cmd(h, tdir, False), cwd=d, env=env_offline(), timeout=h.get("timeout", 900),
                                   mem_gb=KANI_MEM_GB, log=log)
    res = parse_kani(out)
    res["_playback"] = (h, tdir, d, log)
    res.update({"name": h["name"], "solver": h.get("solver", "cadical"), "wall_s": round(wall, 1), "timed_out": timed_out, "rc": rc, "log": log})
    if timed_out:
        res["verdict"] = "inconclusive"
        res["why"] = f"timeout after {h.get('timeout', 900)}s"
    elif res["status"] == "SUCCESSFUL":
        if res["covers_total"] and res["covers_sat"] == 0:
            res["verdict"] = "inconclusive"
            res["why"] = "vacuity: no reachability witness satisfied: " + "; ".join(res["unsat_covers"])
        elif res["checks_total"] == 0:
            res["verdict"] = "inconclusive"
            res["why"] = "no checks reported"
        else:
            res["verdict"] = "holds"
    elif res["status"] == "FAILED":
        res["verdict"] = "failed"  # to be confirmed by replay
    else:
        res["verdict"] = "inconclusive"
        tail = out.strip().splitlines()[-5:]
        res["why"] = "no verdict (compile error, ICE, OOM or CBMC error): " + " | ".join(tail)[-600:]
    return res


NON_REPLAYABLE = ("dereference failure", "pointer", "memcpy", "memmove", "free ", "double free", "dead object",
                  "deallocated", "misaligned", "unwinding assertion", "recursion unwinding", "is not currently supported",
                  "unsupported", "NaN")


def classify_failed(res):
    """Split failed checks into (assertion-like, unwinding, other)."""
    unw = [c for c in res["failed_checks"] if "unwinding assertion" in c["desc"] or "recursion unwinding" in c["desc"]]
    unsupported = [c for c in res["failed_checks"] if "not currently supported" in c["desc"] or "unsupported" in c["desc"].lower()]
    return unw, unsupported


def confirm_and_report(prop, crate, res, known, findings_out):
    """Replay every counterexample of a FAILED harness natively. Returns exit code contribution."""
    unw, unsupported = classify_failed(res)
    if unw or unsupported:
        res["verdict"] = "inconclusive"
        res["why"] = "bound/encoding problem, not a verdict: " + "; ".join(c["desc"] for c in unw + unsupported)[:400]
        return EXIT_INCONCLUSIVE
    cands = []
    ok_dev, bin_dev, _, _ = build_replay(crate, "dev")
    # Witness extraction, cheap way first: look natively (real dependencies) for values on which the
    # harness trips the *same* assertion the solver reported as FAILED.
    if ok_dev:
        for chk in res["failed_checks"]:
            full = chk["desc"].strip('"')
            # a panic message of the code under test is reported with its format placeholders:
            # search for the literal text before the first placeholder
            needle = full.split("{")[0] if "{" in full else full
            if len(needle) < 6 or any(c["desc"] == full for c in cands):
                continue
            rc_s, out_s, _, _ = run([bin_dev, "--search", res["name"], needle], timeout=300)
            m = re.search(r"FOUND ([0-9a-f,]*) \| (.*)", out_s)
            if m:
                cands.append({"kind": "assertion", "desc": full, "vals": [[int(x, 16)] for x in m.group(1).split(",") if x],
                              "from": "native search guided by the solver's failed check"})
    missing = [c["desc"].strip('"') for c in res["failed_checks"] if not any(k["desc"] == c["desc"].strip('"') for k in cands)]
    if missing and "_playback" in res:
        # the solver's own model, through Kani's concrete playback (second run: unsliced formula, slow)
        h, tdir, d, log = res["_playback"]
        rc2, out2, wall2, to2 = run(kani_cmd(h, tdir, True), cwd=d, env=env_offline(), timeout=2 * h.get("timeout", 900),
                                    mem_gb=KANI_PLAYBACK_MEM_GB, log=log.replace(".log", ".playback.log"))
        res["wall_s"] = round(res.get("wall_s", 0) + wall2, 1)
        for pb in parse_kani(out2)["playbacks"]:
            if pb["kind"] != "cover" and not any(k["desc"] == pb["desc"] for k in cands):
                pb["from"] = "kani concrete playback"
                cands.append(pb)
    res.pop("_playback", None)
    if not cands:
        res["verdict"] = "inconclusive"
        res["why"] = "FAILED without a replayable counterexample: " + "; ".join(c["desc"] for c in res["failed_checks"])[:400]
        return EXIT_INCONCLUSIVE
    ok_rel, bin_rel, _, _ = build_replay(crate, "release")
    if not ok_dev:
        res["verdict"] = "inconclusive"
        res["why"] = "native replay binary does not build"
        return EXIT_INCONCLUSIVE
    code = EXIT_OK
    res["replays"] = []
    for pb in cands:
        hv = hexvals(pb["vals"])
        rc_d, out_d, _, _ = run([bin_dev, res["name"], hv], timeout=120)
        rc_r, out_r = (None, "")
        if ok_rel:
            rc_r, out_r, _, _ = run([bin_rel, res["name"], hv], timeout=120)
        pan = re.search(r"panicked at (.*?):\n(.*)", out_d)
        native_msg = (pan.group(2).strip() if pan else "")
        rec = {"check": pb["desc"], "kind": pb["kind"], "vals_hex": hv, "dev_rc": rc_d, "release_rc": rc_r, "witness_from": pb.get("from"),
               "native_panic": native_msg[:300]}
        res["replays"].append(rec)
        if rc_d != 101:
            # counterexample does not reproduce against the real build -> harness/model/stub wrong
            res["verdict"] = "inconclusive"
            res["why"] = f"counterexample for '{pb['desc']}' does not reproduce natively (dev rc={rc_d})"
            code = merge(code, EXIT_INCONCLUSIVE)
            continue
        k = match_known(known, prop, res["name"], pb["desc"] + " " + native_msg)
        os.makedirs(os.path.join(REPLAYS, prop), exist_ok=True)
        rp = os.path.join(REPLAYS, prop, f"{res['name']}-{abs(hash(pb['desc'])) % 10**8}.json")
        with open(rp, "w") as f:
            json.dump({"property": prop, "engine": "kani", "crate": crate, "harness": res["name"], "check": pb["desc"],
                       "vals_hex": hv, "native_panic": native_msg, "release_reproduces": rc_r == 101,
                       "how": f"./check {prop} --replay {rp}"}, f, indent=1)
        rec["replay_file"] = rp
        if k:
            say(f"KNOWN-FINDING: property={prop} {k['what']} [harness {res['name']}: {pb['desc']}]")
            findings_out.append({"known": True, "unit": res["name"], "desc": pb["desc"], "replay": rp})
            res["verdict"] = "known-finding"
        else:
            say(f"VIOLATION property={prop} replay={rp}")
            say(f"  harness {res['name']}: {pb['desc']} | native: {native_msg[:200]} | values {hv} | release reproduces: {rc_r == 101}")
            findings_out.append({"known": False, "unit": res["name"], "desc": pb["desc"], "replay": rp})
            res["verdict"] = "violation"
            code = merge(code, EXIT_VIOLATION)
    return code


def run_property(prop, cfg, tier, jobs, known):
    """Returns dict(results=[...], exit=code, findings=[...], native=...)."""
    crate = cfg["crate"]
    harnesses = [h for h in cfg["harnesses"] if tier == "thorough" or h.get("tier", "quick") == "quick"]
    t0 = time.time()
    # 1. native build of the same harness sources against the real dependencies: hooks compile,
    #    harness self-tests and dependency-model validation pass
    ok, binp, out, _ = build_replay(crate, "dev")
    if not ok:
        return {"results": [], "exit": EXIT_INCONCLUSIVE, "findings": [],
                "why": "harness crate does not build natively against /repo (see logs/build-replay-*.log): "
                       + " | ".join(out.strip().splitlines()[-4:])[-500:]}
    tests_ok, ntests, tout, _ = native_tests(crate)
    native = {"native_selftests_passed": ntests, "ok": tests_ok}
    selftest_fails = []
    if not tests_ok:
        # A harness that fails natively on sample inputs is either a harness/model bug or the very
        # violation the solver is about to find on a changed tree.  The solver decides: a reproducing
        # counterexample is a VIOLATION; if the solver says "holds" while the native run of the same
        # harness fails, the models/stubs diverge from the real build -> inconclusive (below).
        selftest_fails = re.findall(r"^test (\S+) \.\.\. FAILED", tout, re.M)
        native["failed"] = selftest_fails
    # harnesses that panic natively on sample inputs (real dependencies)
    native_panics = sorted(set(re.findall(r"SELFTEST-FAIL (\S+)", tout)))
    native["harnesses_failing_natively"] = native_panics
    m_ran = re.search(r"SELFTEST-RAN (\d+)", tout)
    native["native_harness_executions"] = int(m_ran.group(1)) if m_ran else 0
    # 2. solver runs, one process per harness, worker slots with their own target dir
    slots = queue.Queue()
    nslots = max(1, min(jobs, len(harnesses)))
    for i in range(nslots):
        slots.put(i)

    def work(h):
        s = slots.get()
        try:
            return run_harness(s, crate, h, prop)
        finally:
            slots.put(s)

    # longest first
    order = sorted(harnesses, key=lambda h: -h.get("expect_s", 60))
    with cf.ThreadPoolExecutor(max_workers=nslots) as ex:
        results = list(ex.map(work, order))
    findings = []
    code = EXIT_OK
    # vacuity guard at property level: every reachability witness named in the harnesses that ran
    # must be satisfied in at least one of them (a witness inside a case-split instance need not be
    # reachable in every group of cases)
    sat_all, named_all = set(), set()
    for res in results:
        # witnesses reached before a (known or new) failing assertion count as reached; the names a
        # failing harness could not reach behind its failing assertion are not held against the run
        sat_all |= set(res.get("sat_covers", []))
        if res["verdict"] == "holds":
            named_all |= set(res.get("sat_covers", [])) | set(res.get("unsat_covers", []))
    if selftest_fails and all(r["verdict"] == "holds" for r in results):
        say("INCONCLUSIVE: native self-tests of the harness crate fail (" + ", ".join(selftest_fails)
            + ") but the solver reports no violation: models/stubs diverge from the real build, or a harness bug")
        code = EXIT_INCONCLUSIVE
    diverge = [r["name"] for r in results if r["verdict"] == "holds" and r["name"] in native_panics]
    if diverge:
        say("INCONCLUSIVE: harness(es) " + ", ".join(diverge) + " panic natively on sample inputs although the solver reports "
            "no violation: models/stubs diverge from the real build")
        code = EXIT_INCONCLUSIVE
    never = sorted(named_all - sat_all)
    if never and tier != "thorough":
        # the quick tier runs a subset of the case groups; witnesses that belong to cases of the
        # thorough-only groups are instantiated (as dead code) in every group and cannot be reached
        # here.  Every harness still has to satisfy at least one witness (checked per harness).
        say("note: witnesses of thorough-only case groups not reached in the quick subset: " + "; ".join(never))
        never = []
    if never:
        say("INCONCLUSIVE: reachability witnesses never satisfied in this run: " + "; ".join(never))
        code = EXIT_INCONCLUSIVE
    for res in results:
        meta = next(h for h in harnesses if h["name"] == res["name"] and h.get("solver", "cadical") == res.get("solver", "cadical"))
        res["what"] = meta.get("what", "")
        res["bounds"] = meta.get("bounds", "")
        if res["verdict"] == "failed":
            c = confirm_and_report(prop, crate, res, known, findings)
        elif res["verdict"] == "inconclusive":
            c = EXIT_INCONCLUSIVE
        else:
            c = EXIT_OK
        code = merge(code, c)
        say(f"  [{res['verdict']:>13}] {res['name']}  checks={res['checks_total']} failed={res['checks_failed']} "
            f"covers={res['covers_sat']}/{res['covers_total']} wall={res['wall_s']}s"
            + (f"  -- {res.get('why')}" if res.get("why") else ""))
    return {"results": results, "exit": code, "findings": findings, "native": native, "wall": time.time() - t0,
            "witnesses": sorted(sat_all), "why": ("witnesses never satisfied: " + "; ".join(never)) if never else None}


def replay_file(path):
    rec = json.load(open(path))
    crate = rec["crate"]
    ok, binp, out, _ = build_replay(crate, "dev")
    if not ok:
        say("replay binary does not build")
        return EXIT_INCONCLUSIVE
    rc, out, _, _ = run([binp, rec["harness"], rec["vals_hex"]], timeout=120)
    say(out)
    say(f"replay rc={rc} (101 = the counterexample reproduces against the real build)")
    return EXIT_VIOLATION if rc == 101 else EXIT_OK
