"""Engine M, part 1: a small symbolic executor for optimised MIR text (loop-free integer functions).

Input: the text printed by `rustc -Zunpretty=mir` for one crate.  For a selected function the
executor enumerates the paths of the (acyclic) CFG.  Every scalar is an SMT-LIB2 term over
*mathematical integers* with explicit wrap-around where MIR wraps; enum values built on a path have a
concrete variant, so `discriminant`/`switchInt` on them is resolved statically; a `switchInt`/`assert`
on a symbolic scalar forks the path.  Calls that rustc did not inline are answered from a contract
table (see contracts.py); an unknown callee raises `Unsupported` (the run is then inconclusive).
"""
import re


class Unsupported(Exception):
    pass


INT_BITS = {"u8": 8, "u16": 16, "u32": 32, "u64": 64, "u128": 128, "usize": 64,
            "i8": 8, "i16": 16, "i32": 32, "i64": 64, "i128": 128, "isize": 64}


def is_signed(ty):
    return ty.startswith("i")


def ty_range(ty):
    n = INT_BITS[ty]
    if is_signed(ty):
        return -(1 << (n - 1)), (1 << (n - 1)) - 1
    return 0, (1 << n) - 1


def lit(v):
    return str(v) if v >= 0 else f"(- {-v})"


def wrap(e, ty):
    """e (an Int term) reduced to the value range of machine type ty (two's complement)."""
    n = INT_BITS[ty]
    m = f"(mod {e} {1 << n})"
    if is_signed(ty):
        return f"(let ((wm {m})) (ite (>= wm {1 << (n - 1)}) (- wm {1 << n}) wm))"
    return m


def in_range(e, ty):
    lo, hi = ty_range(ty)
    return f"(and (>= {e} {lit(lo)}) (<= {e} {lit(hi)}))"


# ---------------------------------------------------------------- values
class Val:
    """kind: int (term, ty) | bool (term) | agg (fields) | enum (name, variant, fields) | ref (place-val) | opaque (text)"""

    def __init__(self, kind, **kw):
        self.kind = kind
        self.__dict__.update(kw)

    def __repr__(self):
        d = {k: v for k, v in self.__dict__.items() if k != "kind"}
        return f"Val({self.kind}, {d})"


def vint(term, ty):
    return Val("int", term=str(term), ty=ty)


def vbool(term):
    return Val("bool", term=str(term))


def vagg(fields, name=None):
    return Val("agg", fields=list(fields), name=name)


def venum(name, variant, fields=()):
    return Val("enum", name=name, variant=variant, fields=list(fields))


def vopaque(text):
    return Val("opaque", text=text)


VARIANT_INDEX = {"Ok": 0, "Err": 1, "None": 0, "Some": 1, "Continue": 0, "Break": 1, "Ready": 0, "Pending": 1, "Borrowed": 0, "Owned": 1}


class Panic:
    def __init__(self, msg, kind="panic"):
        self.msg, self.kind = msg, kind

    def __repr__(self):
        return f"Panic({self.kind}: {self.msg})"


# ---------------------------------------------------------------- parsing
class Fn:
    def __init__(self, header, name, params, ret, body):
        self.header, self.name, self.params, self.ret = header, name, params, ret
        self.locals = {}
        self.blocks = {}
        self._parse(body)

    def _parse(self, body):
        for m in re.finditer(r"^\s*let (?:mut )?(_\d+): (.*);$", body, re.M):
            self.locals[m.group(1)] = m.group(2)
        for p, t in self.params:
            self.locals[p] = t
        self.locals["_0"] = self.ret
        for m in re.finditer(r"^    (bb\d+)(?: \(cleanup\))?: \{\n(.*?)^    \}$", body, re.M | re.S):
            lines = [l.strip() for l in m.group(2).split("\n")]
            lines = [l for l in lines if l and not l.startswith("//")]
            self.blocks[m.group(1)] = lines


def split_top(s, sep=","):
    """split on sep at nesting depth 0 of () [] {} <> and outside string literals"""
    out, depth, cur, i, instr = [], 0, "", 0, False
    while i < len(s):
        c = s[i]
        if instr:
            cur += c
            if c == "\\":
                cur += s[i + 1]
                i += 1
            elif c == '"':
                instr = False
        elif c == '"':
            instr = True
            cur += c
        elif c in "([{":
            depth += 1
            cur += c
        elif c in ")]}":
            depth -= 1
            cur += c
        elif c == "<" and (i + 1 < len(s) and s[i + 1] != "=" and s[i + 1] != " "):
            depth += 1
            cur += c
        elif c == ">" and i > 0 and s[i - 1] not in "-=" and depth > 0 and not (i > 0 and s[i - 1] == " "):
            depth -= 1
            cur += c
        elif c == sep and depth == 0:
            out.append(cur.strip())
            cur = ""
        else:
            cur += c
        i += 1
    if cur.strip():
        out.append(cur.strip())
    return out


def parse_functions(text):
    fns = []
    for chunk in re.split(r"\n(?=fn )", text):
        if not chunk.startswith("fn "):
            continue
        head, _, body = chunk.partition("\n")
        m = re.match(r"fn (.*?)\((.*)\) -> (.*) \{$", head)
        if not m:
            continue
        name, params_s, ret = m.group(1), m.group(2), m.group(3)
        params = []
        for p in split_top(params_s):
            pm = re.match(r"(_\d+): (.*)$", p)
            if pm:
                params.append((pm.group(1), pm.group(2)))
        # cut the body at the closing brace of the function
        end = body.find("\n}\n")
        if end >= 0:
            body = body[:end]
        fns.append(Fn(head, name, params, ret, body))
    return fns


# ---------------------------------------------------------------- the executor
class State:
    def __init__(self, env, pc, notes=None):
        self.env = env  # local -> Val
        self.pc = pc  # list of SMT bool terms
        self.notes = notes or []

    def fork(self):
        return State(dict(self.env), list(self.pc), list(self.notes))


class Executor:
    def __init__(self, fn, contracts, fresh):
        self.fn = fn
        self.contracts = contracts
        self.fresh = fresh  # callable(prefix, ty) -> fresh int var name (declared by caller)
        self.paths = []  # (pc, outcome, notes)
        self.steps = 0

    # ---- places
    def parse_place(self, s):
        """returns (base_local, [proj...]) with proj = ('field', i) | ('downcast', name) | ('deref',)"""
        s = s.strip()
        if re.fullmatch(r"_\d+", s):
            return s, []
        if s.startswith("(*") and s.endswith(")"):
            b, pr = self.parse_place(s[2:-1])
            return b, pr + [("deref",)]
        if s.startswith("(") and s.endswith(")"):
            inner = s[1:-1]
            # downcast: "<place> as Variant"
            m = re.fullmatch(r"(.*) as (\w+)", inner)
            if m and self._balanced(m.group(1)):
                b, pr = self.parse_place(m.group(1))
                return b, pr + [("downcast", m.group(2))]
            # field: "<place>.<idx>: <type>"
            depth = 0
            for i, c in enumerate(inner):
                if c in "(":
                    depth += 1
                elif c == ")":
                    depth -= 1
                elif c == "." and depth == 0:
                    m2 = re.match(r"\.(\d+): ", inner[i:])
                    if m2:
                        b, pr = self.parse_place(inner[:i])
                        return b, pr + [("field", int(m2.group(1)))]
            raise Unsupported(f"place {s}")
        raise Unsupported(f"place {s}")

    @staticmethod
    def _balanced(s):
        d = 0
        for c in s:
            if c == "(":
                d += 1
            elif c == ")":
                d -= 1
                if d < 0:
                    return False
        return d == 0

    def read_place(self, st, s):
        base, proj = self.parse_place(s)
        if base not in st.env:
            raise Unsupported(f"read of unassigned local {base} in {self.fn.name}")
        v = st.env[base]
        for p in proj:
            if v.kind == "opaque":
                # projections of values the encoding does not interpret (panic messages, error
                # payloads that are dropped) stay uninterpreted; using one in arithmetic or in a
                # branch raises Unsupported later
                continue
            if p[0] == "deref":
                if v.kind != "ref":
                    raise Unsupported(f"deref of non-ref {v}")
                v = v.target
            elif p[0] == "downcast":
                if v.kind != "enum":
                    raise Unsupported(f"downcast of non-enum {v}")
                if v.variant != p[1]:
                    raise Unsupported(f"downcast to {p[1]} of a value that is {v.variant}")
            elif p[0] == "field":
                if v.kind in ("agg", "enum"):
                    if p[1] >= len(v.fields):
                        raise Unsupported(f"field {p[1]} of {v}")
                    v = v.fields[p[1]]
                else:
                    raise Unsupported(f"field of {v}")
        return v

    def write_place(self, st, s, val):
        base, proj = self.parse_place(s)
        if not proj:
            st.env[base] = val
            return
        raise Unsupported(f"write to projected place {s}")

    # ---- operands
    def operand(self, st, s):
        s = s.strip()
        if s.startswith("copy ") or s.startswith("move "):
            return self.read_place(st, s[5:])
        if s.startswith("const "):
            return self.const(s[6:].strip())
        raise Unsupported(f"operand {s}")

    def const(self, c):
        m = re.fullmatch(r"(-?\d+)_(\w+)", c)
        if m and m.group(2) in INT_BITS:
            return vint(lit(int(m.group(1))), m.group(2))
        m = re.fullmatch(r"(?:core::num::<impl )?(\w+)>?::(MAX|MIN)", c)
        if m and m.group(1) in INT_BITS:
            lo, hi = ty_range(m.group(1))
            return vint(lit(hi if m.group(2) == "MAX" else lo), m.group(1))
        if c == "true":
            return vbool("true")
        if c == "false":
            return vbool("false")
        m = re.fullmatch(r"(?:[\w:]+::)?(TimeError)::(\w+)", c)
        if m:
            return venum("TimeError", m.group(2))
        m = re.fullmatch(r"(?:std::|core::)?option::Option::<.*>::None", c)
        if m:
            return venum("Option", "None")
        m = re.match(r"std::time::Duration \{+ secs: (\d+)_u64, nanos: .*Nanoseconds\((\d+)_u32", c)
        if m:
            return vagg([vint(lit(int(m.group(1))), "u64"), vint(lit(int(m.group(2))), "u32")], name="std::time::Duration")
        m = re.match(r"SystemTime\(.*tv_sec: (-?\d+)_i64, tv_nsec: .*Nanoseconds\((\d+)_u32", c)
        if m:
            return vagg([vint(lit(int(m.group(1))), "i64"), vint(lit(int(m.group(2))), "u32")], name="SystemTime")
        return vopaque(c)

    # ---- rvalues
    def rvalue(self, st, r, dest_ty):
        r = r.strip()
        # cast
        m = re.fullmatch(r"(.*) as (.*?) \((\w+)(?:\(.*\))?\)", r)
        if m and (m.group(1).startswith(("copy ", "move ", "const "))):
            v = self.operand(st, m.group(1))
            to, how = m.group(2).strip(), m.group(3)
            return self.cast(st, v, to, how)
        if r.startswith(("copy ", "move ", "const ")):
            return self.operand(st, r)
        if r.startswith("&raw const ") or r.startswith("&raw mut "):
            return Val("ref", target=self.read_place(st, r.split(" ", 2)[2]))
        if r.startswith("&mut "):
            return Val("ref", target=self.read_place(st, r[5:]))
        if r.startswith("&"):
            return Val("ref", target=self.read_place(st, r[1:]))
        m = re.fullmatch(r"discriminant\((.*)\)", r)
        if m:
            v = self.read_place(st, m.group(1))
            if v.kind != "enum":
                raise Unsupported(f"discriminant of {v}")
            if v.variant in VARIANT_INDEX:
                return vint(VARIANT_INDEX[v.variant], "isize")
            raise Unsupported(f"discriminant of variant {v.variant}")
        m = re.fullmatch(r"(\w+)\((.*)\)", r)
        if m and m.group(1) in BINOPS:
            a, b = split_top(m.group(2))
            return self.binop(st, m.group(1), self.operand(st, a), self.operand(st, b))
        if m and m.group(1) in ("Not", "Neg"):
            v = self.operand(st, m.group(2))
            if m.group(1) == "Not":
                if v.kind == "bool":
                    return vbool(f"(not {v.term})")
                raise Unsupported("bitwise Not on int")
            return vint(wrap(f"(- {v.term})", v.ty), v.ty)
        # tuple
        if r.startswith("(") and r.endswith(")"):
            return vagg([self.operand(st, x) for x in split_top(r[1:-1])])
        if r.startswith("[") and r.endswith("]"):
            return vagg([self.operand(st, x) for x in split_top(r[1:-1])])
        # enum variant with tuple payload:  Path::<..>::Variant(args)
        m = re.fullmatch(r"([\w:<>,\s&'\(\)\[\]]*?)::(\w+)\((.*)\)", r)
        if m and m.group(2) in VARIANT_INDEX:
            return venum(m.group(1), m.group(2), [self.operand(st, x) for x in split_top(m.group(3))])
        m = re.fullmatch(r"([\w:<>,\s&'\(\)\[\]]*?)::(None)", r)
        if m:
            return venum(m.group(1), "None")
        # struct literal: Path { f: v, ... }  (fields are printed in declaration order)
        m = re.fullmatch(r"([\w:<>,\s&']+?) \{ (.*) \}", r)
        if m:
            fields = []
            for f in split_top(m.group(2)):
                fm = re.match(r"\w+: (.*)$", f)
                fields.append(self.operand(st, fm.group(1)))
            return vagg(fields, name=m.group(1).strip())
        # tuple struct constructor: Path(args)
        m = re.fullmatch(r"([\w:<>]+)\((.*)\)", r)
        if m:
            return vagg([self.operand(st, x) for x in split_top(m.group(2))], name=m.group(1))
        # anything else (function-pointer reifications and fmt::Arguments plumbing on panic paths)
        # stays uninterpreted: a later semantic use of the value raises Unsupported
        return vopaque(r)

    def cast(self, st, v, to, how):
        if how == "IntToInt":
            if v.kind == "bool":
                return vint(f"(ite {v.term} 1 0)", to)
            if to not in INT_BITS:
                raise Unsupported(f"IntToInt to {to}")
            lo, hi = ty_range(to)
            slo, shi = ty_range(v.ty)
            if slo >= lo and shi <= hi:
                return vint(v.term, to)  # widening: exact
            return vint(wrap(v.term, to), to)
        if how == "Transmute":
            if v.kind == "int" and to.endswith("niche_types::Nanoseconds"):
                # transmuting a u32 >= 1e9 into the niche type is undefined behaviour
                st.notes.append(("ub_if_not", f"(< {v.term} 1000000000)", "transmute to Nanoseconds"))
                return vint(v.term, "u32")
            if v.kind == "int" and to in INT_BITS and INT_BITS[to] == INT_BITS[v.ty]:
                return vint(wrap(v.term, to), to)
            return vopaque(f"transmute({v})")
        return vopaque(f"cast:{how}")

    def binop(self, st, op, a, b):
        if op in ("Eq", "Ne", "Lt", "Le", "Gt", "Ge"):
            if a.kind == "bool" and b.kind == "bool":
                t = f"(= {a.term} {b.term})"
                return vbool(t if op == "Eq" else f"(not {t})")
            sym = {"Eq": "=", "Lt": "<", "Le": "<=", "Gt": ">", "Ge": ">="}
            if op == "Ne":
                return vbool(f"(not (= {a.term} {b.term}))")
            return vbool(f"({sym[op]} {a.term} {b.term})")
        if a.kind != "int" or b.kind != "int":
            raise Unsupported(f"binop {op} on {a} {b}")
        ty = a.ty
        base = op.replace("WithOverflow", "").replace("Unchecked", "")
        if base in ("Add", "Sub", "Mul"):
            s = {"Add": "+", "Sub": "-", "Mul": "*"}[base]
            exact = f"({s} {a.term} {b.term})"
            if op.endswith("WithOverflow"):
                return vagg([vint(wrap(exact, ty), ty), vbool(f"(not {in_range(exact, ty)})")])
            if op.endswith("Unchecked"):
                st.notes.append(("ub_if_not", in_range(exact, ty), f"{op} overflow"))
                return vint(exact, ty)
            return vint(wrap(exact, ty), ty)
        if base in ("Div", "Rem"):
            if not re.fullmatch(r"\d+", b.term) or int(b.term) == 0:
                raise Unsupported(f"{op} by a non-constant or zero divisor {b.term}")
            d = b.term
            if is_signed(ty):
                q = f"(ite (>= {a.term} 0) (div {a.term} {d}) (- (div (- {a.term}) {d})))"
            else:
                q = f"(div {a.term} {d})"
            if base == "Div":
                return vint(q, ty)
            return vint(f"(- {a.term} (* {d} {q}))", ty)
        if base in ("BitAnd", "BitOr") and a.kind == "bool":
            return vbool(f"({'and' if base == 'BitAnd' else 'or'} {a.term} {b.term})")
        raise Unsupported(f"binop {op}")

    # ---- running
    def run(self, st0):
        self._block(st0, "bb0", 0)
        return self.paths

    def finish(self, st, outcome):
        self.paths.append((st.pc, outcome, st.notes))

    def _block(self, st, bb, depth):
        if depth > 200:
            raise Unsupported("CFG too deep / cyclic")
        lines = self.fn.blocks[bb]
        for line in lines[:-1]:
            self.stmt(st, line)
        self.term(st, lines[-1], depth)

    def stmt(self, st, line):
        self.steps += 1
        line = line.rstrip(";")
        if line.startswith(("StorageLive", "StorageDead", "nop", "FakeRead", "PlaceMention", "Retag", "Coverage", "ConstEvalCounter")):
            return
        m = re.fullmatch(r"assume\((.*)\)", line)
        if m:
            v = self.operand(st, m.group(1))
            st.pc.append(v.term)
            return
        m = re.match(r"(\(?[_\w\.\s:\(\)\*]+?\)?) = (.*)$", line)
        if not m:
            raise Unsupported(f"statement {line}")
        dest, r = m.group(1).strip(), m.group(2)
        base, _ = self.parse_place(dest)
        val = self.rvalue(st, r, self.fn.locals.get(base))
        self.write_place(st, dest, val)

    def branch_cond(self, v, k):
        if v.kind == "bool":
            return v.term if k != 0 else f"(not {v.term})"
        return f"(= {v.term} {k})"

    def term(self, st, line, depth):
        self.steps += 1
        line = line.rstrip(";")
        if line == "return":
            self.finish(st, st.env.get("_0"))
            return
        if line == "unreachable":
            self.finish(st, Panic("unreachable reached", kind="ub"))
            return
        m = re.fullmatch(r"goto -> (bb\d+)", line)
        if m:
            return self._block(st, m.group(1), depth + 1)
        m = re.fullmatch(r"drop\(.*\) -> \[return: (bb\d+).*\]", line)
        if m:
            return self._block(st, m.group(1), depth + 1)
        m = re.fullmatch(r"switchInt\((.*)\) -> \[(.*)\]", line)
        if m:
            v = self.operand(st, m.group(1))
            targets = [t.strip() for t in m.group(2).split(",")]
            vals = []
            for t in targets:
                k, bbn = t.split(": ")
                if k == "otherwise":
                    cond = "(and " + " ".join(f"(not {self.branch_cond(v, kk)})" for kk in vals) + ")" if vals else "true"
                    self._fork(st, cond, bbn, depth)
                else:
                    kk = int(k)
                    vals.append(kk)
                    self._fork(st, self.branch_cond(v, kk), bbn, depth)
            return
        m = re.fullmatch(r"assert\((!?)(.*?), \"(.*?)\".*\) -> \[success: (bb\d+).*\]", line)
        if m:
            v = self.operand(st, m.group(2))
            cond = f"(not {v.term})" if m.group(1) else v.term
            s2 = st.fork()
            s2.pc.append(f"(not {cond})")
            if not self._trivially_false(s2.pc[-1]):
                self.finish(s2, Panic(m.group(3)))
            st.pc.append(cond)
            return self._block(st, m.group(4), depth + 1)
        # call
        m = re.fullmatch(r"(?:(\S+) = )?(.*?)\((.*)\) -> (.*)", line)
        if m:
            dest, callee, args_s, cont = m.groups()
            args = [self.operand(st, a) for a in split_top(args_s)] if args_s.strip() else []
            rm = re.search(r"return: (bb\d+)", cont)
            alts = self.contracts.call(self, st, callee.strip(), args)
            for cond, out in alts:
                s2 = st.fork()
                if cond != "true":
                    s2.pc.append(cond)
                if isinstance(out, Panic):
                    self.finish(s2, out)
                else:
                    if rm is None:
                        raise Unsupported(f"diverging call {callee} returned a value")
                    if dest:
                        self.write_place(s2, dest, out)
                    self._block(s2, rm.group(1), depth + 1)
            return
        raise Unsupported(f"terminator {line}")

    @staticmethod
    def _trivially_false(t):
        return t in ("false", "(not true)")

    def _fork(self, st, cond, bbn, depth):
        # static resolution for literal comparisons
        m = re.fullmatch(r"\(= (-?\d+|\(- \d+\)) (-?\d+)\)", cond)
        if m:
            a = m.group(1)
            a = -int(a[3:-1]) if a.startswith("(-") else int(a)
            if a != int(m.group(2)):
                return
            cond = "true"
        if cond in ("false", "(not true)"):
            return
        if cond.startswith("(and ") and re.fullmatch(r"\(and( \(not \(= (-?\d+) (-?\d+)\)\))+\)", cond):
            pairs = re.findall(r"\(not \(= (-?\d+) (-?\d+)\)\)", cond)
            if any(int(a) == int(b) for a, b in pairs):
                return
            cond = "true"
        s2 = st.fork()
        if cond not in ("true", "(not false)"):
            s2.pc.append(cond)
        self._block(s2, bbn, depth + 1)


BINOPS = {"Eq", "Ne", "Lt", "Le", "Gt", "Ge", "Add", "Sub", "Mul", "Div", "Rem", "AddWithOverflow", "SubWithOverflow",
          "MulWithOverflow", "AddUnchecked", "SubUnchecked", "MulUnchecked", "BitAnd", "BitOr"}
