"""Engine M: MIR -> SMT-LIB2 for the crux_time conversions (C19).  See mir.py / contracts.py / c19.py."""
import glob
import json
import os
import re
import shutil
import subprocess
import time

from . import c19
from .common import (EXIT_INCONCLUSIVE, EXIT_OK, EXIT_VIOLATION, LOGS, NIGHTLY, REPLAYS, REPO, STABLE, TARGET, VERIF,
                     env_offline, match_known, run, say)
from .contracts import CONTRACT_TEXT, Consts, Contracts
from .mir import Executor, Panic, State, Unsupported, in_range, parse_functions

NPS = 1000000000


# ---------------------------------------------------------------- solver process
class Solver:
    def __init__(self, cmd, name, log):
        self.name = name
        self.p = subprocess.Popen(cmd, stdin=subprocess.PIPE, stdout=subprocess.PIPE, stderr=subprocess.STDOUT, text=True)
        self.logf = open(log, "w")
        self.time = 0.0
        self.queries = 0
        self.errors = []

    def send(self, s):
        self.logf.write(s + "\n")
        self.p.stdin.write(s + "\n")

    def ask(self, s, nlines=1):
        """send and read one s-expression answer (balanced parens) or one word"""
        self.send(s)
        self.send('(echo "<<done>>")')
        self.p.stdin.flush()
        t0 = time.time()
        out = []
        while True:
            line = self.p.stdout.readline()
            if not line:
                self.errors.append("solver died")
                break
            line = line.rstrip("\n")
            if line.strip().strip('"') == "<<done>>":
                break
            out.append(line)
        self.time += time.time() - t0
        txt = "\n".join(out)
        self.logf.write("; -> " + txt.replace("\n", "\n;    ") + "\n")
        if "(error" in txt:
            self.errors.append(txt[:300])
        return txt.strip()

    def check(self):
        self.queries += 1
        return self.ask("(check-sat)")

    def close(self):
        try:
            self.send("(exit)")
            self.p.stdin.close()
            self.p.wait(timeout=10)
        except Exception:  # noqa
            self.p.kill()
        self.logf.close()


def z3_solver(log):
    return Solver(["z3", "-in", "-t:20000"], "z3", log)


def cvc5_solver(log):
    return Solver(["cvc5", "--lang", "smt2", "--incremental", "--produce-models", "--tlimit-per=60000"], "cvc5", log)


def parse_values(txt):
    """((a 1) (b (- 2)) (c true)) -> dict"""
    vals = {}
    for m in re.finditer(r"\(([^\s()]+|\([^()]*\)|\(let .*?\)\)\)) (\(- \d+\)|-?\d+|true|false)\)", txt):
        pass
    # robust: the terms we ask for are plain symbols (we define named constants for everything)
    for m in re.finditer(r"\((\w+) (\(- (\d+)\)|(\d+)|true|false)\)", txt):
        name, raw = m.group(1), m.group(2)
        if raw in ("true", "false"):
            vals[name] = raw == "true"
        elif raw.startswith("(-"):
            vals[name] = -int(m.group(3))
        else:
            vals[name] = int(raw)
    return vals


# ---------------------------------------------------------------- native side
def build_time_replay():
    d = os.path.join(VERIF, "kani", "time_replay")
    lock = os.path.join(d, "Cargo.lock")
    if not os.path.exists(lock):
        shutil.copy(os.path.join(REPO, "Cargo.lock"), lock)
    tdir = os.path.join(TARGET, "time_replay")
    rc, out, wall, _ = run(["cargo", "build", "--offline", "--target-dir", tdir], cwd=d,
                           env=env_offline({"RUSTUP_TOOLCHAIN": STABLE}), timeout=900,
                           log=os.path.join(LOGS, "C19", "build-time_replay.log"))
    binp = os.path.join(tdir, "debug", "time_replay")
    return rc == 0 and os.path.exists(binp), binp, out


def native_batch(binp, lines):
    p = subprocess.run([binp], input="\n".join(lines) + "\n", capture_output=True, text=True, timeout=300)
    return p.stdout.strip().split("\n") if p.stdout.strip() else []


def dump_mir():
    """optimised MIR of /repo/crux_time as it is now (the crate's fingerprint is dropped so that rustc
    really runs again; dependencies stay cached)"""
    tdir = os.path.join(TARGET, "mir")
    for f in glob.glob(os.path.join(tdir, "debug", ".fingerprint", "crux_time-*")):
        shutil.rmtree(f, ignore_errors=True)
    out_path = os.path.join(TARGET, "crux_time.mir")
    cmd = ["cargo", "rustc", "--offline", "--lib", "--features", "chrono", "--target-dir", tdir, "--",
           "-Zunpretty=mir", "-Zmir-opt-level=3", "-Zinline-mir", "-Zinline-mir-threshold=1000",
           "-Zinline-mir-hint-threshold=1000", "-C", "debug-assertions=off", "-C", "overflow-checks=on"]
    t0 = time.time()
    p = subprocess.run(cmd, cwd=os.path.join(REPO, "crux_time"), env=env_offline({"RUSTUP_TOOLCHAIN": NIGHTLY}),
                       capture_output=True, text=True, timeout=1200)
    os.makedirs(os.path.join(LOGS, "C19"), exist_ok=True)
    open(os.path.join(LOGS, "C19", "mir-dump.log"), "w").write(p.stderr)
    if p.returncode != 0 or "fn " not in p.stdout:
        return None, p.stderr[-800:], time.time() - t0
    open(out_path, "w").write(p.stdout)
    return p.stdout, "", time.time() - t0


# ---------------------------------------------------------------- encoding one conversion
class Encoded:
    pass


def encode(spec, fns):
    cands = [f for f in fns if re.match(spec["sig"], f.header)]
    if len(cands) != 1:
        raise Unsupported(f"{spec['name']}: expected exactly one MIR function matching its signature, found {len(cands)}")
    fn = cands[0]
    env, decls, assumptions = {}, [], []
    for (pname, _), inp in zip(fn.params, spec["inputs"]):
        if inp[0] == "scalar":
            _, var, ty = inp
            from .mir import vint
            env[pname] = vint(var, ty)
            decls.append((var, ty))
        else:
            val, vs, inv = inp[1]
            env[pname] = val
            decls += vs
            assumptions += inv
    for var, ty in decls:
        assumptions.append(in_range(var, ty))
    contracts = Contracts()
    ex = Executor(fn, contracts, None)
    paths = ex.run(State(env, []))
    e = Encoded()
    e.spec, e.fn, e.decls, e.assumptions, e.paths, e.steps, e.callees = spec, fn, decls, assumptions, paths, ex.steps, sorted(contracts.used)
    return e


def classify(spec, outcome):
    """-> ('ok', Val) | ('reject', text) | ('ub', text)"""
    if isinstance(outcome, Panic):
        return ("ub", outcome.msg) if outcome.kind == "ub" else ("reject", "PANIC " + outcome.msg)
    if spec["result"] == "Result":
        if outcome.kind != "enum":
            raise Unsupported(f"{spec['name']}: return value is not a Result: {outcome}")
        if outcome.variant == "Ok":
            return ("ok", outcome.fields[0])
        err = outcome.fields[0]
        return ("reject", "ERR " + (err.variant if err.kind == "enum" else "?"))
    return ("ok", outcome)


def goal_for(spec, kind, payload):
    V, M = spec["valid_in"], spec["meaning_in"]
    R = spec["range_b"](M)
    if kind == "ok":
        mo, vo, outs = spec["reader"](payload)
        return f"(and {V} {R} (= {mo} {M}) {vo})", outs
    if kind == "reject":
        return f"(not (and {V} {R}))", []
    return "false", []


# ---------------------------------------------------------------- python-side exact semantics (independent of the encoding)
def py_meaning_out(reader_name, a):
    if reader_name == "out_dur":
        return a[0], 0 <= a[0] < (1 << 64)
    if reader_name in ("out_inst", "out_std", "out_st"):
        return a[0] * NPS + a[1], 0 <= a[1] < NPS
    if reader_name == "out_td":
        return a[0] * NPS + a[1], 0 <= a[1] < NPS
    if reader_name == "out_dt":
        return ((a[0] - 719163) * 86400 + a[1]) * NPS + a[2], 0 <= a[2] < NPS
    raise ValueError(reader_name)


def native_deviates(spec, expected_ok, expected_meaning, native_line):
    """does the real function's outcome differ from the exact semantics of the property?"""
    if native_line.startswith("BADINPUT"):
        return None
    if native_line.startswith("OK"):
        nums = [int(x) for x in native_line.split()[1:]]
        m, valid = py_meaning_out(spec["reader"].__name__, nums)
        if not expected_ok:
            return True  # accepted something that had to be rejected
        return not (m == expected_meaning and valid)
    # ERR / PANIC
    return expected_ok


# ---------------------------------------------------------------- main
def run_property(prop, cfg, tier, known, only=None):
    t0 = time.time()
    res = {"exit": EXIT_OK, "findings": [], "queries": 0, "decided": 0, "nontrivial": 0, "obligations": 0, "discharged": 0,
           "solver_s": 0.0, "samples": [], "notes": [], "assumptions": list(CONTRACT_TEXT)}
    os.makedirs(os.path.join(LOGS, prop), exist_ok=True)

    def inconclusive(msg):
        say("INCONCLUSIVE: " + msg)
        res["notes"].append(msg)
        res["exit"] = EXIT_INCONCLUSIVE if res["exit"] != EXIT_VIOLATION else res["exit"]
        return res

    ok, binp, out = build_time_replay()
    if not ok:
        return inconclusive("native replay driver does not build against /repo/crux_time: " + " | ".join(out.strip().splitlines()[-4:])[-400:])
    cline = subprocess.run([binp, "consts"], capture_output=True, text=True).stdout
    for k, v in re.findall(r"(\w+)=(-?\d+)", cline):
        setattr(Consts, k, int(v))
    if Consts.MIN_DAYS is None:
        return inconclusive("could not read chrono constants from the native driver")
    mir, err, dump_s = dump_mir()
    if mir is None:
        return inconclusive("MIR dump failed: " + err[-400:])
    fns = parse_functions(mir)
    specs = c19.conversions()
    names = [n for n in specs if not only or n in only.split(",")]
    res["notes"].append(f"MIR dump {dump_s:.0f}s, {len(fns)} functions parsed, chrono consts {cline.strip()}")

    z3 = z3_solver(os.path.join(LOGS, prop, "z3.smt2"))
    cv = cvc5_solver(os.path.join(LOGS, prop, "cvc5.smt2"))
    for s in (z3, cv):
        s.send("(set-option :produce-models true)")
        s.send("(set-logic ALL)")
    code = EXIT_OK
    witnesses = 0
    try:
        for name in names:
            spec = specs[name]
            try:
                enc = encode(spec, fns)
            except (Unsupported, KeyError, IndexError, AttributeError, ValueError, TypeError) as u:
                inconclusive(f"{name}: encoder gap: {type(u).__name__}: {u}")
                code = EXIT_INCONCLUSIVE if code == EXIT_OK else code
                continue
            for s in (z3, cv):
                s.send("(push 1)")
                for var, ty in enc.decls:
                    s.send(f"(declare-const {var} Int)")
                for a in enc.assumptions:
                    s.send(f"(assert {a})")
                s.send(f"(define-fun c_valid () Bool {spec['valid_in']})")
                s.send(f"(define-fun c_meaning () Int {spec['meaning_in']})")
                s.send(f"(define-fun c_inrange () Bool {spec['range_b']('c_meaning')})")
            in_names = [v for v, _ in enc.decls]
            sample = {"conversion": name, "what": spec["what"], "mir_function": enc.fn.name, "paths": len(enc.paths),
                      "mir_steps": enc.steps, "contracts_used": enc.callees, "queries": []}
            feasible_ok = feasible_reject = 0
            for pi, (pc, outcome, notes) in enumerate(enc.paths):
                try:
                    kind, payload = classify(spec, outcome)
                    goal, outs = goal_for(spec, kind, payload)
                except Unsupported as u:
                    inconclusive(f"{name} path {pi}: {u}")
                    code = EXIT_INCONCLUSIVE if code == EXIT_OK else code
                    continue
                pcs = " ".join(pc) if pc else "true"
                # reachability twin (vacuity): the path condition itself must be satisfiable
                for s in (z3, cv):
                    s.send("(push 1)")
                    s.send(f"(assert (and true {pcs}))")
                feas = z3.check()
                feas_cv = cv.check()
                res["queries"] += 1
                if feas != feas_cv and "unknown" not in (feas, feas_cv):
                    inconclusive(f"{name} path {pi}: z3 and cvc5 disagree on feasibility ({feas} vs {feas_cv})")
                    code = EXIT_INCONCLUSIVE if code == EXIT_OK else code
                if feas == "sat":
                    if kind == "ok":
                        feasible_ok += 1
                    elif kind == "reject":
                        feasible_reject += 1
                elif feas != "unsat":
                    inconclusive(f"{name} path {pi}: feasibility query answered {feas}")
                    code = EXIT_INCONCLUSIVE if code == EXIT_OK else code
                # UB side conditions recorded by the executor on this path must hold
                obligations = [("goal:" + kind, goal)] + [("no-ub:" + why, cond) for (_, cond, why) in notes]
                for oname, g in obligations:
                    excluded = []
                    while True:
                        for s in (z3, cv):
                            s.send("(push 1)")
                            s.send(f"(assert (not {g}))")
                            for r in excluded:
                                s.send(f"(assert (not {r}))")
                        a = z3.check()
                        b = cv.check()
                        res["queries"] += 1
                        res["obligations"] += 1
                        q = {"path": pi, "obligation": oname, "outcome": kind if kind != "reject" else payload, "z3": a, "cvc5": b,
                             "excluded_known_regions": len(excluded)}
                        if (a == "unsat" and b in ("unsat", "unknown", "timeout")) or (b == "unsat" and a in ("unknown", "timeout")):
                            res["decided"] += 1
                            res["discharged"] += 1
                            if b != "unsat" or a != "unsat":
                                q["note"] = "one solver did not decide; the other's unsat stands"
                            for s in (z3, cv):
                                s.send("(pop 1)")
                            sample["queries"].append(q)
                            break
                        if a == "sat" or (b == "sat" and a != "unsat"):
                            model_from = z3 if a == "sat" else cv
                            q["model_from"] = model_from.name
                            vals = parse_values(model_from.ask("(get-value (" + " ".join(in_names) + " c_valid c_meaning c_inrange))"))
                            for s in (z3, cv):
                                s.send("(pop 1)")
                            if b == "unsat" and a == "sat":
                                inconclusive(f"{name} path {pi} {oname}: z3 says sat, cvc5 says unsat")
                                code = EXIT_INCONCLUSIVE if code == EXIT_OK else code
                                sample["queries"].append(q)
                                break
                            res["decided"] += 1
                            inputs = [vals[v] for v in in_names]
                            q["counterexample"] = dict(zip(in_names, inputs))
                            exp_ok = bool(vals["c_valid"] and vals["c_inrange"])
                            native = native_batch(binp, [name + " " + " ".join(str(x) for x in inputs)])
                            nline = native[0] if native else "?"
                            q["native"] = nline
                            dev = native_deviates(spec, exp_ok, vals["c_meaning"], nline)
                            if dev is not True:
                                inconclusive(f"{name} path {pi} {oname}: counterexample {q['counterexample']} does not reproduce natively "
                                             f"(real outcome `{nline}` agrees with the exact semantics): encoder or contract is wrong")
                                code = EXIT_INCONCLUSIVE if code == EXIT_OK else code
                                sample["queries"].append(q)
                                break
                            # which known region (if any) contains this counterexample?
                            region = None
                            for rname, rterm in spec["regions"].items():
                                k = match_known(known, prop, name, rname)
                                if not k:
                                    continue
                                for s in (z3,):
                                    s.send("(push 1)")
                                    for v, x in zip(in_names, inputs):
                                        s.send(f"(assert (= {v} {x if x >= 0 else '(- %d)' % -x}))")
                                    s.send(f"(assert {rterm})")
                                inreg = z3.check()
                                z3.send("(pop 1)")
                                if inreg == "sat":
                                    region = (rname, rterm, k)
                                    break
                            os.makedirs(os.path.join(REPLAYS, prop), exist_ok=True)
                            rp = os.path.join(REPLAYS, prop, f"{name}-p{pi}-{len(excluded)}.json")
                            json.dump({"property": prop, "engine": "mir", "conversion": name, "inputs": inputs, "input_names": in_names,
                                       "expected": "Ok with meaning %d" % vals["c_meaning"] if exp_ok else "explicit rejection",
                                       "native": nline, "obligation": oname}, open(rp, "w"), indent=1)
                            q["replay_file"] = rp
                            sample["queries"].append(q)
                            if region and region[1] not in excluded:
                                say(f"KNOWN-FINDING: property={prop} {region[2]['what']} [{name} {q['counterexample']} -> {nline}]")
                                res["findings"].append({"known": True, "unit": name, "desc": region[0], "replay": rp})
                                excluded.append(region[1])
                                continue  # look for a different violation outside the known region
                            say(f"VIOLATION property={prop} replay={rp}")
                            say(f"  {spec['what']}: input {q['counterexample']} expected {'exact Ok' if exp_ok else 'explicit rejection'}, real code -> {nline}")
                            res["findings"].append({"known": False, "unit": name, "desc": oname, "replay": rp})
                            code = EXIT_VIOLATION
                            break
                        # unknown / timeout / error
                        for s in (z3, cv):
                            s.send("(pop 1)")
                        inconclusive(f"{name} path {pi} {oname}: solver answered {a} / {b}")
                        code = EXIT_INCONCLUSIVE if code == EXIT_OK else code
                        sample["queries"].append(q)
                        break
                for s in (z3, cv):
                    s.send("(pop 1)")
            sample["feasible_ok_paths"], sample["feasible_reject_paths"] = feasible_ok, feasible_reject
            if feasible_ok == 0:
                inconclusive(f"{name}: no feasible accepting path (vacuous encoding?)")
                code = EXIT_INCONCLUSIVE if code == EXIT_OK else code
            witnesses += feasible_ok + feasible_reject
            # translator / contract validation on concrete boundary inputs
            try:
                tv = validate_translation(spec, enc, z3, binp, in_names)
            except Unsupported as u:
                tv = {"compared": 0, "mismatches": [{"encoder gap": str(u)}]}
            sample["translator_validation"] = tv
            if tv["mismatches"]:
                inconclusive(f"{name}: encoding and real function disagree on {len(tv['mismatches'])} concrete inputs, e.g. {tv['mismatches'][0]}")
                code = EXIT_INCONCLUSIVE if code == EXIT_OK else code
            for s in (z3, cv):
                s.send("(pop 1)")
            res["samples"].append(sample)
            nq = len(sample["queries"])
            say(f"  [{name:>15}] paths={len(enc.paths)} ok-paths={feasible_ok} reject-paths={feasible_reject} obligations={nq} "
                f"validated_inputs={tv['compared']} callees={','.join(enc.callees) or '-'}")
    finally:
        errs = z3.errors + cv.errors
        res["solver_s"] = z3.time + cv.time
        z3.close()
        cv.close()
    if errs:
        inconclusive("solver error output: " + errs[0][:200])
        code = EXIT_INCONCLUSIVE if code == EXIT_OK else code
    res["nontrivial"] = witnesses
    res["validated_inputs"] = sum(smp.get("translator_validation", {}).get("compared", 0) for smp in res["samples"])
    if res["exit"] == EXIT_INCONCLUSIVE and code == EXIT_OK:
        code = EXIT_INCONCLUSIVE
    res["exit"] = code if code != EXIT_OK else res["exit"]
    if code == EXIT_VIOLATION:
        res["exit"] = EXIT_VIOLATION
    res["wall"] = time.time() - t0
    return res


def validate_translation(spec, enc, z3, binp, in_names):
    """Concrete boundary inputs through both the real function and the encoding (Serval-style validation)."""
    name = spec["name"]
    inputs = c19.boundary_inputs(name, int(os.environ.get("VERIF_SEED", "0") or 0))
    lines = [name + " " + " ".join(str(x) for x in v) for v in inputs]
    native = native_batch(binp, lines) if lines else []
    compared, mismatches = 0, []
    for vec, nline in zip(inputs, native):
        if nline.startswith("BADINPUT"):
            continue
        z3.send("(push 1)")
        for v, x in zip(in_names, vec):
            z3.send(f"(assert (= {v} {x if x >= 0 else '(- %d)' % -x}))")
        pre = z3.check()
        if pre != "sat":
            z3.send("(pop 1)")
            continue  # outside the type invariants of the encoding (e.g. invalid TimeDelta)
        enc_out = None
        for (pc, outcome, notes) in enc.paths:
            z3.send("(push 1)")
            z3.send("(assert (and true " + " ".join(pc) + "))")
            r = z3.check()
            if r == "sat":
                kind, payload = classify(spec, outcome)
                if kind == "ok":
                    _, _, outs = spec["reader"](payload)
                    for i, o in enumerate(outs):
                        z3.send(f"(define-fun tv_o{i} () Int {o})")
                    vals = parse_values(z3.ask("(get-value (" + " ".join(f"tv_o{i}" for i in range(len(outs))) + "))"))
                    enc_out = "OK " + " ".join(str(vals[f"tv_o{i}"]) for i in range(len(outs)))
                elif kind == "reject":
                    enc_out = payload
                else:
                    enc_out = "UB"
                z3.send("(pop 1)")
                break
            z3.send("(pop 1)")
        z3.send("(pop 1)")
        compared += 1
        n_cmp = nline if nline.startswith("OK") else nline.split()[0] + (" " + nline.split()[1] if nline.startswith("ERR") else "")
        e_cmp = enc_out if enc_out and enc_out.startswith("OK") else (enc_out.split()[0] + (" " + enc_out.split()[1] if enc_out.startswith("ERR") else "") if enc_out else "NONE")
        if n_cmp != e_cmp:
            mismatches.append({"input": vec, "real": nline, "encoding": enc_out})
    return {"compared": compared, "mismatches": mismatches[:5]}


def replay_file(path):
    rec = json.load(open(path))
    ok, binp, out = build_time_replay()
    if not ok:
        say("native driver does not build")
        return EXIT_INCONCLUSIVE
    line = rec["conversion"] + " " + " ".join(str(x) for x in rec["inputs"])
    native = native_batch(binp, [line])
    say(f"input: {dict(zip(rec['input_names'], rec['inputs']))}")
    say(f"property expects: {rec['expected']}")
    say(f"real code now:    {native[0] if native else '?'}   (recorded: {rec['native']})")
    return EXIT_VIOLATION if native and native[0] == rec["native"] else EXIT_OK
