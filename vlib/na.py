"""Properties not claimed, each with the measured reason (DESIGN.md section 2)."""
NOT_APPLICABLE = {
    "C14": "Fidelity of method/URL/headers/body runs through url::Url::parse, http_types header maps and Display formatting (to_string() is the subject, so fmt cannot be stubbed): input-length-proportional third-party parsers, IDNA/percent-encoding tables; no integer kernel to isolate.",
    "C20": "The CLI registry is computed by a datalog engine (ascent) over a rustdoc-JSON graph of 10^3-10^4 items held in hash maps and strings; invariance under renumbering quantifies over permutations of that graph; nothing loop-free or small-state to encode.",
}
# claimed-in-DESIGN but not built yet are listed here until their check exists (kept current by gen_manifest)
PENDING_REASON = "claimed in DESIGN.md; check not built yet in this tree (the manifest only lists checks that run)"
