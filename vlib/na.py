"""Properties not claimed, each with the measured reason (DESIGN.md section 2)."""
NOT_APPLICABLE = {
    "C20": "The CLI registry is computed by a datalog engine (ascent) over a rustdoc-JSON graph of 10^3-10^4 items held in hash maps and strings; invariance under renumbering quantifies over permutations of that graph; nothing loop-free or small-state to encode.",
}
# claimed-in-DESIGN but not built yet are listed here until their check exists (kept current by gen_manifest)
PENDING_REASON = "claimed in DESIGN.md; check not built yet in this tree (the manifest only lists checks that run)"
