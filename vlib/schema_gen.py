"""C10 pre-step: trace the schema with crux's REAL type generator from /repo's current tree and turn it
into a schema-driven reference encoder (Rust source) for the Kani harness crate `kani/schema_harness`.

  1. `kani/schema_dump` (native, path deps on /repo with feature `typegen`) runs each protocol's own
     `Operation::register_types` on a real `TypeGen` and prints the serde-reflection registry as JSON;
  2. this module walks the registry and writes `kani/schema_harness/src/generated.rs`: for every root
     type one `enc_<Type>` function that writes a *schema-valid* encoding of an arbitrary value (every
     leaf a fresh symbolic value) in the layout the generated foreign-language codecs use for bincode
     (serde-generate's bincode runtime: u32 little-endian variant index, fixed-width little-endian
     integers, u64 length prefixes, one-byte option tags), plus the const-generic case functions and
     proof harnesses that call the real serde impls through bincode with the bridge's options.

Nothing here decides anything: the deciding step is the solver run over the harnesses.  The generator
refuses (-> inconclusive) on any format it does not know.
"""
import json
import os
import subprocess

from .common import LOGS, STABLE, TARGET, VERIF, env_offline, run

# root types per protocol: registry name -> Rust path (the registry is keyed by serde names)
ROOTS = {
    "time": {
        "TimeRequest": "crux_time::TimeRequest",
        "TimeResponse": "crux_time::TimeResponse",
        "Instant": "crux_time::Instant",
        "Duration": "crux_time::Duration",
        "TimerId": "crux_time::TimerId",
    },
    # KeyValueOperation is left to the wire harnesses of C17 (hand-written reference encoder): every one of its
    # schema-generated round-trip harnesses, even a single shape with empty strings, ran out of memory
    # (24 GB) or of solver memory after 8-10 min, while KeyValueResult's take 25-75 s per group of four
    "kv": {
        "KeyValueResult": "crux_kv::KeyValueResult",
    },
}
MAX_SEQ = 1  # bound on sequence / byte-string lengths in generated encodings
MAX_STR = 0  # bound on string lengths: decoding a non-empty string goes through core::str::from_utf8, whose
             # validation loop (pointer-alignment fast path) gets no verdict in 10 min for one 1-byte string
GROUP = int(os.environ.get("VERIF_SHAPE_GROUP", "4"))  # shapes per proof harness

PRIM = {"U8": ("u8", 1), "U16": ("u16", 2), "U32": ("u32", 4), "U64": ("u64", 8), "I32": ("i32", 4), "I64": ("i64", 8)}


class Unsupported(Exception):
    pass


def dump_registry(which):
    d = os.path.join(VERIF, "kani", "schema_dump")
    lock_src = os.path.join(os.environ.get("VERIF_REPO", "/repo"), "Cargo.lock")
    if os.path.exists(lock_src) and not os.path.exists(os.path.join(d, "Cargo.lock")):
        import shutil
        shutil.copy(lock_src, os.path.join(d, "Cargo.lock"))
    tdir = os.path.join(TARGET, "schema_dump")
    rc, out, wall, to = run(["cargo", "build", "--offline", "--target-dir", tdir], cwd=d, env=env_offline({"RUSTUP_TOOLCHAIN": STABLE}),
                            timeout=900, log=os.path.join(LOGS, "build-schema_dump.log"))
    if rc != 0:
        raise Unsupported("schema dumper does not build against /repo: " + " | ".join(out.strip().splitlines()[-4:])[-400:])
    p = subprocess.run([os.path.join(tdir, "debug", "schema_dump"), which], capture_output=True, text=True, timeout=120)
    if p.returncode != 0:
        raise Unsupported("tracing failed: " + p.stderr.strip()[-400:])
    return json.loads(p.stdout)


def product(lists):
    out = [[]]
    for alts in lists:
        out = [a + b for a in out for b in alts]
    return out


def plans(fmt, reg, depth=0):
    """every *shape* of a schema-valid encoding of `fmt`: the discrete choices (variant index of every
    enum met on the way, option tags, lengths 0..MAX_SEQ of strings / byte strings / sequences) are
    resolved, the leaves stay symbolic.  A shape is a list of atoms:
      ("lit", bytes, note) | ("leaf", prim) | ("bool",) | ("strbyte",) | ("byte",)"""
    if depth > 8:
        raise Unsupported("recursive type")
    if isinstance(fmt, str):
        if fmt in PRIM:
            return [[("leaf", fmt)]]
        if fmt == "BOOL":
            return [[("bool",)]]
        if fmt == "UNIT":
            return [[]]
        if fmt in ("STR", "BYTES"):
            atom = ("strbyte",) if fmt == "STR" else ("byte",)
            return [[("lit", n.to_bytes(8, "little"), f"{fmt.lower()}[{n}]")] + [atom] * n for n in range((MAX_STR if fmt == "STR" else MAX_SEQ) + 1)]
        raise Unsupported(f"format {fmt}")
    (k, v), = fmt.items()
    if k == "TYPENAME":
        if v not in reg:
            raise Unsupported(f"type {v} referenced but not in the registry (registry not closed)")
        return container_plans(v, reg, depth + 1)
    if k == "OPTION":
        return [[("lit", b"\x00", "none")]] + [[("lit", b"\x01", "some")] + p for p in plans(v, reg, depth + 1)]
    if k == "SEQ":
        out = []
        for n in range(MAX_SEQ + 1):
            out += [[("lit", n.to_bytes(8, "little"), f"seq[{n}]")] + p for p in product([plans(v, reg, depth + 1)] * n)]
        return out
    if k in ("TUPLE", "TUPLESTRUCT"):
        return product([plans(f, reg, depth + 1) for f in v])
    if k in ("NEWTYPESTRUCT", "NEWTYPE"):
        return plans(v, reg, depth + 1)
    if k == "STRUCT":
        return product([plans(list(field.values())[0], reg, depth + 1) for field in v])
    raise Unsupported(f"format {k}")


def container_plans(name, reg, depth=0):
    (kind, body), = reg[name].items()
    if kind == "ENUM":
        idx = sorted(int(i) for i in body)
        if idx != list(range(len(body))):
            raise Unsupported(f"{name}: variant indices {idx} are not contiguous from zero")
        out = []
        for i in idx:
            (vname, vfmt), = body[str(i)].items()
            head = [("lit", i.to_bytes(4, "little"), f"{name}::{vname}")]
            if isinstance(vfmt, str):
                if vfmt != "UNIT":
                    raise Unsupported(f"{name}::{vname}: variant format {vfmt}")
                out.append(head)
            else:
                (vk, vv), = vfmt.items()
                if vk not in ("NEWTYPE", "TUPLE", "STRUCT"):
                    raise Unsupported(f"{name}::{vname}: variant format {vk}")
                out += [head + p for p in plans({vk: vv}, reg, depth + 1)]
        return out
    if kind == "UNITSTRUCT":
        return [[]]
    return plans({kind: body}, reg, depth + 1)


def emit_plan(plan, L, pad="    "):
    n = 0
    for a in plan:
        if a[0] == "lit":
            L.append(f"{pad}w.put(&[{', '.join(str(b) for b in a[1])}]); // {a[2]}")
            n += len(a[1])
        elif a[0] == "leaf":
            t, k = PRIM[a[1]]
            L.append(f"{pad}w.put(&nd::any_{t}().to_le_bytes());")
            n += k
        elif a[0] == "bool":
            L.append(f"{pad}w.put(&[u8::from(nd::any_bool())]);")
            n += 1
        elif a[0] == "strbyte":
            L.append(f"{pad}{{ let b = nd::any_u8(); nd::assume(b < 0x80); w.put(&[b]); }}")
            n += 1
        elif a[0] == "byte":
            L.append(f"{pad}w.put(&[nd::any_u8()]);")
            n += 1
    return n


def describe(plan):
    return " ".join(a[2] for a in plan if a[0] == "lit")


def rust_ident(name):
    return "".join(c if c.isalnum() else "_" for c in name)


def generate(which=("time", "kv")):
    if isinstance(which, str):
        which = (which,)
    L = ["// GENERATED on every `./check C10` run by vlib/schema_gen.py from the registry that crux's real TypeGen traces",
         "// from /repo's current working tree.  Do not edit; the committed copy is only a build placeholder.",
         "#![allow(non_snake_case, clippy::all)]", "use crate::{nd, roundtrip, rejects, W};", ""]
    summary, harnesses, registries = {}, [], {}
    for proto in which:
        reg = dump_registry(proto)
        registries[proto] = reg
        roots = ROOTS[proto]
        missing = [r for r in roots if r not in reg]
        if missing:
            raise Unsupported(f"root types missing from the traced registry: {missing}")
        for name, cf in reg.items():
            (kind, body), = cf.items()
            summary[name] = {"kind": kind.lower(), **({"variants": len(body)} if kind == "ENUM" else {})}
        for name, path in roots.items():
            fn = rust_ident(name).lower()
            (kind, _), = reg[name].items()
            shapes = container_plans(name, reg)
            if proto != "time":
                # measured: a shape with a bool leaf (bincode's InvalidBoolEncoding error arm) or a sequence of strings
                # (KeyValueResponse::Exists / ::ListKeys) gets no verdict in 20 min even alone; they are left out
                skipped = [describe(pl) for pl in shapes if any(a[0] == "bool" for a in pl) or any(a[0] == "lit" and a[2].startswith("seq[") for a in pl)]
                shapes = [pl for pl in shapes if describe(pl) not in skipped]
                summary[name]["shapes_left_out"] = skipped
            maxlen = 0
            for i, plan in enumerate(shapes):
                L.append(f"/// {name} shape {i}: {describe(plan) or 'fixed layout'}")
                L.append(f"fn shape_{fn}_{i}() {{")
                L.append("    let mut w = W::new();")
                maxlen = max(maxlen, emit_plan(plan, L))
                L.append(f"    roundtrip::<{path}>(&w);")
                L.append(f"    crate::nd_cover!(true, \"{name}: {describe(plan) or 'round trip'}\");")
                L.append("}")
            summary[name]["shapes"] = len(shapes)
            summary[name]["max_encoding_bytes"] = maxlen
            # non-empty strings go through core::str::from_utf8, whose validation loop (with its pointer-alignment
            # fast path) is the expensive part for CBMC: four such shapes in one SAT problem ran out of memory
            # (24 GB, 15 min), so a shape with a non-empty string gets a harness of its own
            heavy = [i for i, pl in enumerate(shapes) if any(a[0] == "strbyte" for a in pl)]
            light = [i for i in range(len(shapes)) if i not in heavy]
            groups = [light[i:i + GROUP] for i in range(0, len(light), GROUP)] + [[i] for i in heavy]
            for gi, grp in enumerate(groups):
                hname = f"c10_{proto}_{fn}" + (f"_{gi + 1}" if len(groups) > 1 else "")
                L.append("#[cfg_attr(kani, kani::proof, kani::unwind(50))]")
                L.append("#[cfg_attr(kani, kani::stub(core::fmt::write, crate::fmt_write_nop))]")
                L.append(f"pub fn {hname}() {{")
                if kind == "ENUM" or len(grp) > 1:
                    L.append("    let v = nd::any_u32();")
                    L.append("    match v {")
                    for k, si in enumerate(grp):
                        L.append(f"        {k} => shape_{fn}_{si}(),")
                    if kind == "ENUM" and gi == 0 and proto == "time":
                        nvar = summary[name]["variants"]
                        L.append(f"        _ if v >= {max(nvar, len(grp))} => {{")
                        L.append("            // an index the schema does not define must be rejected, not taken for some variant")
                        L.append("            let mut w = W::new();")
                        L.append("            w.put(&v.to_le_bytes());")
                        L.append("            w.put(&[0u8; 24]);")
                        L.append(f"            rejects::<{path}>(&w);")
                        L.append(f"            crate::nd_cover!(true, \"{name}: undefined variant index rejected\");")
                        L.append("        }")
                    L.append("        _ => nd::assume(false),")
                    L.append("    }")
                else:
                    L.append(f"    shape_{fn}_{grp[0]}();")
                L.append("}")
                harnesses.append({"name": hname, "root": name, "proto": proto, "shapes": [describe(shapes[si]) or "fixed layout" for si in grp],
                                  "undefined_indices": kind == "ENUM" and gi == 0 and proto == "time"})
            if False and kind == "ENUM" and proto != "time":
                # undefined variant indices of the root enum in a harness of its own: no verdict in 20 min (the error path
                # of bincode's variant decoding builds a formatted message); left out
                nvar = summary[name]["variants"]
                hname = f"c10_{proto}_{fn}_undefined"
                L.append("#[cfg_attr(kani, kani::proof, kani::unwind(50))]")
                L.append("#[cfg_attr(kani, kani::stub(core::fmt::write, crate::fmt_write_nop))]")
                L.append(f"pub fn {hname}() {{")
                L.append("    let v = nd::any_u32();")
                L.append(f"    nd::assume(v >= {nvar});")
                L.append("    let mut w = W::new();")
                L.append("    w.put(&v.to_le_bytes());")
                L.append("    w.put(&[0u8; 24]);")
                L.append(f"    rejects::<{path}>(&w);")
                L.append(f"    crate::nd_cover!(true, \"{name}: undefined variant index rejected\");")
                L.append("}")
                harnesses.append({"name": hname, "root": name, "proto": proto, "shapes": ["undefined variant indices"], "undefined_indices": True})
            L.append("")
    L.append("#[cfg(not(kani))]")
    L.append("pub const GENERATED_HARNESSES: &[(&str, fn())] = &[")
    for h in harnesses:
        L.append(f"    (\"{h['name']}\", {h['name']}),")
    L.append("];")
    out = os.path.join(VERIF, "kani", "schema_harness", "src", "generated.rs")
    new = "\n".join(L) + "\n"
    old = open(out).read() if os.path.exists(out) else None
    if old != new:
        with open(out, "w") as f:
            f.write(new)
    return {"registry_types": summary, "registry": registries, "generated": out, "harnesses": harnesses,
            "changed_since_last_run": old is not None and old != new}


if __name__ == "__main__":
    import sys
    r = generate(tuple(sys.argv[1:]) or ("time", "kv"))
    print(json.dumps(r["registry_types"], indent=1))
    for h in r["harnesses"]:
        print(h["name"], h["shapes"])
