"""C10 pre-step: trace the schema with crux's REAL type generator from /repo's current tree and turn it
into a schema-driven reference encoder (Rust source) for the Kani harness crate `kani/schema_harness`.

  1. `kani/schema_dump` (native, path deps on /repo with feature `typegen`) runs each protocol's own
     `Operation::register_types` on a real `TypeGen` and prints the serde-reflection registry as JSON;
  2. this module walks the registry and writes `kani/schema_harness/src/generated.rs`: for every root
     type one `enc_<Type>` function that writes a *schema-valid* encoding of an arbitrary value (every
     leaf a fresh symbolic value) in the layout the generated foreign-language codecs use for bincode
     (serde-generate's bincode runtime: u32 little-endian variant index, fixed-width little-endian
     integers, u64 length prefixes, one-byte option tags), plus the const-generic case functions and
     proof harnesses that call the real serde impls through bincode with the bridge's options.

Nothing here decides anything: the deciding step is the solver run over the harnesses.  The generator
refuses (-> inconclusive) on any format it does not know.
"""
import json
import os
import subprocess

from .common import LOGS, STABLE, TARGET, VERIF, env_offline, run

# root types per protocol: registry name -> Rust path (the registry is keyed by serde names)
ROOTS = {
    "time": {
        "TimeRequest": "crux_time::TimeRequest",
        "TimeResponse": "crux_time::TimeResponse",
        "Instant": "crux_time::Instant",
        "Duration": "crux_time::Duration",
        "TimerId": "crux_time::TimerId",
    },
}
MAX_SEQ = 1  # bound on sequence / string / byte-string lengths in generated encodings

PRIM = {"U8": ("u8", 1), "U16": ("u16", 2), "U32": ("u32", 4), "U64": ("u64", 8), "I32": ("i32", 4), "I64": ("i64", 8)}


class Unsupported(Exception):
    pass


def dump_registry(which):
    d = os.path.join(VERIF, "kani", "schema_dump")
    lock_src = os.path.join(os.environ.get("VERIF_REPO", "/repo"), "Cargo.lock")
    if os.path.exists(lock_src) and not os.path.exists(os.path.join(d, "Cargo.lock")):
        import shutil
        shutil.copy(lock_src, os.path.join(d, "Cargo.lock"))
    tdir = os.path.join(TARGET, "schema_dump")
    rc, out, wall, to = run(["cargo", "build", "--offline", "--target-dir", tdir], cwd=d, env=env_offline({"RUSTUP_TOOLCHAIN": STABLE}),
                            timeout=900, log=os.path.join(LOGS, "build-schema_dump.log"))
    if rc != 0:
        raise Unsupported("schema dumper does not build against /repo: " + " | ".join(out.strip().splitlines()[-4:])[-400:])
    p = subprocess.run([os.path.join(tdir, "debug", "schema_dump"), which], capture_output=True, text=True, timeout=120)
    if p.returncode != 0:
        raise Unsupported("tracing failed: " + p.stderr.strip()[-400:])
    return json.loads(p.stdout)


def emit_format(fmt, reg, lines, ind, leaves):
    """Append Rust statements that write a schema-valid encoding of `fmt` with symbolic leaves."""
    pad = "    " * ind
    if isinstance(fmt, str):
        if fmt in PRIM:
            t, n = PRIM[fmt]
            lines.append(f"{pad}w.put(&nd::any_{t}().to_le_bytes());")
            leaves.append(fmt)
        elif fmt == "BOOL":
            lines.append(f"{pad}w.put(&[u8::from(nd::any_bool())]);")
            leaves.append(fmt)
        elif fmt == "UNIT":
            pass
        elif fmt in ("STR", "BYTES"):
            lines.append(f"{pad}{{ let len = nd::any_u8_le({MAX_SEQ}); w.put(&u64::from(len).to_le_bytes()); let mut i = 0; while i < len {{ let b = nd::any_u8(); "
                         + ("nd::assume(b < 0x80); " if fmt == "STR" else "") + "w.put(&[b]); i += 1; } }")
            leaves.append(fmt)
        else:
            raise Unsupported(f"format {fmt}")
        return
    (k, v), = fmt.items()
    if k == "TYPENAME":
        lines.append(f"{pad}enc_{v}(w);")
        if v not in reg:
            raise Unsupported(f"type {v} referenced but not in the registry (registry not closed)")
    elif k == "OPTION":
        lines.append(f"{pad}if nd::any_bool() {{ w.put(&[1]);")
        emit_format(v, reg, lines, ind + 1, leaves)
        lines.append(f"{pad}}} else {{ w.put(&[0]); }}")
    elif k == "SEQ":
        lines.append(f"{pad}{{ let len = nd::any_u8_le({MAX_SEQ}); w.put(&u64::from(len).to_le_bytes()); let mut i = 0; while i < len {{")
        emit_format(v, reg, lines, ind + 1, leaves)
        lines.append(f"{pad}i += 1; }} }}")
    elif k in ("TUPLE", "TUPLESTRUCT"):
        for f in v:
            emit_format(f, reg, lines, ind, leaves)
    elif k == "NEWTYPESTRUCT" or k == "NEWTYPE":
        emit_format(v, reg, lines, ind, leaves)
    elif k == "STRUCT":
        for field in v:
            (_, f), = field.items()
            emit_format(f, reg, lines, ind, leaves)
    else:
        raise Unsupported(f"format {k}")


def rust_ident(name):
    return "".join(c if c.isalnum() else "_" for c in name)


def generate(which="time"):
    reg = dump_registry(which)
    roots = ROOTS[which]
    missing = [r for r in roots if r not in reg]
    if missing:
        raise Unsupported(f"root types missing from the traced registry: {missing}")
    L = ["// GENERATED on every `./check C10` run by vlib/schema_gen.py from the registry that crux's real TypeGen traces",
         "// from /repo's current working tree.  Do not edit; the committed copy is only a build placeholder.",
         "#![allow(non_snake_case, clippy::all)]", "use crate::{nd, roundtrip, rejects, W};", ""]
    summary = {}
    for name, cf in reg.items():
        (kind, body), = cf.items()
        leaves = []
        if kind == "ENUM":
            n = len(body)
            idx = sorted(int(i) for i in body)
            if idx != list(range(n)):
                raise Unsupported(f"{name}: variant indices {idx} are not contiguous from zero")
            L.append(f"pub const VARIANTS_{name}: u32 = {n};")
            L.append(f"/// schema-valid encoding of `{name}`: u32 variant index, then the variant's fields in declaration order")
            L.append(f"pub fn enc_variant_{name}(w: &mut W, variant: u32) {{")
            L.append("    w.put(&variant.to_le_bytes());")
            L.append("    match variant {")
            for i in idx:
                (vname, vfmt), = body[str(i)].items()
                L.append(f"        {i} => {{ // {vname}")
                if isinstance(vfmt, str):
                    if vfmt != "UNIT":
                        raise Unsupported(f"{name}::{vname}: variant format {vfmt}")
                else:
                    (vk, vv), = vfmt.items()
                    if vk == "NEWTYPE":
                        emit_format(vv, reg, L, 3, leaves)
                    elif vk == "TUPLE":
                        for f in vv:
                            emit_format(f, reg, L, 3, leaves)
                    elif vk == "STRUCT":
                        for field in vv:
                            (_, f), = field.items()
                            emit_format(f, reg, L, 3, leaves)
                    else:
                        raise Unsupported(f"{name}::{vname}: variant format {vk}")
                L.append("        }")
            L.append("        _ => nd::assume(false),")
            L.append("    }")
            L.append("}")
            L.append(f"pub fn enc_{name}(w: &mut W) {{ let v = nd::any_u32(); nd::assume(v < VARIANTS_{name}); enc_variant_{name}(w, v); }}")
            summary[name] = {"kind": "enum", "variants": n}
        else:
            L.append(f"/// schema-valid encoding of `{name}` ({kind})")
            L.append(f"pub fn enc_{name}(w: &mut W) {{")
            emit_format({kind: body} if kind != "UNITSTRUCT" else "UNIT", reg, L, 1, leaves)
            L.append("}")
            summary[name] = {"kind": kind.lower(), "leaves": leaves}
        L.append("")
    # case functions and harnesses for the root types
    for name, path in roots.items():
        fn = rust_ident(name).lower()
        (kind, body), = reg[name].items()
        if kind == "ENUM":
            n = len(body)
            L.append(f"fn case_{fn}<const V: u32>() {{")
            L.append("    let mut w = W::new();")
            L.append(f"    enc_variant_{name}(&mut w, V);")
            L.append(f"    roundtrip::<{path}>(&w);")
            for i in range(n):
                (vname, _), = body[str(i)].items()
                L.append(f"    crate::nd_cover!(V == {i}, \"{name}::{vname} round trip\");")
            L.append("}")
            L.append("#[cfg_attr(kani, kani::proof, kani::unwind(34))]")
            L.append("#[cfg_attr(kani, kani::stub(core::fmt::write, crate::fmt_write_nop))]")
            L.append(f"pub fn c10_{which}_{fn}() {{")
            L.append("    let v = nd::any_u32();")
            L.append("    match v {")
            for i in range(n):
                L.append(f"        {i} => case_{fn}::<{i}>(),")
            L.append("        _ => {")
            L.append("            // an index the schema does not define must be rejected, not taken for some variant")
            L.append("            let mut w = W::new();")
            L.append("            w.put(&v.to_le_bytes());")
            L.append("            w.put(&[0u8; 24]);")
            L.append(f"            rejects::<{path}>(&w);")
            L.append(f"            crate::nd_cover!(true, \"{name}: undefined variant index rejected\");")
            L.append("        }")
            L.append("    }")
            L.append("}")
        else:
            L.append("#[cfg_attr(kani, kani::proof, kani::unwind(34))]")
            L.append("#[cfg_attr(kani, kani::stub(core::fmt::write, crate::fmt_write_nop))]")
            L.append(f"pub fn c10_{which}_{fn}() {{")
            L.append("    let mut w = W::new();")
            L.append(f"    enc_{name}(&mut w);")
            L.append(f"    roundtrip::<{path}>(&w);")
            L.append(f"    crate::nd_cover!(true, \"{name} round trip\");")
            L.append("}")
        L.append("")
    L.append("#[cfg(not(kani))]")
    L.append("pub const GENERATED_HARNESSES: &[(&str, fn())] = &[")
    for name in roots:
        fn = rust_ident(name).lower()
        L.append(f"    (\"c10_{which}_{fn}\", c10_{which}_{fn}),")
    L.append("];")
    out = os.path.join(VERIF, "kani", "schema_harness", "src", "generated.rs")
    new = "\n".join(L) + "\n"
    old = open(out).read() if os.path.exists(out) else None
    if old != new:
        with open(out, "w") as f:
            f.write(new)
    return {"registry_types": summary, "registry": reg, "generated": out, "changed_since_last_run": old is not None and old != new}


if __name__ == "__main__":
    import sys
    r = generate(sys.argv[1] if len(sys.argv) > 1 else "time")
    print(json.dumps(r["registry_types"], indent=1))
